#!/bin/bash
# Builds every harness artefact offline from files on disk. Run once after a fresh restore.
set -e
ROOT="$(cd "$(dirname "$0")" && pwd)"
export CARGO_NET_OFFLINE=true
cd "$ROOT/harness"
cargo build --profile checked -p kmon
cargo build --release -p kmon
cargo build --release -p kestrel-wt
cargo build --profile checked -p kestrel-wt
cargo build --release -p kestrel-ffi-wt
echo "setup ok"
