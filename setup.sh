#!/bin/bash
# Builds every harness artefact offline from files on disk. Run once after a fresh restore.
set -e
ROOT="$(cd "$(dirname "$0")" && pwd)"
export CARGO_NET_OFFLINE=true
cd "$ROOT/harness"
cargo build --profile checked -p kmon
cargo build --release -p kmon
cargo build --release -p kestrel-wt
cargo build --profile checked -p kestrel-wt
cargo build --release -p kestrel-ffi-wt
cargo build --profile checked -p kestrel-ffi-wt
RUSTFLAGS="-Zsanitizer=address -Cforce-frame-pointers=yes" CARGO_TARGET_DIR="$ROOT/harness/target-asan" \
  cargo +nightly build --release -p kestrel-ffi-wt --target x86_64-unknown-linux-gnu || echo "warning: ASan lane unavailable"
# Miri: build the sysroot and the harness once so later runs start quickly
(cd "$ROOT/harness/miri" && cargo +nightly miri setup && cargo +nightly miri run --quiet -- c20 1) || echo "warning: Miri lane unavailable"
echo "setup ok"
