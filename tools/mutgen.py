#!/usr/bin/env python3
"""Operator-level mutant generator for /repo (used to validate the monitors, not part of any check).

Walks the non-test part of every source file and applies line-local operators (relational / equality flips,
boundary shifts, constant +-1, boolean flips, && <-> ||, endianness swaps, statement deletion, condition
forcing, error swallowing). Each candidate is written as a unified diff (git-apply-able from the repository
root) to <outdir>/<id>.patch with a one-line description in <outdir>/index.json.

usage: tools/mutgen.py <outdir> [repo]
"""
import re, sys, os, json, difflib

out = sys.argv[1]
repo = sys.argv[2] if len(sys.argv) > 2 else '/repo'
FILES = ['src/crypto/src/decrypt.rs', 'src/crypto/src/encrypt.rs', 'src/crypto/src/lib.rs', 'src/crypto/src/noise.rs',
         'src/crypto/src/scrypt.rs', 'src/cli/src/commands.rs', 'src/cli/src/keyring.rs', 'src/cli/src/main.rs',
         'src/ffi/src/lib.rs']
os.makedirs(out, exist_ok=True)


def ops_for(line):
    """yield (operator-name, new-line) for one source line"""
    s = line
    code = s.split('//')[0]
    if not code.strip() or code.strip().startswith(('#[', 'use ', 'pub use', 'mod ', '///', '//!')):
        return
    # usage / help text and string-only lines: skip
    stripped = code.strip()
    if stripped.startswith('"') or stripped.startswith('r#"'):
        return
    rel = [(' == ', ' != '), (' != ', ' == '), (' < ', ' <= '), (' <= ', ' < '), (' > ', ' >= '), (' >= ', ' > '),
           (' && ', ' || '), (' || ', ' && ')]
    for a, b in rel:
        for m in re.finditer(re.escape(a), code):
            # skip generics / arrows
            yield (f'{a.strip()}->{b.strip()}', s[:m.start()] + b + s[m.end():])
    for a, b in [(' + 1', ' + 2'), (' + 1', ''), (' - 1', ''), (' += 1', ' += 2'), (' + ', ' - '), (' - ', ' + '), (' * ', ' + ')]:
        for m in re.finditer(re.escape(a) + r'(?![0-9_a-zA-Z.])' if a[-1].isdigit() else re.escape(a), code):
            yield (f'arith:{a.strip()}->{b.strip() or "(removed)"}', s[:m.start()] + b + s[m.end():])
    for m in re.finditer(r'(?<![\w.])(\d+)(usize|u8|u16|u32|u64|i32)?(?![\w.])', code):
        v = int(m.group(1))
        if v > 70000:
            continue
        # inside a string literal? (rough: odd number of quotes before)
        if code[:m.start()].count('"') % 2 == 1:
            continue
        suf = m.group(2) or ''
        for nv in ({v + 1, max(v - 1, 0)} - {v}):
            yield (f'const:{v}->{nv}', s[:m.start()] + str(nv) + suf + s[m.end():])
    for a, b in [('true', 'false'), ('false', 'true')]:
        for m in re.finditer(r'\b' + a + r'\b', code):
            if code[:m.start()].count('"') % 2 == 1:
                continue
            yield (f'bool:{a}->{b}', s[:m.start()] + b + s[m.end():])
    for a, b in [('to_be_bytes', 'to_le_bytes'), ('to_le_bytes', 'to_be_bytes'), ('from_be_bytes', 'from_le_bytes'), ('from_le_bytes', 'from_be_bytes')]:
        for m in re.finditer(a, code):
            yield (f'endian:{a}', s[:m.start()] + b + s[m.end():])
    # condition forcing:  if COND {  ->  if false {   /  if true {
    m = re.match(r'^(\s*(?:\}\s*else\s+)?if )(?!let)(.+)( \{\s*)$', code.rstrip('\n'))
    if m:
        yield ('if-cond->false', m.group(1) + 'false && (' + m.group(2) + ')' + m.group(3) + '\n')
        yield ('if-cond->true', m.group(1) + 'true || (' + m.group(2) + ')' + m.group(3) + '\n')
    # statement deletion: a whole-line call statement
    m = re.match(r'^\s*([A-Za-z_][\w:.]*(?:\.[\w]+)*)\(.*\)(\?|\.unwrap\(\))?;\s*$', code.rstrip('\n'))
    if m and not stripped.startswith(('let ', 'return', 'assert', 'debug_assert', 'println', 'eprintln', 'eprint', 'print')):
        yield ('delete-statement', re.match(r'^\s*', s).group(0) + '();\n')
    m = re.match(r'^\s*([a-z_][\w.]*)\.(zeroize|flush|write_all|mix_hash|mix_key|copy_from_slice|extend_from_slice|push|clear|truncate)\(.*\).*;\s*$', code.rstrip('\n'))
    if m and not stripped.startswith('let '):
        yield ('delete-method-call', re.match(r'^\s*', s).group(0) + '();\n')
    # error swallowing
    for m in re.finditer(r'\.map_err\((\w+)\)\?;', code):
        yield ('swallow-error', s[:m.start()] + '.ok();' + s[m.end():])
    # slice bounds
    for m in re.finditer(r'\[\.\.(\w+)\]', code):
        yield ('slice:..n->..', s[:m.start()] + '[..]' + s[m.end():])


index = []
n = 0
for rel in FILES:
    path = os.path.join(repo, rel)
    src = open(path).read().split('\n')
    src = [l + '\n' for l in src[:-1]] + ([src[-1]] if src[-1] else [])
    end = len(src)
    for i, l in enumerate(src):
        if l.strip() == '#[cfg(test)]':
            end = i
            break
    seen = set()
    for i in range(end):
        for name, new in ops_for(src[i]):
            if new == src[i] or (i, new) in seen:
                continue
            seen.add((i, new))
            mutated = src[:i] + [new] + src[i + 1:]
            diff = ''.join(difflib.unified_diff(src, mutated, 'a/' + rel, 'b/' + rel, n=3))
            mid = f'm{n:04d}'
            open(os.path.join(out, mid + '.patch'), 'w').write(diff)
            index.append({'id': mid, 'file': rel, 'line': i + 1, 'op': name, 'old': src[i].strip(), 'new': new.strip()})
            n += 1
json.dump(index, open(os.path.join(out, 'index.json'), 'w'), indent=1)
print(n, 'candidates')
from collections import Counter
print(Counter(e['file'] for e in index))
print(Counter(e['op'].split(':')[0] for e in index))
