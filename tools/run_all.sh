#!/bin/bash
# Runs every registered check of a tier sequentially and validates the evidence files.
# usage: tools/run_all.sh quick|thorough [seed]
cd "$(dirname "$0")/.."
TIER="${1:-quick}"; export VERIF_SEED="${2:-1}"
fail=0
for p in $(python3 -c "import json;print(' '.join(c['property_id'] for c in json.load(open('MANIFEST.json'))['checks']))"); do
  s=$(date +%s.%N)
  out=$(./check $p $TIER 2>&1); rc=$?
  e=$(date +%s.%N)
  printf "%s rc=%d %.1fs  %s\n" $p $rc $(echo "$e - $s" | bc) "$(echo "$out" | grep -E "verdict=" | tail -1 | sed 's/.*verdict=//')"
  echo "$out" | grep -E "^(VIOLATION|INCONCLUSIVE|KNOWN-FINDING)" | cut -c1-200
  [ $rc -ne 0 ] && fail=1
done
python3-vt - <<'PY'
import json,jsonschema,glob
s=json.load(open('/root/.vp/EVIDENCE.schema.json'))
for f in sorted(glob.glob('evidence/*.json')):
    try:
        jsonschema.validate(json.load(open(f)),s)
    except Exception as e:
        print("INVALID",f,str(e)[:200])
print("evidence validated")
PY
exit $fail
