#!/bin/bash
# Confirms a sub-agent's seeded change independently and stores it under /verif/seeded/<name>/.
# usage: tools/collect_seed.sh <agent-worktree> <name> <property-id>
# Steps (all in a fresh scratch worktree of /repo, removed afterwards):
#   unchanged tree: demo must pass (exit 0); with the patch: build ok, 33 existing tests pass, demo must fail.
set -u
SRC="$1"; NAME="$2"; PROP="$3"
DST=/verif/seeded/$NAME
[ -f "$SRC/SEED_PATCH.diff" ] || { echo "no SEED_PATCH.diff in $SRC"; exit 2; }
rm -rf "$DST"; mkdir -p "$DST"
cp "$SRC/SEED_PATCH.diff" "$DST/patch.diff"
cp -r "$SRC/SEED_DEMO" "$DST/demo"; rm -rf "$DST"/demo/work "$DST"/demo/target "$DST"/demo/*/target
[ -f "$SRC/SEED_NOTES.md" ] && cp "$SRC/SEED_NOTES.md" "$DST/NOTES.md"
W=$(mktemp -d /tmp/seedchk.XXXXXX); rmdir $W
git -C /repo worktree add -q --detach $W HEAD || exit 2
cp -r "$DST/demo" $W/SEED_DEMO
clean_demo=$( (cd $W && bash SEED_DEMO/run.sh $W >/tmp/seedchk.$$.clean 2>&1); echo $?)
(cd $W && git apply "$DST/patch.diff") || { echo "patch does not apply"; git -C /repo worktree remove --force $W; exit 2; }
build=$( (cd $W && cargo build --workspace --offline >/tmp/seedchk.$$.build 2>&1); echo $?)
tests=$(cd $W && cargo test --workspace --no-fail-fast --offline 2>&1 | awk '/^test result/ {p+=$4; f+=$6} END {print p"/"f}')
mut_demo=$( (cd $W && bash SEED_DEMO/run.sh $W >/tmp/seedchk.$$.mut 2>&1); echo $?)
python3 - "$DST" "$NAME" "$PROP" "$clean_demo" "$build" "$tests" "$mut_demo" <<'PY'
import json,sys
dst,name,prop,clean,build,tests,mut=sys.argv[1:]
ok = clean=="0" and build=="0" and tests=="33/0" and mut!="0"
meta={"name":name,"breaks_property":prop,"origin":"independent sub-agent given only the property text and a scratch worktree",
 "confirmed":{"demo_on_unchanged_tree_exit":int(clean),"build_with_patch_exit":int(build),"existing_tests_with_patch (passed/failed)":tests,"demo_with_patch_exit":int(mut),"all_confirmed":ok},
 "what_i_ran":["git worktree add --detach <scratch> HEAD","bash SEED_DEMO/run.sh <scratch>   (unchanged tree)","git apply patch.diff","cargo build --workspace --offline","cargo test --workspace --no-fail-fast --offline","bash SEED_DEMO/run.sh <scratch>   (patched tree)"],
 "needs_to_manifest":"see NOTES.md"}
json.dump(meta,open(dst+"/meta.json","w"),indent=1)
print(name, "CONFIRMED" if ok else "NOT CONFIRMED", meta["confirmed"])
PY
git -C /repo worktree remove --force $W
rm -f /tmp/seedchk.$$.*
