import re,json
d4={
"C01":"made the keyring name lookup case-insensitive while uniqueness stays case-sensitive, so -f alice can pick the entry Alice",
"C02":"folded the keyring-append logic into the lazily created output file and lost truncate(true), so -o onto an existing longer file leaves a stale tail",
"C03":"staged -o output in FILE.part and renamed it on success, appending to a FILE.part left behind by an earlier interrupted run",
"C04":"wrapped stdout in a sink that retries after EAGAIN/WouldBlock but re-sends the whole chunk, duplicating bytes on a slow non-blocking pipe",
"C05":"moved the duplicate-name check from keyring load time to lookup time, so the key-to-name direction can report the wrong one of two same-named entries",
"C06":"created the output file through OpenOptions with mode 0600 and lost truncate(true)",
"C07":"generated the payload key in place inside a debug_assert-guarded fill, so optimised builds use an all-zero payload key",
"C08":"opened -o output without truncation so an older identity-bearing file's tail survives after the ciphertext",
"C09":"walked std::env::vars() to suggest a mis-cased KESTREL_KEYRING, which panics on any non-UTF-8 environment entry",
"C10":"wrote header and body through write_vectored and mishandled a short count that ends inside the first slice",
"C11":"pooled AEAD output buffers in a thread-local map keyed by exact length and never evicted them, so memory grows with the number of distinct read sizes",
"C12":"opened -o output without truncation (exit 0 although the path holds plaintext plus a stale tail)",
"C13":"added a partial-output warning on later-chunk failure that slices the output file name at a byte offset and panics (exit 101) on long multi-byte names",
"C14":"bounded the keyring read with take(1 MiB), so a keyring that grows past 1 MiB is parsed from a truncated copy",
"C15":"added a fast path in change-pass that returns the key unchanged when old == new password, skipping the unlock check",
"C16":"turned the confirm-password retry loop into recursion whose result is discarded, so after a mismatch the FIRST typed password is used (interactive terminal only)",
"C17":"compared raw key bytes (checksum dropped unchecked) when naming the sender, so an entry with a wrong checksum still names the sender",
"C18":"zero-filled the output buffer before reading the inputs, which breaks in-place calls where the output overlaps the password or salt",
"C19":"re-implemented HMAC-SHA256 with `key.len() < 64` instead of `<= 64`, so keys of exactly 64 bytes are hashed first",
"C20":"stored the key in an Arc and wiped only when Arc::get_mut succeeds, which two threads dropping the last two handles at once both skip",
}
for pid in d4:
    src=open(f'/tmp/seedprompts/{pid}-4.txt').read()
    src=src.replace('/tmp/seed4-','/tmp/seed5-')
    src+=f'''

A FOURTH engineer then produced this, also already known: they "{d4[pid]}". Your change must differ in kind from ALL FOUR earlier ones. In addition to everything listed above, assume the existing verification now also: types passwords and key names at a real pseudo-terminal (including retyped confirmations and retried unlocks); writes onto output paths that already hold longer or shorter content, with long, multi-byte and otherwise odd file names; uses keyrings from empty up to 16 MiB with near-twin names (case, prefix, Unicode composition), corrupted checksums in every role and duplicate entries; reads streams in thousands of distinct read sizes; uses sinks with native vectored writes and slow non-blocking pipes; sets unrelated non-UTF-8 environment variables; repeats library workloads in debug AND optimised builds; drops clones of keys from several threads at once (natively and under Miri's scheduler); and interrupts runs to leave stale files behind. Think about what is STILL outside that: e.g. rarely used sub-commands or option spellings and their combinations, a second documented behaviour of the same code path, resource exhaustion or limits (file descriptors, path length, permissions, read-only directories, symlink loops), values that are special only to one arithmetic step (carry, modulo bias, sign, endianness, saturating/wrapping), state that only matters on the SECOND use of an object, interaction with the process environment (cwd, umask, HOME, locale), or properties of the output other than its bytes (when it is flushed, file mode, which path is touched).
'''
    open(f'/tmp/seedprompts/{pid}-5.txt','w').write(src)
print('ok')
