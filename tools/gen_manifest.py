#!/usr/bin/env python3
"""Regenerates /verif/MANIFEST.json from the table below (kept next to the checks so the
two cannot drift). Run: python3 tools/gen_manifest.py"""
import json, os, subprocess
ROOT = os.path.dirname(os.path.dirname(os.path.abspath(__file__)))

# id -> (category, technique, level text, level note, design ref)
TB = 'Trusts OpenSSL 3.0 primitives, the RFC 7748 ladder and the executable specification in refspec.rs (self-tested at every start against RFC 8439/7748/5869/4231/7914 vectors, the Noise X vector and the repository fixtures; a failing self-test makes the run inconclusive). Held only on the executions listed in the evidence file.'
CHECKS = {
 "C01": ("exploration",
   "runtime monitoring: scripted Read/Write event log; round-trip + reference-decoder oracle over exhaustive small-scope read partitions and production-size schedules",
   "Every read partition of every plaintext up to a small bound runs through the real chunk loops (chunk size 1..4 via the verif-hooks wrappers) and is judged by round trip and by an independent OpenSSL-based decoder; key_encrypt/key_decrypt are driven at 64 KiB boundaries under short-read/short-write schedules with fresh, edge and implementation-generated keys. Exhaustive inside the small scope, sampled beyond it.",
   TB, "DESIGN.md 4 C01"),
 "C02": ("exploration",
   "runtime monitoring: password-mode round trips vs OpenSSL reference; wrong-password rejection monitor with HMAC-equivalence model",
   "As C01 with the password AAD, plus full pass_encrypt/pass_decrypt round trips over a password pool (empty, UTF-8, NUL, invalid UTF-8, 63/64/65/200 bytes) and a wrong-password family (every bit edit of short passwords, prefix/suffix/case/random) that must fail and write nothing. HMAC-equivalent passwords are a recorded known finding.",
   TB, "DESIGN.md 4 C02"),
 "C03": ("exploration",
   "runtime monitoring: acceptance-model oracle over structured edits of authentic files (exhaustive small scope, key/password files, 3x64KiB files)",
   "Every named edit operator instance on every body of <=5 chunks (chunk size <=3) and on key/password/production files is offered to the real decryptor; Ok is allowed only for bytes equal to an authentic file outside the advisory counter fields, with that file's plaintext and sender.",
   TB + " Assumes the AEAD/DH primitives are secure: the monitor sees rejection, not infeasibility.", "DESIGN.md 4 C03"),
 "C04": ("fault_enumeration",
   "runtime monitoring: offline checker over the interleaved read/write event log vs the reference's authenticated prefix; a fault at every read/write/flush call index",
   "Each decrypt execution's event log is replayed against the reference decoding of the presented bytes: every write must carry the next authenticated bytes of a chunk whose whole record was already read; the sink ends on a chunk boundary; Ok only with a verified final chunk at EOF. Stop points are enumerated: every call index x fault kind, for valid, truncated and edited files; plus the CLI's output file after corrupted inputs.",
   TB, "DESIGN.md 4 C04"),
 "C05": ("exploration",
   "runtime monitoring: key-mismatch matrix + independent forger (weakened-protocol family, low-order points) with accept/reject oracle; CLI supervisor",
   "Real key_encrypt over all (private used, public claimed, recipient) triples of four fresh key pairs, decrypted under the key matrix; forged handshakes built by an independent Noise writer without the claimed sender's private key (ss zero/reused/omitted/random, es dropped, recipient/prologue unbound, all low-order encodings as static and ephemeral); low-order recipients through the library and the CLI.",
   TB + " Cryptographic hardness is assumed.", "DESIGN.md 4 C05"),
 "C06": ("exploration",
   "runtime monitoring: byte-for-byte differential against an executable specification built on OpenSSL; golden files",
   "Encryptor output with injected randomness is re-encoded by the specification (using the chunking the encryptor chose) and compared byte for byte; specification-made files with arbitrary legal chunkings must decrypt; exported Noise functions and the Noise nonce over the whole u64 range vs the specification; golden files of the pinned tree and the repository fixtures keep decrypting.",
   TB + " 'Earlier 1.x releases' are represented only by the two fixtures in the repository.", "DESIGN.md 4 C06"),
 "C07": ("exploration",
   "runtime monitoring: history monitor (global uniqueness set over every random field of every output) + per-file nonce audit by the reference",
   "N identical invocations (library from 16 threads, and fresh CLI processes for encrypt / password encrypt / key generate / change-pass) feed every ephemeral key, payload key, file key, private key and salt into one set; any repeat (same or other class) and any degenerate byte position is a violation; per file the reference opens chunk i under nonce i.",
   "Uniqueness over N samples exposes only sources with about < 2*log2(N) bits of entropy; entropy quality beyond that is assumed of getrandom. " + TB, "DESIGN.md 4 C07"),
 "C08": ("exploration",
   "runtime monitoring: ciphertext content scanner + identity-swap pairs + length law with chunk count from the reference",
   "Every produced file is scanned for both public keys (raw, keyring blob, base64, hex, every 12-byte window) and for random keyring names; pairs that differ only in identities (same injected ephemeral/payload/plaintext/partition) must agree on all clear fields and on length; length = 132/36 + 32*chunks + |P|.",
   TB, "DESIGN.md 4 C08"),
 "C09": ("exploration",
   "runtime monitoring: crash supervisor (catch_unwind in journaling child processes, checked + release builds), reader call budgets, per-call allocator readings, CLI argv supervisor",
   "Every untrusted-input surface is offered prefixes of authentic inputs, all short strings over small alphabets, attacker-chosen length fields, mutations and random strings inside child processes that journal the input; each call is watched for panic, abort, unbounded reads and input-dependent allocation. The real binary is started with every argv up to a length bound over its vocabulary.",
   "A clean run is not absence of crashes on inputs not driven. Infinite Interrupted readers and the interactive tty path are outside the quantifier.", "DESIGN.md 4 C09"),
 "C10": ("fault_enumeration",
   "runtime monitoring: fault injection at every I/O call index with prefix and error-side oracle; real OS faults through the CLI",
   "For each (input, schedule) pair a fault-free run fixes the call counts and reference output; one run per fault point (every read/write/flush index x error kinds incl. Interrupted and Ok(0)); oracle: no panic, error of the failing side (or retried-and-complete for Interrupted), sink a prefix of the fault-free output. Exhaustive over read partitions at small scope; production size and /dev/full, closed pipes, directories through the CLI.",
   TB, "DESIGN.md 4 C10"),
 "C11": ("exploration",
   "runtime monitoring: counting global allocator (thread-scoped peak/largest block) + logical read/write lag monitor; max RSS of the real binary via time(1)",
   "Streams of 3..65600 chunks from a generator through the real encryptor and decryptor (two threads, fixed ring buffer): peak live heap and largest block must stay within one chunk of the 3-chunk reading, and each output chunk must be written before more than two further input chunks were consumed; same at chunk size 1 up to 10^6 chunks; the CLI's max RSS for 1 MiB vs 256 MiB/1 GiB inputs must be flat.",
   "Sizes above about 4 GiB are not driven. Harness allocations on measured threads are constant-size.", "DESIGN.md 4 C11"),
 "C12": ("exploration",
   "runtime monitoring: CLI supervisor over the wiring matrix with the reference decoder as oracle",
   "Each logical request runs under {file|stdin|dribbled stdin} x {-o|stdout file|stdout pipe} x {-k|env} x {short|long} x {command|alias}; exit 0 iff the reference says the operation completes (with the right bytes), exit 1 with Error: otherwise; the sender is named by the entry holding the authenticated key or reported unknown with its encoding; all wirings of a request must agree.",
   TB + " Passwords travel through --env-pass only.", "DESIGN.md 4 C12"),
 "C13": ("fault_enumeration",
   "runtime monitoring: output-path state monitor across the command x failure-cause x prior-state matrix",
   "For every command that writes an output file and every failure cause the statement lists, with the output path absent or holding known content: snapshot (existence, bytes, inode), run the real binary, compare; exit must be 1. Later-chunk failures must leave exactly the authenticated prefix.",
   "Causes are those enumerated in the evidence file; OS-level faults while writing are C10's.", "DESIGN.md 4 C13"),
 "C14": ("exploration",
   "runtime monitoring: keyring-file history monitor (prefix, parse by two parsers, every key usable)",
   "Histories of 1..6 key generate -o F from each initial state of F; after every step the old bytes must be a prefix of the new ones, the file must parse with the real parser and an independent tokenizer, and every key so far must unlock (reference) under its own password to the listed public key; finally the real binary encrypts/decrypts between generated names.",
   TB, "DESIGN.md 4 C14"),
 "C15": ("exploration",
   "runtime monitoring: lock/unlock differential vs the documented format on OpenSSL; all 672 single-bit flips; malformed-string model",
   "The CLI's real lock/unlock code (compiled from the working tree) against the specification: string-equal lock output, spec-made strings unlock to the original, every single-bit flip of a blob fails, wrong passwords fail (HMAC-equivalent family = known finding), strings of every other length/alphabet/padding fail; extract-pub through the real binary.",
   TB, "DESIGN.md 4 C15"),
 "C16": ("exploration",
   "runtime monitoring: CLI history monitor over change-pass / extract-pub sequences with reference unlock and secret-leak scanner",
   "Histories of key generate followed by 1..8 change-pass steps over a password pool, with extract-pub and encrypt/decrypt interleaved: the newest string must unlock (reference) to the original key under the newest password, earlier different passwords must fail, salts never repeat, extract-pub prints the reference encoding, and no output contains the raw private key.",
   TB, "DESIGN.md 4 C16"),
 "C17": ("exploration",
   "runtime monitoring: parser differential against a three-valued model over exhaustive token sequences; checksum rule differential",
   "Every sequence of up to L line tokens (8 spacing styles) is labelled must-accept / must-reject / either by construction and run through the real parser; on acceptance the entries must be the sections in order with unique names and keys; tool-written keyrings for every accepted name must parse back; every single-character corruption of an encoded key follows the checksum rule; random text never crashes the parser.",
   "Inputs labelled 'either' (duplicate field in a section, stray fields, junk, empty file) are only checked for the consequences of acceptance.", "DESIGN.md 4 C17"),
 "C18": ("exploration",
   "runtime monitoring + sanitizers: scrypt differential vs OpenSSL; C ABI under canaries (dlopen), valgrind memcheck, AddressSanitizer and Miri",
   "Library scrypt vs EVP_PBE_scrypt on a covering parameter grid; the cdylib built from the working tree called with canaried buffers; a C driver with exact-size heap buffers under valgrind and ASan; the extern C wrapper under Miri with exact-size allocations, dangling and NULL pointers for empty inputs; NULL inputs also against a debug-assertions build.",
   "Tuples with 128*N*r > 64 MiB are not driven. Red-zone tools miss non-adjacent overflows; Miri covers the wrapper byte-precisely but only for small N.", "DESIGN.md 4 C18"),
 "C19": ("exploration",
   "runtime monitoring: primitive differential vs OpenSSL / RFC 7748 ladder; tamper matrix; nonce layout over the whole u64 range",
   "AEAD on the full (|pt| 0..130) x (|aad| 0..40) grid for 3 keys; every bit of ciphertext, tag, nonce, key and aad flipped must fail, every truncation incl. shorter than a tag must be an error; X25519 on random, non-canonical and low-order inputs with symmetry and base-point checks; SHA-256, HMAC, HKDF over length grids; Noise nonce for counters across the u64 range.",
   TB, "DESIGN.md 4 C19"),
 "C20": ("exploration",
   "runtime monitoring + sanitizer: allocator drop-time inspection of watched blocks; drop_in_place slots; same program under Miri",
   "Every PrivateKey built through each constructor and dropped in every order (all permutations of 5, scope exit, mem::replace, struct field, Vec, unwinding) is inspected by the global allocator at dealloc time; PayloadKey is observed in a Box and in a slot dropped in place; a plain Vec is the positive control; Miri additionally checks zeroize's volatile writes.",
   "Register/stack copies made by the compiler are invisible to allocator- or Miri-level observation.", "DESIGN.md 4 C20"),
}


# lanes added after the first build (DESIGN.md sections 8 and 11): appended to the level text of each check
EXT = {
 "C01": "Also through the real binary: round trips onto fresh / longer existing output paths and pipes, self-addressed files, near-twin key names, special plaintext contents, every given/not-given combination of key_encrypt's optional arguments, an ambient decoy environment (KESTREL_KEYRING, KESTREL_NEW_PASSWORD, non-UTF-8 variables, stale sibling files) around every CLI run.",
 "C02": "Also through the real binary: near-miss, white-space-edged, very long (to 128 KiB) and non-UTF-8 environment passwords (refused or byte-exact), passwords typed at a pseudo-terminal, round trips onto existing longer output paths. The 36-byte header of reference-written files is read under every constant read size 1..=48, 'first n then everything' and mixed schedules.",
 "C03": "Also through the real binary in both modes: the acceptance model on files and on streams whose added bytes arrive late (stdin, /dev/stdin, a named pipe as FILE), rearrangements combined with counter rewrites, histories with an interrupted earlier run, special plaintext contents.",
 "C04": "Also through the real binary: every corrupted / truncated case onto an absent path, a longer existing file and a symbolic link to one; closed, slow non-blocking and no-controlling-terminal destinations.",
 "C05": "Also: the forger's substitutes for a refused Diffie-Hellman (zeros, empty string, other lengths, the point itself); through the binary: near-twin names, -k vs environment keyring, two entries with one name, keyrings of 3..1000 entries, decoy entries whose key text is a near twin of the sender's. Forged files for low-order keys use zeros, other lengths of zeros, the empty string, the point itself, an omitted step, and stale values (the previous token's output, public keys) for the refused Diffie-Hellman.",
 "C06": "Also: non-canonical public-key encodings (bit 255, u >= p), sinks of every granularity incl. natively vectored ones; through the binary: tool <-> specification in both directions with white-space-edged passwords, short-chunk files, extreme shapes (empty plaintext, one-byte records) into every sink, the repository fixtures onto existing paths.",
 "C07": "Also: 30 000-draw single-thread histories, draws of lengths that are not multiples of 32, release-profile child lane, same-password change-pass histories through the binary.",
 "C08": "Also: one-half-only ephemeral arguments, single-thread histories of many senders; through the binary: existing longer output paths holding identity material, no-controlling-terminal wiring (prompt text must not reach the file).",
 "C09": "Also through the real binary: structured argv with hostile path strings and symlink shapes (CPU-time hang verdict), non-UTF-8 environments, almost-well-formed key texts in every role, unusual process states (removed cwd, closed descriptors, descriptor / stack / memory / CPU limits, umask), raw key material of every length.",
 "C10": "Also: natively vectored sinks, the flush invariant (at Ok every accepted byte precedes a successful flush), files chunked by another conforming implementation; through the binary: /dev/full, closed pipes, OS short writes under a file-size limit. The public entry points are driven over every constant read size 1..=140 and 'first n then everything' for both modes and directions; the fault sweeps also run over streams that are not authentic (extended, cut), judged against the fault-free run of the same stream.",
 "C11": "Also: reads of thousands of distinct sizes, hostile tails after a complete / unterminated file (memory independent of what follows); through the binary: input offset while stdout is stalled (/proc fdinfo) and output while stdin trickles in (settled read(0) states) - state observations, no timing verdicts - and /dev/stdin as FILE.",
 "C12": "Also: files named like command words, FIFO / /dev/stdout / symlink wirings, closed and full sinks for every command, keyrings beyond 1 MiB, a damaged unrelated keyring entry at every position (refused before any output, or truthful). Stdin is also fed with a first piece of 1-5 bytes followed by pauses.",
 "C13": "Also: five prior states (absent, short, 400 kB, dangling symbolic link, link to a file) with a whole-directory snapshot (names, types, link targets, hashes, inodes, stale siblings), long / multi-byte output names, later-chunk failures far into 17 MiB files and in short-chunk files, generation under a file-size limit, 'may succeed' causes.",
 "C14": "Also: keyrings over 8 KiB and padded across 128 KiB / 1 MiB / 2 MiB, keyrings behind symbolic links, invalid names inside histories, near-twin names each used as sender and recipient, generations typed at a pseudo-terminal, write failures.",
 "C15": "Also through the real binary: white-space-edged, near-miss and very long passwords in every command that takes a locked key, keyring-based use under wrong passwords, blobs of other lengths that differ only by zero bytes, key generation with a stray KESTREL_NEW_PASSWORD, unlock retried at a pseudo-terminal.",
 "C16": "Also: an edge-password family (line terminators, blanks, control and Unicode look-alikes, quotes / escapes / variable references, 63-65 byte lengths) as new and as current password with look-alikes required to fail; non-UTF-8 new passwords; changes typed at a pseudo-terminal with retyped confirmations.",
 "C17": "Also: whole-section enumeration, boundary names of 1..4-byte characters, about 60 other spellings of one key, tool-written keyring files with stale siblings read back by an independent reader; through the binary: keyrings to 1.2 MiB (thorough 5 MiB) as files and through pipes (one piece and two pieces cut at a section boundary), corrupted checksums in every role, boundary names through key generate.",
 "C18": "Also: related-call sequences in one thread, through the library and through the C ABI; the in-process C ABI lanes run in a child process so that a call that takes the process down is a verdict.",
 "C19": "Also: inputs around every power of two up to 4 MiB (thorough 64 MiB), all-zero HKDF salts of every length and call orders in a fresh process, release-profile child lane.",
 "C20": "Also: overwrite paths (clone_from), whole-block scan for stale copies, PayloadKey at every address alignment, clones dropped by 2-4 threads at a barrier (native) and under Miri's scheduler over many seeds.",
}

def main():
    props = [json.loads(l) for l in open(os.path.join(ROOT, "properties.jsonl"))]
    hook_commits = subprocess.run(["git", "-C", "/repo", "log", "--format=%H", "--grep=verif-hooks"], capture_output=True, text=True).stdout.split()
    checks, na = [], []
    for p in props:
        pid = p["id"]
        if pid in CHECKS:
            cat, tech, text, note, ref = CHECKS[pid]
            checks.append({
                "property_id": pid,
                "quick_cmd": f"./check {pid} quick",
                "thorough_cmd": f"./check {pid} thorough",
                "evidence_file": f"/verif/evidence/{pid}.json",
                "replay_cmd_template": f"./check {pid} --replay {{path}}",
                "engine": "kmon",
                "level_claimed": {"category": cat, "text": text + " " + EXT.get(pid, ""), "design_ref": ref},
                "level_note": note,
                "technique": tech,
            })
        else:
            na.append({"property_id": pid, "reason": "no monitor registered"})
    m = {
        "version": 1,
        "setup_cmd": "./setup.sh",
        "hooks": {
            "guard": "cargo feature `verif-hooks` of kestrel-crypto (off by default)",
            "enable": "harness crate kmon depends on kestrel-crypto = { path = \"/repo/src/crypto\", features = [\"verif-hooks\"] }",
            "baseline_off_cmd": "cd /repo && cargo test --workspace --no-fail-fast --offline",
            "source_commits": hook_commits,
            "add_only": True,
        },
        "engines": [
            {"name": "kmon", "path": "/verif/harness/kmon", "serves_properties": sorted(CHECKS),
             "kind_free_text": "Rust monitor binary: scripted I/O event logs, OpenSSL-backed executable specification as oracle, process supervisor for the CLI, counting allocator, Miri/valgrind/ASan lanes"},
        ],
        "checks": checks,
        "not_applicable": na,
        "notes": "All checks rebuild kmon, the CLI and the C library from /repo's working tree on every invocation (path dependencies). Exit 2 = inconclusive (harness problem), never used for a property verdict.",
    }
    json.dump(m, open(os.path.join(ROOT, "MANIFEST.json"), "w"), indent=1)
    print("wrote MANIFEST.json:", len(checks), "checks,", len(na), "not_applicable")

main()
