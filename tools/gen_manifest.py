#!/usr/bin/env python3
"""Regenerates /verif/MANIFEST.json from the table below (kept next to the checks so the
two cannot drift). Run: python3 tools/gen_manifest.py"""
import json, os, subprocess
ROOT = os.path.dirname(os.path.dirname(os.path.abspath(__file__)))

# id -> (category, technique, level text, level note, design ref)
CHECKS = {
 "C01": ("exploration",
   "runtime monitoring: scripted Read/Write event log + round-trip and reference-decoder oracles over exhaustive small-scope read partitions and production-size schedules",
   "Every read partition of every plaintext up to a small bound is executed through the real chunk loops (chunk size 1..4 via the verif-hooks wrappers) and judged by round trip and by an independent OpenSSL-based decoder; the public key_encrypt/key_decrypt API is driven at 64 KiB boundaries under short-read/short-write schedules with fresh, edge and implementation-generated keys. Exhaustive inside the small scope, sampled beyond it.",
   "Trusts OpenSSL primitives and the reference decoder (self-tested against RFC 8439/7748/5869/7914, the Noise X vector and the repository fixtures at every start). Held on the executions listed in the evidence file only.",
   "DESIGN.md 4 C01"),
}

def main():
    props = [json.loads(l) for l in open(os.path.join(ROOT, "properties.jsonl"))]
    hook_commits = subprocess.run(["git", "-C", "/repo", "log", "--format=%H", "--grep=verif-hooks"], capture_output=True, text=True).stdout.split()
    checks, na = [], []
    for p in props:
        pid = p["id"]
        if pid in CHECKS:
            cat, tech, text, note, ref = CHECKS[pid]
            checks.append({
                "property_id": pid,
                "quick_cmd": f"./check {pid} quick",
                "thorough_cmd": f"./check {pid} thorough",
                "evidence_file": f"/verif/evidence/{pid}.json",
                "replay_cmd_template": f"./check {pid} --replay {{path}}",
                "engine": "kmon",
                "level_claimed": {"category": cat, "text": text, "design_ref": ref},
                "level_note": note,
                "technique": tech,
            })
        else:
            na.append({"property_id": pid, "reason": "monitor not built yet in this round (planned in DESIGN.md); not a claim that the technique cannot apply"})
    m = {
        "version": 1,
        "setup_cmd": "./setup.sh",
        "hooks": {
            "guard": "cargo feature `verif-hooks` of kestrel-crypto (off by default)",
            "enable": "harness crate kmon depends on kestrel-crypto = { path = \"/repo/src/crypto\", features = [\"verif-hooks\"] }",
            "baseline_off_cmd": "cd /repo && cargo test --workspace --no-fail-fast --offline",
            "source_commits": hook_commits,
            "add_only": True,
        },
        "engines": [
            {"name": "kmon", "path": "/verif/harness/kmon", "serves_properties": sorted(CHECKS),
             "kind_free_text": "Rust monitor binary: scripted I/O event logs, OpenSSL-backed executable specification as oracle, process supervisor for the CLI, counting allocator, Miri/valgrind/ASan lanes"},
        ],
        "checks": checks,
        "not_applicable": na,
        "notes": "All checks rebuild kmon, the CLI and the C library from /repo's working tree on every invocation (path dependencies). Exit 2 = inconclusive (harness problem), never used for a property verdict.",
    }
    json.dump(m, open(os.path.join(ROOT, "MANIFEST.json"), "w"), indent=1)
    print("wrote MANIFEST.json:", len(checks), "checks,", len(na), "not_applicable")

main()
