#!/bin/bash
# Runs registered check(s) against a patched copy of /repo without touching /repo or /verif:
# both are overlay-mounted in a private mount namespace (unshare -m); the patch is applied to
# the overlay; all build output, evidence and replays land in a scratch upper layer that is
# removed afterwards.
# usage: tools/mutant_run.sh <patch-file> <tier> <Cxx> [<Cxx> ...]
# VERIF_LOWER=<dir> uses a frozen copy of /verif as the lower layer (so that /verif can be edited while a long sweep runs).
# MUT_STOP_AT_FIRST=1 stops after the first check that reports a violation.
# prints one line per check:  <Cxx> DETECTED|MISSED|INCONCLUSIVE  <first signature>
PATCH="$(realpath "$1")"; TIER="$2"; shift 2
S=$(mktemp -d /tmp/kv-mut.XXXXXX)
mkdir -p $S/rup $S/rwork $S/vup $S/vwork
cp "$PATCH" $S/patch.diff
unshare -m bash -c "
  mount -t overlay overlay -o lowerdir=/repo,upperdir=$S/rup,workdir=$S/rwork /repo || exit 90
  mount -t overlay overlay -o lowerdir=${VERIF_LOWER:-/verif},upperdir=$S/vup,workdir=$S/vwork /verif || exit 91
  cd /repo && git apply $S/patch.diff || { echo 'PATCH DOES NOT APPLY'; exit 92; }
  cd /verif
  for c in $*; do
    out=\$(VERIF_SEED=\${VERIF_SEED:-1} ./check \$c $TIER 2>&1); rc=\$?
    sig=\$(echo \"\$out\" | grep -m1 'signature:' | sed 's/^ *signature: //')
    if [ \$rc -eq 1 ] && echo \"\$out\" | grep -q '^VIOLATION'; then echo \"\$c DETECTED \$sig\"; [ -n \"\${MUT_STOP_AT_FIRST:-}\" ] && break;
    elif [ \$rc -eq 0 ]; then echo \"\$c MISSED\";
    else echo \"\$c INCONCLUSIVE rc=\$rc \$(echo \"\$out\" | grep -m2 -E 'INCONCLUSIVE|error' | tr '\n' ' ' | cut -c1-300)\"; fi
  done
"
rc=$?
rm -rf $S
exit $rc
