#!/usr/bin/env python3
"""Reads work/selftest-<tier>.txt (output of selftest.sh) and records, per mutant / seeded change, which
registered checks detected it (mutants/mutants.json 'results', seeded/<name>/meta.json 'checks_run')."""
import json,sys,glob,os,re
tier=sys.argv[1] if len(sys.argv)>1 else 'quick'
res={}
for line in open(f'work/selftest-{tier}.txt'):
    if ' | ' not in line: continue
    name,rest=line.split(' | ',1)
    name=name.strip()
    r={}
    for part in rest.strip().split(';'):
        part=part.strip()
        m=re.match(r'(C\d+) (DETECTED|MISSED|INCONCLUSIVE)\s*(.*)',part)
        if m: r[m.group(1)]={"verdict":m.group(2),"signature":m.group(3)}
    if r: res[name]=r
mp='mutants/mutants.json'
mm=json.load(open(mp))
for e in mm:
    if e['name'] in res: e.setdefault('results',{})[tier]=res[e['name']]
json.dump(mm,open(mp,'w'),indent=1)
for meta in glob.glob('seeded/*/meta.json'):
    m=json.load(open(meta))
    if m['name'] in res:
        m.setdefault('checks_run',{})[tier]=res[m['name']]
        m['what_i_ran_against_it']=f"tools/mutant_run.sh seeded/{m['name']}/patch.diff {tier} <check ids> (patch applied to an overlay copy of /repo, registered ./check commands run, overlay discarded)"
        json.dump(m,open(meta,'w'),indent=1)
print(len(res),"entries recorded")
