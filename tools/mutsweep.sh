#!/bin/bash
# Stage 2 of the mutation sweep: every surviving candidate (compiles, passes the repository's tests) is applied
# to an overlay copy of /repo and the registered quick checks related to the mutated file are run until one
# reports a violation; candidates no related check reports are then tried against all remaining checks.
# usage: tools/mutsweep.sh <candidate-dir> <parallel>     -> <candidate-dir>/sweep.txt
CAND="$1"; P="${2:-3}"
cd "$(dirname "$0")/.."
related() {
  case "$1" in
    *crypto/src/encrypt.rs) echo C01 C06 C10 C02 C07 C08 C11 C05;;
    *crypto/src/decrypt.rs) echo C03 C04 C01 C10 C09 C02 C06 C11;;
    *crypto/src/noise.rs) echo C06 C05 C01 C03 C09 C08 C07 C20;;
    *crypto/src/lib.rs) echo C19 C06 C05 C20 C09 C01 C18 C07;;
    *crypto/src/scrypt.rs) echo C18 C02;;
    *cli/src/commands.rs) echo C12 C13 C14 C16 C01 C02 C04 C15 C07 C09;;
    *cli/src/keyring.rs) echo C17 C15 C05 C12 C09 C16 C14;;
    *cli/src/main.rs) echo C12 C09 C13;;
    *ffi/src/lib.rs) echo C18;;
  esac
}
export -f related
: > "$CAND/sweep.txt"
cat "$CAND/survivors.txt" | xargs -P $P -I{} bash -c '
  id={}; p='"$CAND"'/$id.patch
  f=$(grep -m1 "^+++ " $p | sed "s/^+++ b\///")
  rel=$(related $f)
  out=$(MUT_STOP_AT_FIRST=1 tools/mutant_run.sh $p quick $rel 2>&1 | tr "\n" ";")
  if ! echo "$out" | grep -q DETECTED; then
    rest=""; for c in C01 C02 C03 C04 C05 C06 C07 C08 C09 C10 C11 C12 C13 C14 C15 C16 C17 C18 C19 C20; do case " $rel " in *" $c "*) ;; *) rest="$rest $c";; esac; done
    out2=$(MUT_STOP_AT_FIRST=1 tools/mutant_run.sh $p quick $rest 2>&1 | tr "\n" ";")
    out="$out $out2"
  fi
  echo "$id | $out" >> '"$CAND"'/sweep.txt
'
echo "detected: $(grep -c DETECTED "$CAND/sweep.txt")  undetected: $(grep -vc DETECTED "$CAND/sweep.txt")"
