#!/bin/bash
# Stage 1 of the mutation sweep: keep the candidates of tools/mutgen.py that still compile and pass the
# repository's own tests (run in scratch worktrees of /repo under /tmp, removed afterwards).
# usage: tools/mutfilter.sh <candidate-dir> <workers>      -> <candidate-dir>/survivors.txt
CAND="$1"; W="${2:-8}"
ls "$CAND"/m*.patch | sort > "$CAND/all.txt"
rm -f "$CAND"/shard.* "$CAND"/result.*
split -n l/$W -d "$CAND/all.txt" "$CAND/shard."
for s in "$CAND"/shard.*; do
  k=${s##*.}
  (
    WT=/tmp/mutwt-$k
    git -C /repo worktree add -q --detach $WT HEAD || exit 1
    cd $WT
    # warm the build
    cargo test --workspace --offline --no-run >/dev/null 2>&1
    while read p; do
      id=$(basename $p .patch)
      git apply $p 2>/dev/null || { echo "$id noapply" >> "$CAND/result.$k"; continue; }
      case "$(grep -m1 '^+++ ' $p)" in
        *src/crypto/*) pk="-p kestrel-crypto";;
        *src/cli/*) pk="-p kestrel-cli";;
        *) pk="--workspace";;
      esac
      out=$(timeout 600 cargo test $pk --offline --no-fail-fast 2>&1); rc=$?
      if [ $rc -eq 0 ]; then echo "$id survive" >> "$CAND/result.$k";
      elif echo "$out" | grep -q "^error\|could not compile"; then echo "$id nocompile" >> "$CAND/result.$k";
      else echo "$id killed" >> "$CAND/result.$k"; fi
      git checkout -q -- .
    done < $s
    cd /; git -C /repo worktree remove --force $WT
  ) &
done
wait
cat "$CAND"/result.* | sort > "$CAND/results.txt"
grep survive "$CAND/results.txt" | cut -d' ' -f1 > "$CAND/survivors.txt"
echo "survivors: $(wc -l < "$CAND/survivors.txt") of $(wc -l < "$CAND/all.txt")"
