#!/usr/bin/env python3
"""Generates /verif/mutants/*.patch from textual edits applied to a scratch worktree of /repo
(/tmp/mutgen), keeping only mutants that compile and pass the repository's own tests.
Each mutant: (name, expected-to-be-caught-by, note, [(file, old, new), ...])."""
import json, os, subprocess, sys
WT = "/tmp/mutgen"
OUT = "/verif/mutants"
M = []
def m(name, expect, note, edits): M.append((name, expect, note, edits))

ENC = "src/crypto/src/encrypt.rs"; DEC = "src/crypto/src/decrypt.rs"; LIB = "src/crypto/src/lib.rs"
NOISE = "src/crypto/src/noise.rs"; CMD = "src/cli/src/commands.rs"; KR = "src/cli/src/keyring.rs"; MAIN = "src/cli/src/main.rs"; FFI = "src/ffi/src/lib.rs"

m("enc-short-first-read-is-eof", ["C01", "C10", "C12"], "a short first read is taken for end of input; a source that delivers more afterwards gets UnexpectedData",
  [(ENC, "    if prev_read == 0 {\n        done = true;\n    }", "    if prev_read < chunk_size {\n        done = true;\n    }")])
m("enc-write-instead-of-write-all", ["C01", "C10"], "chunk ciphertext written with write(): a sink that accepts fewer bytes silently loses the rest",
  [(ENC, "        ciphertext.write_all(ct.as_slice()).map_err(write_err)?;", "        ciphertext.write(ct.as_slice()).map_err(write_err)?;")])
m("enc-flush-error-ignored", ["C10"], "flush failure after a chunk is ignored",
  [(ENC, "        ciphertext.write_all(ct.as_slice()).map_err(write_err)?;\n        ciphertext.flush().map_err(write_err)?;", "        ciphertext.write_all(ct.as_slice()).map_err(write_err)?;\n        let _ = ciphertext.flush();")])
m("enc-read-error-is-eof", ["C10"], "a failing read inside the loop is treated as end of input",
  [(ENC, "        let num_read = plaintext.read(&mut buff).map_err(read_err)?;", "        let num_read = plaintext.read(&mut buff).unwrap_or(0);")])
m("dec-clean-eof-is-success", ["C03", "C04"], "end of input exactly at a chunk boundary is accepted as the end of the file (truncation at chunk boundaries goes unnoticed)",
  [(DEC, "        let mut chunk_header = [0u8; 16];\n        ciphertext.read_exact(&mut chunk_header).map_err(read_err)?;",
         "        let mut chunk_header = [0u8; 16];\n        let got = ciphertext.read(&mut chunk_header[..1]).map_err(read_err)?;\n        if got == 0 && chunk_number > 0 {\n            break;\n        }\n        ciphertext.read_exact(&mut chunk_header[1..]).map_err(read_err)?;")])
m("dec-no-trailing-data-probe", ["C03"], "the probe for data after the final chunk is gone",
  [(DEC, "            if check != 0 {", "            if check != 0 && false {")])
m("dec-nonce-from-counter-field", ["C03", "C06"], "the decryptor takes the nonce from the file's counter field instead of the chunk position (reordered / dropped chunks verify)",
  [(DEC, "        let pt_chunk = chapoly_decrypt_noise(&key, chunk_number, auth_data.as_slice(), ct)?;",
         "        let file_counter = u64::from_be_bytes(chunk_header[..8].try_into().unwrap());\n        let pt_chunk = chapoly_decrypt_noise(&key, file_counter, auth_data.as_slice(), ct)?;")])
m("dec-no-chunklen-bound", ["C09", "C03"], "the length field is no longer checked against the chunk size before it sizes a read",
  [(DEC, "        if ciphertext_length > chunk_size {\n            return Err(DecryptError::ChunkLen);\n        }", "")])
m("dec-alloc-from-length-field", ["C09"], "the read buffer is sized from the attacker-chosen length field before the bound check",
  [(DEC, "        if ciphertext_length > chunk_size {\n            return Err(DecryptError::ChunkLen);\n        }\n\n        let ct_len: usize = ciphertext_length.try_into().unwrap();",
         "        let ct_len: usize = ciphertext_length.try_into().unwrap();\n        let mut scratch = vec![0u8; ct_len + TAG_SIZE];\n        scratch[0] = 1;\n        if ciphertext_length > chunk_size {\n            return Err(DecryptError::ChunkLen);\n        }\n        drop(scratch);")])
m("dec-collect-then-write", ["C11", "C04"], "plaintext chunks are collected and written after the loop",
  [(DEC, "    let mut auth_data = vec![0u8; aad.len() + 8];\n\n    loop {\n        let mut chunk_header", "    let mut auth_data = vec![0u8; aad.len() + 8];\n    let mut pending: Vec<Vec<u8>> = Vec::new();\n\n    loop {\n        let mut chunk_header"),
   (DEC, "        plaintext\n            .write_all(pt_chunk.as_slice())\n            .map_err(write_err)?;\n        plaintext.flush().map_err(write_err)?;\n\n        if done {\n            break;\n        }",
         "        pending.push(pt_chunk);\n\n        if done {\n            for c in pending.iter() {\n                plaintext.write_all(c.as_slice()).map_err(write_err)?;\n            }\n            plaintext.flush().map_err(write_err)?;\n            break;\n        }")])
m("dec-flush-error-ignored", ["C10"], "flush failure on the plaintext side is ignored",
  [(DEC, "        plaintext.flush().map_err(write_err)?;", "        let _ = plaintext.flush();")])
m("x25519-zero-result-allowed", ["C05", "C19"], "an all-zero shared secret is returned instead of DhError",
  [(LIB, "    let shared_secret =\n        orion_x25519::key_agreement(&private_key, &public_key).map_err(|_| DhError)?;\n    let res = shared_secret.unprotected_as_bytes().to_vec();",
         "    let res = match orion_x25519::key_agreement(&private_key, &public_key) {\n        Ok(shared_secret) => shared_secret.unprotected_as_bytes().to_vec(),\n        Err(_) => vec![0u8; 32],\n    };")])
m("noise-nonce-u32", ["C06", "C19"], "the Noise nonce counter is truncated to 32 bits",
  [(LIB, "    let nonce_bytes = nonce.to_le_bytes();\n    let mut final_nonce_bytes = [0u8; 12];\n    final_nonce_bytes[4..].copy_from_slice(&nonce_bytes);\n\n    chapoly_encrypt_ietf(",
         "    let nonce_bytes = (nonce as u32 as u64).to_le_bytes();\n    let mut final_nonce_bytes = [0u8; 12];\n    final_nonce_bytes[4..].copy_from_slice(&nonce_bytes);\n\n    chapoly_encrypt_ietf("),
   (LIB, "    let nonce_bytes = nonce.to_le_bytes();\n    let mut final_nonce_bytes = [0u8; 12];\n    final_nonce_bytes[4..].copy_from_slice(&nonce_bytes);\n\n    chapoly_decrypt_ietf(",
         "    let nonce_bytes = (nonce as u32 as u64).to_le_bytes();\n    let mut final_nonce_bytes = [0u8; 12];\n    final_nonce_bytes[4..].copy_from_slice(&nonce_bytes);\n\n    chapoly_decrypt_ietf(")])
m("payload-key-cached-per-process", ["C07"], "the default payload key is generated once per process and reused",
  [(ENC, "        &PayloadKey::new(secure_random(32).as_slice())", "        &PayloadKey::new(cached_payload_seed().as_slice())"),
   (ENC, "fn read_err(err: std::io::Error) -> EncryptError {", "fn cached_payload_seed() -> Vec<u8> {\n    static SEED: std::sync::OnceLock<Vec<u8>> = std::sync::OnceLock::new();\n    SEED.get_or_init(|| secure_random(32)).clone()\n}\n\nfn read_err(err: std::io::Error) -> EncryptError {")])
m("password-truncated-to-64", ["C02", "C06"], "only the first 64 password bytes reach scrypt (both directions)",
  [(ENC, "    let key = scrypt(password, &salt, SCRYPT_N, SCRYPT_R, SCRYPT_P, 32);", "    let key = scrypt(&password[..password.len().min(64)], &salt, SCRYPT_N, SCRYPT_R, SCRYPT_P, 32);"),
   (DEC, "    let key = scrypt(password, &salt, SCRYPT_N, SCRYPT_R, SCRYPT_P, 32);", "    let key = scrypt(&password[..password.len().min(64)], &salt, SCRYPT_N, SCRYPT_R, SCRYPT_P, 32);")])
m("private-key-drop-zeroizes-a-copy", ["C20"], "Drop zeroizes a clone of the buffer, not the buffer",
  [(LIB, "impl Zeroize for PrivateKey {\n    fn zeroize(&mut self) {\n        self.key.as_mut_slice().zeroize();", "impl Zeroize for PrivateKey {\n    fn zeroize(&mut self) {\n        self.key.clone().as_mut_slice().zeroize();")])
m("payload-key-no-drop", ["C20"], "PayloadKey no longer erases itself on drop",
  [(LIB, "impl Drop for PayloadKey {\n    fn drop(&mut self) {\n        self.zeroize();\n    }\n}", "impl Drop for PayloadKey {\n    fn drop(&mut self) {}\n}")])
m("cli-eager-output-create", ["C13"], "the output file is created as soon as the output is opened",
  [(CMD, "    if let Some(p) = path {\n        Ok(Box::new(OnDemandFile::new(p)))", "    if let Some(p) = path {\n        let mut f = OnDemandFile::new(p);\n        f.ensure_created()?;\n        Ok(Box::new(f))")])
m("cli-sender-name-first-entry", ["C12"], "the sender is reported with the name of the first keyring entry",
  [(KR, "        for key in &self.keys {\n            if key.public_key.as_str() == pk.as_str() {\n                return Some(key.name.clone());\n            }\n        }\n        None",
        "        let _ = pk;\n        self.keys.first().map(|k| k.name.clone())")])
m("cli-usage-error-exit-0", ["C12", "C09"], "usage errors are printed but the exit status stays 0",
  [(MAIN, "fn print_usage_error(msg: &str) -> Result<(), anyhow::Error> {\n    Err(anyhow!(\"{}\\n{}\", msg, \"For more info use '--help'\"))", "fn print_usage_error(msg: &str) -> Result<(), anyhow::Error> {\n    eprintln!(\"Error: {}\\n{}\", msg, \"For more info use '--help'\");\n    Ok(())")])
m("cli-env-keyring-preferred", ["C12"], "KESTREL_KEYRING wins over -k when both are given... (only visible when both are set; here: -k ignored if env set)",
  [(CMD, "    let path = if let Some(loc) = keyring_loc {\n        PathBuf::from(loc)\n    } else {\n        match std::env::var(\"KESTREL_KEYRING\") {\n            Ok(loc) => PathBuf::from(loc),",
         "    let path = if let (Some(loc), Err(_)) = (keyring_loc.clone(), std::env::var(\"KESTREL_KEYRING\")) {\n        PathBuf::from(loc)\n    } else {\n        match std::env::var(\"KESTREL_KEYRING\") {\n            Ok(loc) => PathBuf::from(loc),")])
m("change-pass-reuses-salt", ["C07", "C16"], "change-pass keeps the old salt",
  [(CMD, "    let salt: [u8; 32] = kestrel_crypto::secure_random(32).try_into().unwrap();\n    let new_sk = Keyring::lock_private_key(&sk, new_pass.as_bytes(), salt);",
         "    let salt: [u8; 32] = old_sk.as_bytes()[4..36].try_into().unwrap();\n    let new_sk = Keyring::lock_private_key(&sk, new_pass.as_bytes(), salt);")])
m("change-pass-locks-with-old-password", ["C16"], "change-pass locks the key under the old password again",
  [(CMD, "    let new_sk = Keyring::lock_private_key(&sk, new_pass.as_bytes(), salt);", "    let _ = &new_pass;\n    let new_sk = Keyring::lock_private_key(&sk, old_pass.as_bytes(), salt);")])
m("keyring-no-duplicate-name-check", ["C17"], "duplicate names across sections are accepted",
  [(KR, "            if &k.name == key_name.unwrap() {", "            if &k.name == key_name.unwrap() && false {")])
m("keyring-no-duplicate-key-check", ["C17"], "duplicate public keys across sections are accepted",
  [(KR, "            if k.public_key.as_str() == key_public.unwrap().as_str() {", "            if k.public_key.as_str() == key_public.unwrap().as_str() && false {")])
m("keyring-name-length-in-chars", ["C17"], "the name limit counts characters, not bytes",
  [(KR, "        if name.is_empty() || name.len() > MAX_NAME_SIZE {", "        if name.is_empty() || name.chars().count() > MAX_NAME_SIZE {")])
m("keyring-checksum-not-compared", ["C17", "C05"], "the public key checksum is computed but a mismatch is not an error when the first byte matches",
  [(KR, "        if checksum != exp_checksum {", "        if checksum[0] != exp_checksum[0] {")])
m("keyring-last-section-not-validated", ["C17"], "the last section is pushed without the completeness check when it has a name",
  [(KR, "        if key_name.is_none() && key_public.is_some() {\n            return Err(KeyringError::ParseConfig(\"Key must have a Name\".into()));\n        } else if key_name.is_some() && key_public.is_none() {\n            return Err(KeyringError::ParseConfig(\n                \"Key must have a PublicKey\".into(),\n            ));\n        } else if",
        "        if key_name.is_none() && key_public.is_some() {\n            return Err(KeyringError::ParseConfig(\"Key must have a Name\".into()));\n        } else if key_name.is_some() && key_public.is_none() {\n            return Ok(());\n        } else if")])
m("locked-key-accepts-urlsafe", ["C15"], "locked key strings in the URL-safe alphabet are accepted as well",
  [(KR, "impl TryFrom<&str> for EncodedSk {\n    type Error = &'static str;\n\n    // Decode a base64 encoded private key to make sure that it is the\n    // right amount of bytes\n    fn try_from(s: &str) -> Result<Self, Self::Error> {\n        match Base64::decode_to_vec(s, None) {",
        "impl TryFrom<&str> for EncodedSk {\n    type Error = &'static str;\n\n    // Decode a base64 encoded private key to make sure that it is the\n    // right amount of bytes\n    fn try_from(s: &str) -> Result<Self, Self::Error> {\n        let s = &s.replace('-', \"+\").replace('_', \"/\");\n        match Base64::decode_to_vec(s, None) {"),
   (KR, "        Ok(EncodedSk(s.into()))", "        Ok(EncodedSk(s.to_string()))")])
m("ffi-r-p-swapped", ["C18"], "the C wrapper passes p and r in the wrong order",
  [(FFI, "    let dk = ktl_scrypt(kpass, ksalt, n, r, p, kderived_key.len());", "    let dk = ktl_scrypt(kpass, ksalt, n, p, r, kderived_key.len());")])
m("ffi-copies-32-bytes-min", ["C18"], "the C wrapper derives at least 32 bytes and copies them all",
  [(FFI, "    let dk = ktl_scrypt(kpass, ksalt, n, r, p, kderived_key.len());\n\n    kderived_key.copy_from_slice(dk.as_slice());",
         "    let want = kderived_key.len().max(32);\n    let dk = ktl_scrypt(kpass, ksalt, n, r, p, want);\n\n    std::ptr::copy_nonoverlapping(dk.as_ptr(), derived_key, want);")])
m("scrypt-r-parameter-u8", ["C18"], "the library wrapper narrows r to 8 bits",
  [(LIB, "    scrypt::scrypt(password, salt, n as usize, r as usize, p as usize, dk_len)", "    scrypt::scrypt(password, salt, n as usize, (r as u8).max(1) as usize, p as usize, dk_len)")])
m("hkdf-info-ignored-when-long", ["C19"], "HKDF info longer than 255 bytes is ignored",
  [(LIB, "    hkdf::derive_key(salt, ikm, Some(info), okm.as_mut_slice()).unwrap();", "    let info = if info.len() > 255 { &info[..0] } else { info };\n    hkdf::derive_key(salt, ikm, Some(info), okm.as_mut_slice()).unwrap();")])
m("gen-key-truncates-again", ["C14"], "regression of the fixed C14 defect: key generate writes through the truncating output again",
  [(CMD, "        Some(p) if Path::new(p).exists() => {\n            Box::new(std::fs::OpenOptions::new().append(true).open(p)?)\n        }", "        Some(p) if Path::new(p).exists() && false => {\n            Box::new(std::fs::OpenOptions::new().append(true).open(p)?)\n        }")])
m("cli-decrypt-pubkey-plain-base64", ["C12"], "an unknown sender is reported as the base64 of the raw 32-byte key, without checksum",
  [(CMD, "            eprintln!(\"Unknown key: {}\", encoded_public.as_str());", "            eprintln!(\"Unknown key: {}\", &encoded_public.as_str()[..43]);")])
m("noise-ss-not-mixed", ["C05", "C06"], "the ss token is skipped on both sides (sender authentication gone, symmetric so round trips still work)",
  [(NOISE, "                Token::SS => {\n                    let s = self.s.as_ref().unwrap();\n                    let rs = self.rs.as_ref().unwrap();\n                    let shared_secret = s.private_key.diffie_hellman(rs)?;\n                    let shared_secret = Zeroizing::new(shared_secret);\n                    self.symmetric_state.mix_key(shared_secret.as_ref());\n                }\n            }\n        }\n\n        let enc_payload",
           "                Token::SS => {\n                    let s = self.s.as_ref().unwrap();\n                    let rs = self.rs.as_ref().unwrap();\n                    let _shared_secret = Zeroizing::new(s.private_key.diffie_hellman(rs)?);\n                }\n            }\n        }\n\n        let enc_payload"),
   (NOISE, "                Token::SS => {\n                    let s = self.s.as_ref().unwrap();\n                    let rs = self.rs.as_ref().unwrap();\n                    let shared_secret = s.private_key.diffie_hellman(rs)?;\n                    let shared_secret = Zeroizing::new(shared_secret);\n                    self.symmetric_state.mix_key(shared_secret.as_ref());\n                }\n            }\n        }\n\n        let dec_payload_buffer",
           "                Token::SS => {\n                    let s = self.s.as_ref().unwrap();\n                    let rs = self.rs.as_ref().unwrap();\n                    let _shared_secret = Zeroizing::new(s.private_key.diffie_hellman(rs)?);\n                }\n            }\n        }\n\n        let dec_payload_buffer")])

def sh(cmd, cwd=WT):
    return subprocess.run(cmd, shell=True, cwd=cwd, capture_output=True, text=True)

def main():
    only = sys.argv[1:] 
    index = []
    if os.path.exists(f"{OUT}/mutants.json"):
        index = json.load(open(f"{OUT}/mutants.json"))
    byname = {e["name"]: e for e in index}
    for name, expect, note, edits in M:
        if only and name not in only: continue
        if not only and name in byname: continue
        sh("git checkout -q -- . && git clean -fdq -e target")
        ok = True
        for f, old, new in edits:
            p = os.path.join(WT, f); s = open(p).read()
            if s.count(old) != 1:
                print(f"{name}: anchor not found exactly once in {f} ({s.count(old)})"); ok = False; break
            open(p, "w").write(s.replace(old, new))
        if not ok: continue
        b = sh("cargo build --workspace --offline 2>&1 | tail -15")
        if "error" in b.stdout:
            print(f"{name}: does not compile\n{b.stdout[-800:]}"); continue
        t = sh("cargo test --workspace --no-fail-fast --offline 2>&1 | grep -E '^test result|FAILED|failed'")
        passed = sum(int(l.split()[3]) for l in t.stdout.splitlines() if l.startswith("test result"))
        if "FAILED" in t.stdout or passed != 33:
            print(f"{name}: existing tests notice it ({passed} passed): dropped\n" + "\n".join(l for l in t.stdout.splitlines() if 'FAILED' in l or 'failed' in l)[:500]); continue
        d = sh("git diff")
        open(f"{OUT}/{name}.patch", "w").write(d.stdout)
        byname[name] = {"name": name, "patch": f"mutants/{name}.patch", "expect": expect, "note": note, "compiles": True, "existing_tests_pass": True}
        print(f"{name}: kept (33 tests pass)")
    sh("git checkout -q -- .")
    json.dump(sorted(byname.values(), key=lambda e: e["name"]), open(f"{OUT}/mutants.json", "w"), indent=1)

main()
