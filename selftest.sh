#!/bin/bash
# Validates the monitors themselves (not a registered check): every mutant in mutants/mutants.json
# and every seeded change in seeded/*/ is applied to an overlay copy of /repo (tools/mutant_run.sh)
# and the registered quick command of each property it is expected to break must report VIOLATION.
# usage: ./selftest.sh [quick|thorough] [name-filter]     (runs 4 at a time)
cd "$(dirname "$0")"
TIER="${1:-quick}"; FILTER="${2:-}"
python3 - "$FILTER" > /tmp/selftest.$$.list <<'PY'
import json,glob,sys,os
flt=sys.argv[1]
for m in json.load(open('mutants/mutants.json')):
    if flt in m['name']: print(m['name'], m['patch'], ' '.join(m['expect']))
for meta in sorted(glob.glob('seeded/*/meta.json')):
    m=json.load(open(meta)); d=os.path.dirname(meta)
    if flt in m['name'] and not m.get('out_of_scope_reason'): print(m['name'], d+'/patch.diff', ' '.join(m.get('expect_checks',[m['breaks_property']])))
PY
mkdir -p work
cat /tmp/selftest.$$.list | xargs -P 4 -L 1 bash -c 'name=$0; patch=$1; shift; out=$(tools/mutant_run.sh $patch '"$TIER"' "$@" 2>&1 | tr "\n" ";"); echo "$name | $out"' | tee work/selftest-$TIER.txt
rm -f /tmp/selftest.$$.list
echo "--- summary"
grep -c "DETECTED" work/selftest-$TIER.txt | sed 's/^/lines with a detection: /'
grep -E "MISSED|INCONCLUSIVE|DOES NOT APPLY" work/selftest-$TIER.txt | sed 's/^/ATTENTION: /'
