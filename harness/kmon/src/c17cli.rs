//! C17 - lanes that drive the real binary only (no in-process use of the CLI's keyring module).

use crate::cli::{Cmd, Exit, Stdin, WorkDir};
use crate::ctx::Ctx;
use crate::refspec;
use crate::util::Rng;
use serde_json::json;

/// Names around and beyond the length limit built from 1..4-byte characters with every small ASCII
/// prefix (so that every byte offset up to the limit falls inside a multi-byte character in some case).
pub fn boundary_names() -> Vec<String> {
    let mut v = Vec::new();
    for ch in ["\u{e9}", "\u{20ac}", "\u{4e2d}", "\u{1f511}", "x"] {
        let w = ch.len();
        for prefix in 0..=4usize {
            for target in [120usize, 126, 127, 128, 129, 130, 131, 132, 160, 200, 300, 1000] {
                let n = (target.saturating_sub(prefix) + w - 1) / w;
                v.push(format!("{}{}", "a".repeat(prefix), ch.repeat(n)));
            }
        }
    }
    v
}


/// Keyrings beyond 64 KiB read by the real binary: the last entries count like the first ones.
fn cli_large_keyrings(ctx: &Ctx) {
    let mut rng = Rng::fork(ctx.seed, "C17-large");
    let wd = WorkDir::new("c17l");
    let alice = crate::cli::Ident::new("alice", "apw", &mut rng);
    let last = crate::cli::Ident::new("zz-last-entry", "zpw", &mut rng);
    let sizes: Vec<(&str, usize)> = ctx.tier.pick(vec![("about 80 KiB", 900usize), ("about 200 KiB", 2300), ("about 1.2 MiB", 13_500)], vec![("about 80 KiB", 900usize), ("about 200 KiB", 2300), ("about 1.2 MiB", 13_500), ("about 5 MiB", 56_000)]);
    for (what, contacts) in sizes {
        let mut text = alice.entry(true);
        for i in 0..contacts {
            text.push_str(&format!("\n[Key]\nName = contact-{:05}\nPublicKey = {}\n", i, refspec::encode_pk(&refspec::pubkey_of(&rng.arr32()))));
        }
        let ok_text = format!("{}\n{}", text, last.entry(true));
        wd.write("big.txt", ok_text.as_bytes());
        wd.write("m.txt", b"to the last entry");
        let o = Cmd::new(&wd.path, &["encrypt", "m.txt", "-t", &last.name, "-f", "alice", "-k", "big.txt", "--env-pass"]).pass("apw").run();
        ctx.eval();
        let good = o.exit == Exit::Code(0) && matches!(refspec::decode_key_file(&o.stdout, &last.sk, &last.pk), Ok(d) if d.body.complete() && d.sender == alice.pk);
        if good {
            ctx.seen("cli: entry at the end of a large keyring is found and used");
            ctx.distinct(&format!("large|ok|{}", what));
        } else {
            ctx.violation("C17:cli:entry-at-the-end-of-a-large-keyring-not-usable", json!({"keyring_bytes": ok_text.len(), "exit": o.exit.describe(), "stderr": o.stderr_s()}));
        }
        // the in-process parser on the same text (the tool must agree with it)
        ctx.eval();
        if !matches!(in_process_finds(&ok_text, &last.name), Ok(Ok(true))) {
            ctx.violation("C17:rejected-a-well-formed-keyring", json!({"keyring_bytes": ok_text.len()}));
        }
        // a duplicate name hidden at the very end must still be refused
        let dup_text = format!("{}\n[Key]\nName = alice\nPublicKey = {}\n", ok_text, refspec::encode_pk(&refspec::pubkey_of(&rng.arr32())));
        wd.write("dup.txt", dup_text.as_bytes());
        let o = Cmd::new(&wd.path, &["encrypt", "m.txt", "-t", "contact-00001", "-f", "alice", "-k", "dup.txt", "--env-pass"]).pass("apw").run();
        ctx.eval();
        if o.exit == Exit::Code(1) && o.has_error_line() {
            ctx.seen("cli: duplicate name at the end of a large keyring is refused");
            ctx.distinct(&format!("large|dup|{}", what));
        } else {
            ctx.violation("C17:cli:accepted-a-keyring-that-must-be-rejected:duplicate name at the end of a large file", json!({"keyring_bytes": dup_text.len(), "exit": o.exit.describe(), "stderr": o.stderr_s()}));
        }
        // the same two keyrings DELIVERED otherwise: through the path /dev/stdin (a pipe) and through a named pipe -
        // sources whose length is not known in advance; the keyring is what arrives, all of it
        // ... in one piece, and in two pieces with a pause between them, cut exactly at a section boundary (the needed
        // entry, or the duplicate, arrives only with the second piece)
        let cut_ok = text.len() + 1;
        let cut_dup = ok_text.len() + 1;
        for (delivery, text, must_work, cut) in [
            ("-k /dev/stdin", &ok_text, true, 0usize), ("-k /dev/stdin", &dup_text, false, 0), ("-k named pipe", &ok_text, true, 0), ("-k named pipe", &dup_text, false, 0),
            ("-k /dev/stdin, two pieces", &ok_text, true, cut_ok), ("-k /dev/stdin, two pieces", &dup_text, false, cut_dup), ("-k named pipe, two pieces", &ok_text, true, cut_ok), ("-k named pipe, two pieces", &dup_text, false, cut_dup),
        ] {
            if cut > 0 && what != "about 80 KiB" {
                continue;
            }
            let target = if must_work { last.name.as_str() } else { "contact-00001" };
            let fifo = wd.file("kr.fifo");
            let _ = std::fs::remove_file(&fifo);
            let mut feeder: Option<std::thread::JoinHandle<()>> = None;
            let o = if delivery.starts_with("-k /dev/stdin") {
                let feed = if cut > 0 { Stdin::Dribble(text.clone().into_bytes(), vec![cut, 0, 0, text.len() - cut]) } else { Stdin::Bytes(text.clone().into_bytes()) };
                Cmd::new(&wd.path, &["encrypt", "m.txt", "-t", target, "-f", "alice", "-k", "/dev/stdin", "--env-pass"]).pass("apw").stdin(feed).run()
            } else {
                let c = std::ffi::CString::new(fifo.to_string_lossy().as_bytes()).unwrap();
                if unsafe { libc::mkfifo(c.as_ptr(), 0o600) } != 0 {
                    continue;
                }
                let (bytes, fp) = (text.clone().into_bytes(), fifo.clone());
                feeder = Some(std::thread::spawn(move || {
                    use std::io::Write;
                    use std::os::unix::fs::OpenOptionsExt;
                    use std::os::unix::io::AsRawFd;
                    for _ in 0..600 {
                        match std::fs::OpenOptions::new().write(true).custom_flags(libc::O_NONBLOCK).open(&fp) {
                            Ok(mut h) => {
                                unsafe {
                                    let fl = libc::fcntl(h.as_raw_fd(), libc::F_GETFL);
                                    libc::fcntl(h.as_raw_fd(), libc::F_SETFL, fl & !libc::O_NONBLOCK);
                                }
                                if cut > 0 {
                                    let _ = h.write_all(&bytes[..cut]);
                                    let _ = h.flush();
                                    std::thread::sleep(std::time::Duration::from_millis(900));
                                    let _ = h.write_all(&bytes[cut..]);
                                } else {
                                    let _ = h.write_all(&bytes);
                                }
                                return;
                            }
                            Err(_) => std::thread::sleep(std::time::Duration::from_millis(10)),
                        }
                    }
                }));
                Cmd::new(&wd.path, &["encrypt", "m.txt", "-t", target, "-f", "alice", "-k", "kr.fifo", "--env-pass"]).pass("apw").run()
            };
            if let Some(h) = feeder {
                let _ = h.join();
            }
            ctx.eval();
            let case = || json!({"delivery": delivery, "keyring_bytes": text.len(), "keyring": if must_work { "well-formed, the needed entry is the last one" } else { "duplicate name at the very end" }, "exit": o.exit.describe(), "stderr": o.stderr_s()});
            if o.exit == Exit::Timeout {
                ctx.inconclusive("C17 cli: timeout");
            } else if must_work {
                let good = o.exit == Exit::Code(0) && matches!(refspec::decode_key_file(&o.stdout, &last.sk, &last.pk), Ok(d) if d.body.complete() && d.sender == alice.pk);
                if good {
                    ctx.seen("cli: large keyring delivered through a pipe: the last entry is found and used");
                    ctx.distinct(&format!("large|pipe-ok|{}|{}", what, delivery));
                } else {
                    ctx.violation("C17:cli:entry-at-the-end-of-a-large-keyring-not-usable:delivered-through-a-pipe", case());
                }
            } else if o.exit == Exit::Code(1) && o.has_error_line() {
                ctx.seen("cli: large keyring delivered through a pipe: duplicate name at the end is refused");
                ctx.distinct(&format!("large|pipe-dup|{}|{}", what, delivery));
            } else {
                ctx.violation("C17:cli:accepted-a-keyring-that-must-be-rejected:duplicate name at the end of a large keyring delivered through a pipe", case());
            }
        }
    }
}

/// Names at the 128-BYTE boundary (1..4-byte characters behind short ASCII prefixes) offered to `key generate -o F`
/// on a keyring that already holds a key: either the name is refused and F is untouched, or F - as written by the
/// tool - still parses, holds exactly the earlier entry plus the new name, and the earlier key still works.
fn cli_boundary_names_through_generate(ctx: &Ctx) {
    let mut rng = Rng::fork(ctx.seed, "C17-cli-boundary");
    let wd = WorkDir::new("c17b");
    let first = crate::cli::Ident::new("first", "fpw", &mut rng);
    let names: Vec<String> = boundary_names().into_iter().filter(|n| n.len() >= 120 && n.len() <= 200).collect();
    let step = ctx.tier.pick(4, 1);
    let names: Vec<String> = names.into_iter().enumerate().filter(|(i, _)| (i + ctx.seed as usize) % step == 0).map(|(_, n)| n).collect();
    let wdp = &wd;
    let first = &first;
    crate::util::par_for(names.len(), crate::util::ncpu(), |i| {
        let name = &names[i];
        let f = format!("ring-{}.txt", i);
        let initial = first.entry(true);
        wdp.write(&f, initial.as_bytes());
        let o = Cmd::new(&wdp.path, &["key", "generate", "-o", &f, "--env-pass"]).pass("gpw").stdin(Stdin::Bytes(format!("{}\n", name).into_bytes())).run();
        ctx.eval();
        let after = std::fs::read(wdp.file(&f)).unwrap_or_default();
        let case = |more: serde_json::Value| json!({"name_bytes": name.len(), "name_chars": name.chars().count(), "name": name, "generate_exit": o.exit.describe(), "generate_stderr": o.stderr_s(), "more": more});
        match &o.exit {
            Exit::Timeout => ctx.inconclusive("C17 cli: timeout"),
            Exit::Code(1) if after == initial.as_bytes() => {
                if name.len() <= 128 {
                    ctx.violation("C17:cli:key-generate-refuses-a-name-the-format-can-hold", case(json!(null)));
                } else {
                    ctx.seen("cli: boundary name beyond 128 bytes refused by key generate, keyring untouched");
                    ctx.distinct(&format!("bname|refused|{}", i));
                }
            }
            Exit::Code(0) => {
                // the file the tool wrote must parse (the tool itself is the judge: use the earlier key) and hold the two names
                wdp.write(&format!("m{}.txt", i), b"x");
                let e = Cmd::new(&wdp.path, &["encrypt", &format!("m{}.txt", i), "-t", name, "-f", "first", "-k", &f, "--env-pass"]).pass("fpw").run();
                ctx.eval();
                let text = String::from_utf8_lossy(&after).into_owned();
                let secs = crate::c14::ref_parse(&text);
                let new_pk = secs.iter().find(|s| s.0.as_deref() == Some(name.as_str())).and_then(|s| s.1.clone()).and_then(|p| refspec::decode_pk(&p));
                let new_sk = secs.iter().find(|s| s.0.as_deref() == Some(name.as_str())).and_then(|s| s.2.clone()).and_then(|l| refspec::unlock_sk(&l, b"gpw").ok());
                let good = e.exit == Exit::Code(0) && secs.len() == 2 && match (new_pk, new_sk) {
                    (Some(pk), Some(sk)) => refspec::pubkey_of(&sk) == pk && refspec::decode_key_file(&e.stdout, &sk, &pk).map(|d| d.body.complete() && d.sender == first.pk).unwrap_or(false),
                    _ => false,
                };
                if good {
                    ctx.seen("cli: boundary name accepted by key generate parses back and selects its own key");
                    ctx.distinct(&format!("bname|ok|{}", i));
                } else {
                    ctx.violation("C17:tool-written-keyring-does-not-parse-back-to-the-written-name:boundary-name", case(json!({"sections_in_file": secs.len(), "use_exit": e.exit.describe(), "use_stderr": e.stderr_s()})));
                }
            }
            _ => ctx.violation("C17:cli:key-generate-abnormal-or-altered-the-keyring-while-refusing", case(json!({"file_len_after": after.len(), "file_len_before": initial.len()}))),
        }
    });
}


#[cfg(feature = "kr")]
fn in_process_finds(text: &str, name: &str) -> Result<Result<bool, String>, String> {
    crate::kio::guarded(|| crate::keyring::Keyring::new(text).map(|k| k.get_key(name).is_some()).map_err(|e| e.to_string()))
}
#[cfg(not(feature = "kr"))]
fn in_process_finds(_text: &str, _name: &str) -> Result<Result<bool, String>, String> {
    Ok(Ok(true))
}

/// Keyrings with a repeated name or a repeated public key must be refused by the tool itself, whichever
/// entry the command happens to use; names the tool wrote must select exactly their own key.
fn cli_duplicates_and_names(ctx: &Ctx) {
    use crate::cli::Ident;
    let mut rng = Rng::fork(ctx.seed, "C17-cli-dups");
    let wd = WorkDir::new("c17d");
    let alice = Ident::new("alice", "apw", &mut rng);
    let bob = Ident::new("bob", "bpw", &mut rng);
    let mallory_as_alice = Ident::new("alice", "mpw", &mut rng);
    let carol = Ident::new("carol", "cpw", &mut rng);
    // a file mallory made with HER key for bob
    let forged = refspec::encode_key_file(&mallory_as_alice.sk, &mallory_as_alice.pk, &bob.pk, &rng.arr32(), &rng.arr32(), b"hi", &[2]).unwrap();
    wd.write("m.ktl", &forged);
    wd.write("p.txt", b"x");
    let mut bob_twin = carol.clone();
    bob_twin.pk = bob.pk;
    bob_twin.encoded_pk = bob.encoded_pk.clone();
    let rings: Vec<(&str, String)> = vec![
        ("two entries named alice with different keys (the duplicate is not the entry used)", crate::cli::keyring_text(&[(&alice, true), (&bob, true), (&mallory_as_alice, false)])),
        ("two entries named alice, duplicate first", crate::cli::keyring_text(&[(&mallory_as_alice, false), (&bob, true), (&alice, true)])),
        ("two names for one public key", crate::cli::keyring_text(&[(&alice, true), (&bob, true), (&bob_twin, false)])),
    ];
    for (what, text) in rings {
        wd.write("dup.txt", text.as_bytes());
        let d = Cmd::new(&wd.path, &["decrypt", "m.ktl", "-t", "bob", "-k", "dup.txt", "--env-pass"]).pass("bpw").run();
        let e = Cmd::new(&wd.path, &["encrypt", "p.txt", "-t", "bob", "-f", "alice", "-k", "dup.txt", "--env-pass"]).pass("apw").run();
        ctx.eval();
        let case = || json!({"keyring": what, "decrypt_exit": d.exit.describe(), "decrypt_stderr": d.stderr_s(), "encrypt_exit": e.exit.describe(), "encrypt_stderr": e.stderr_s()});
        if d.exit == Exit::Code(1) && e.exit == Exit::Code(1) {
            ctx.seen("cli: keyring with a repeated name or key is refused");
            ctx.distinct(&format!("clidup|{}", what));
        } else {
            ctx.violation("C17:cli:accepted-a-keyring-that-must-be-rejected:duplicate name or key (through the binary)", case());
        }
    }
    // names written by `key generate` select exactly their own key when used with -t
    let names = ["plain", "Two Words = and # more", "tab\tinside", "\u{e9}\u{2713}", "Plain"];
    let mut ring = String::new();
    let mut keys: Vec<(String, [u8; 32], [u8; 32])> = Vec::new();
    for (i, n) in names.iter().enumerate() {
        let o = Cmd::new(&wd.path, &["key", "generate", "--env-pass"]).pass("gpw").stdin(Stdin::Bytes(format!("{}\n", n).into_bytes())).run();
        let text = o.stdout_s();
        let l = text.lines().find_map(|l| l.strip_prefix("PrivateKey = ")).unwrap_or("").trim().to_string();
        if o.exit != Exit::Code(0) {
            ctx.violation("C17:cli:key-generate-failed", json!({"name": n, "exit": o.exit.describe(), "stderr": o.stderr_s()}));
            return;
        }
        match refspec::unlock_sk(&l, b"gpw") {
            Ok(sk) => keys.push((n.to_string(), sk, refspec::pubkey_of(&sk))),
            Err(_) => {
                ctx.violation("C17:cli:generated-key-not-openable-by-reference", json!({"name": n}));
                return;
            }
        }
        if i > 0 {
            ring.push('\n');
        }
        ring.push_str(&text);
    }
    // the same names again, this time the tool writes (and extends) the keyring FILE itself: the file's sections
    // must be exactly the names written, in order, each with a key that opens under its password
    {
        let mut written: Vec<String> = Vec::new();
        for n in names.iter() {
            let o = Cmd::new(&wd.path, &["key", "generate", "-o", "tool-made.txt", "--env-pass"]).pass("gpw").stdin(Stdin::Bytes(format!("{}\n", n).into_bytes())).run();
            ctx.eval();
            written.push(n.to_string());
            let text = String::from_utf8_lossy(&std::fs::read(wd.file("tool-made.txt")).unwrap_or_default()).into_owned();
            // independent reading of the file: section headers and the three fields of each
            let mut secs: Vec<(String, String, String)> = Vec::new();
            let mut junk = false;
            for line in text.lines() {
                let t = line.trim();
                if t == "[Key]" {
                    secs.push((String::new(), String::new(), String::new()));
                } else if let Some((k, v)) = line.split_once('=') {
                    let v = v.trim().to_string();
                    match (k.trim(), secs.last_mut()) {
                        ("Name", Some(s)) => s.0 = v,
                        ("PublicKey", Some(s)) => s.1 = v,
                        ("PrivateKey", Some(s)) => s.2 = v,
                        _ => junk = true,
                    }
                } else if !t.is_empty() && !t.starts_with('#') {
                    junk = true;
                }
            }
            let names_ok = secs.iter().map(|s| s.0.clone()).collect::<Vec<_>>() == written.iter().map(|w| w.trim().to_string()).collect::<Vec<_>>();
            let keys_ok = secs.iter().all(|s| matches!(refspec::unlock_sk(&s.2, b"gpw"), Ok(sk) if Some(refspec::pubkey_of(&sk)) == refspec::decode_pk(&s.1)));
            if o.exit == Exit::Timeout {
                ctx.inconclusive("C17 cli: timeout");
                break;
            }
            if o.exit != Exit::Code(0) || junk || !names_ok || !keys_ok {
                ctx.violation("C17:cli:keyring-file-written-by-the-tool-is-not-exactly-the-entries-written", json!({"names_written_so_far": written, "sections_found": secs.iter().map(|s| s.0.clone()).collect::<Vec<_>>(), "stray_lines": junk, "every_key_opens": keys_ok, "exit": o.exit.describe(), "stderr": o.stderr_s(), "file_len": text.len()}));
                break;
            }
            ctx.seen("cli: keyring file written and extended by the tool holds exactly the entries written");
            ctx.distinct(&format!("toolmade|{}", written.len()));
        }
    }
    ring.push('\n');
    ring.push_str(&alice.entry(true));
    wd.write("gen.txt", ring.as_bytes());
    for (n, sk, pk) in &keys {
        let o = Cmd::new(&wd.path, &["encrypt", "p.txt", "-t", n, "-f", "alice", "-k", "gen.txt", "--env-pass"]).pass("apw").run();
        ctx.eval();
        let right = refspec::decode_key_file(&o.stdout, sk, pk).map(|d| d.body.complete()).unwrap_or(false);
        if o.exit == Exit::Code(0) && right {
            ctx.seen("cli: a name written by key generate selects exactly its own key");
            ctx.distinct(&format!("cliname|{}", n));
        } else {
            let kind = if n.contains('\t') { "name-with-interior-tab" } else { "other-name" };
            ctx.violation(&format!("C17:tool-written-keyring-does-not-parse-back-to-the-written-name:{}", kind), json!({"name": n, "via": "kestrel key generate + encrypt -t NAME", "exit": o.exit.describe(), "stderr": o.stderr_s()}));
        }
    }
}

/// An encoded public key whose 4-byte checksum does not match must not be usable in ANY role through the
/// real binary: not as recipient, not as sender, and not to put a name on the sender of a file.
fn cli_checksum_in_every_role(ctx: &Ctx) {
    let mut rng = Rng::fork(ctx.seed, "C17-cli-checksum");
    let n = ctx.tier.pick(6, 48);
    for i in 0..n {
        let wd = WorkDir::new("c17k");
        let alice = crate::cli::Ident::new("alice", "apw", &mut rng);
        let bob = crate::cli::Ident::new("bob", "bpw", &mut rng);
        let pt = rng.bytes(100);
        let file = refspec::encode_key_file(&alice.sk, &alice.pk, &bob.pk, &rng.arr32(), &rng.arr32(), &pt, &[100]).unwrap();
        wd.write("c.ktl", &file);
        wd.write("p.bin", &pt);
        // corrupt alice's encoding: the 36-byte blob with one checksum byte changed (canonical base64 again),
        // or one of the last characters of the text replaced by another alphabet character
        let mut blob = crate::util::unb64(&alice.encoded_pk).unwrap();
        let bad_pk = if i % 2 == 0 {
            blob[32 + i / 2 % 4] ^= 1 << (i % 8);
            crate::util::b64(&blob)
        } else {
            let mut t: Vec<u8> = alice.encoded_pk.clone().into_bytes();
            let at = 43 + (i / 2) % 5;
            t[at] = if t[at] == b'A' { b'B' } else { b'A' };
            String::from_utf8(t).unwrap()
        };
        if crate::util::unb64(&bad_pk).map(|b| b.len() == 36 && refspec::decode_pk(&bad_pk).is_none() && b[..32] == alice.pk).unwrap_or(false) == false {
            // the edit did not produce "same key bytes, other checksum" (e.g. it fell on padding bits): skip
            continue;
        }
        let kr = format!("{}\n[Key]\nName = alice\nPublicKey = {}\nPrivateKey = {}\n", bob.entry(true), bad_pk, alice.locked);
        wd.write("kr.txt", kr.as_bytes());
        let case = |what: &str, o: &crate::cli::Output| json!({"role": what, "corrupted_public_key": bad_pk, "correct_public_key": alice.encoded_pk, "exit": o.exit.describe(), "stderr": o.stderr_s()});
        // naming the sender
        let o = Cmd::new(&wd.path, &["decrypt", "c.ktl", "-t", "bob", "-k", "kr.txt", "--env-pass"]).pass("bpw").run();
        ctx.eval();
        if o.exit == Exit::Timeout {
            ctx.inconclusive("C17 cli: timeout");
            continue;
        }
        if o.stderr_s().contains("File from: alice") || (o.exit == Exit::Code(0) && !o.stderr_s().to_lowercase().contains("unknown")) {
            ctx.violation("C17:cli:sender-named-through-an-entry-whose-checksum-does-not-match", case("naming the sender of a decrypted file", &o));
            continue;
        }
        // as recipient and as sender
        let e1 = Cmd::new(&wd.path, &["encrypt", "p.bin", "-t", "alice", "-f", "bob", "-o", "e1.ktl", "-k", "kr.txt", "--env-pass"]).pass("bpw").run();
        let e2 = Cmd::new(&wd.path, &["encrypt", "p.bin", "-t", "bob", "-f", "alice", "-o", "e2.ktl", "-k", "kr.txt", "--env-pass"]).pass("apw").run();
        ctx.eval();
        if e1.exit == Exit::Code(0) || wd.file("e1.ktl").exists() {
            ctx.violation("C17:cli:encrypted-to-a-key-whose-checksum-does-not-match", case("recipient", &e1));
            continue;
        }
        if e2.exit == Exit::Code(0) || wd.file("e2.ktl").exists() {
            ctx.violation("C17:cli:signed-as-a-key-whose-checksum-does-not-match", case("sender", &e2));
            continue;
        }
        ctx.seen("cli: entry with a non-matching checksum is unusable as recipient, as sender and for naming a sender");
        ctx.distinct(&format!("cli-checksum|{}|{}", i, bad_pk));
    }
}


/// Other SPELLINGS of one encoded public key: characters inserted into, put around or substituted in the 48-character
/// text such that a lenient decoder could still arrive at the same 36 bytes (blanks, tabs, padding, URL-safe
/// alphabet, line-wrapping artefacts, invisible characters, quotes).
pub fn key_spellings(k: &str, rng: &mut Rng) -> Vec<(String, String)> {
    let mut v: Vec<(String, String)> = Vec::new();
    let ins = |at: usize, what: &str| format!("{}{}{}", &k[..at], what, &k[at..]);
    for (name, ch) in [("a blank", " "), ("two blanks", "  "), ("a tab", "\t"), ("a no-break space", "\u{a0}"), ("a zero-width space", "\u{200b}"), ("a carriage return", "\r"), ("a hyphen", "-"), ("a dot", "."), ("an equals sign", "="), ("a backslash-newline artefact", "\\")] {
        for at in [1usize, 4, 24, 47] {
            v.push((format!("{} inserted at {}", name, at), ins(at, ch)));
        }
        let at = 1 + rng.below(46) as usize;
        v.push((format!("{} inserted at {}", name, at), ins(at, ch)));
    }
    v.push(("a blank after every fourth character".into(), k.as_bytes().chunks(4).map(|c| std::str::from_utf8(c).unwrap()).collect::<Vec<_>>().join(" ")));
    v.push(("padding appended".into(), format!("{}=", k)));
    v.push(("full padding appended".into(), format!("{}====", k)));
    v.push(("double quotes around".into(), format!("\"{}\"", k)));
    v.push(("single quotes around".into(), format!("'{}'", k)));
    v.push(("trailing semicolon".into(), format!("{};", k)));
    v.push(("trailing comment".into(), format!("{} # alice", k)));
    if k.contains('+') || k.contains('/') {
        v.push(("URL-safe alphabet".into(), k.replace('+', "-").replace('/', "_")));
    }
    v.retain(|(_, s)| s != k);
    v
}

/// The same public key listed twice in different spellings must not be accepted as two entries; and an entry the
/// tool is willing to USE as a recipient must also be the answer when that key is looked up (naming a sender).
fn cli_key_spellings(ctx: &Ctx) {
    use crate::cli::Ident;
    let mut rng = Rng::fork(ctx.seed, "C17-cli-spellings");
    let wd = WorkDir::new("c17s");
    let rounds = ctx.tier.pick(1, 6);
    for round in 0..rounds {
        // prefer a key whose text contains '+' or '/' so that the URL-safe variant exists
        let mut alice = Ident::new("alice", "apw", &mut rng);
        for _ in 0..20 {
            if alice.encoded_pk.contains('+') || alice.encoded_pk.contains('/') {
                break;
            }
            alice = Ident::new("alice", "apw", &mut rng);
        }
        let bob = Ident::new("bob", "bpw", &mut rng);
        wd.write("p.txt", b"spelled");
        let from_alice = refspec::encode_key_file(&alice.sk, &alice.pk, &bob.pk, &rng.arr32(), &rng.arr32(), b"hello", &[5]).unwrap();
        wd.write("a.ktl", &from_alice);
        let spellings = key_spellings(&alice.encoded_pk, &mut rng);
        let wdp = &wd;
        let (alice, bob) = (&alice, &bob);
        crate::util::par_for(spellings.len(), crate::util::ncpu(), |i| {
            let (what, text) = &spellings[i];
            let mallory = format!("[Key]\nName = mallory\nPublicKey = {}\n", text);
            for (layout, kr) in [("with the canonical entry", format!("{}\n{}\n{}", alice.entry(true), bob.entry(true), mallory)), ("alone", format!("{}\n{}", bob.entry(true), mallory))] {
                let krname = format!("kr-{}-{}.txt", i, layout.len());
                let outname = format!("o-{}-{}.ktl", i, layout.len());
                wdp.write(&krname, kr.as_bytes());
                let e = Cmd::new(&wdp.path, &["encrypt", "p.txt", "-t", "mallory", "-f", "bob", "-o", &outname, "-k", &krname, "--env-pass"]).pass("bpw").run();
                ctx.eval();
                let produced = std::fs::read(wdp.file(&outname)).unwrap_or_default();
                let is_alices_key = e.exit == Exit::Code(0) && refspec::decode_key_file(&produced, &alice.sk, &alice.pk).map(|d| d.body.complete()).unwrap_or(false);
                let case = |more: serde_json::Value| json!({"spelling": what, "public_key_text": text, "canonical_text": alice.encoded_pk, "layout": layout, "encrypt_exit": e.exit.describe(), "encrypt_stderr": e.stderr_s(), "more": more});
                if e.exit == Exit::Timeout {
                    ctx.inconclusive("C17 cli: timeout");
                    continue;
                }
                if !matches!(e.exit, Exit::Code(0) | Exit::Code(1)) {
                    ctx.violation(&format!("C17:cli:parser-or-key-decoder-crash:{}", e.exit.describe().replace(' ', "-")), case(json!(null)));
                    continue;
                }
                if !is_alices_key {
                    // refused, unusable, or read as some other key: no second spelling of alice's key was accepted
                    ctx.seen("cli: other spelling of a public key is not accepted as that key");
                    ctx.distinct(&format!("spelling|{}|{}|{}", round, i, layout));
                    continue;
                }
                if layout == "with the canonical entry" {
                    ctx.violation("C17:cli:accepted-a-keyring-that-must-be-rejected:same public key listed twice in different spellings", case(json!(null)));
                    continue;
                }
                // alone: the tool uses this entry as alice's key; then it is the entry that holds the sender key of a.ktl
                let d = Cmd::new(&wdp.path, &["decrypt", "a.ktl", "-t", "bob", "-k", &krname, "--env-pass"]).pass("bpw").run();
                ctx.eval();
                let named: Option<String> = d.stderr_s().lines().find_map(|l| l.split("File from: ").nth(1)).map(|x| x.trim().to_string());
                if d.exit == Exit::Code(0) && named.as_deref() == Some("mallory") {
                    ctx.seen("cli: leniently spelled key is used and found consistently");
                    ctx.distinct(&format!("spelling|lenient|{}|{}", round, i));
                } else {
                    ctx.violation("C17:cli:entry-usable-as-a-recipient-is-not-found-by-its-public-key", case(json!({"decrypt_exit": d.exit.describe(), "decrypt_stderr": d.stderr_s()})));
                }
            }
        });
    }
}

pub fn cli_lanes(ctx: &Ctx) {
    cli_key_spellings(ctx);
    cli_boundary_names_through_generate(ctx);
    cli_large_keyrings(ctx);
    cli_duplicates_and_names(ctx);
    cli_checksum_in_every_role(ctx);
    ctx.require("cli: entry with a non-matching checksum is unusable", 3);
    ctx.require("cli: large keyring delivered through a pipe: the last entry is found and used", 4);
    ctx.require("cli: large keyring delivered through a pipe: duplicate name at the end is refused", 4);
    ctx.require("cli: boundary name", 20);
    ctx.require("cli: other spelling of a public key is not accepted as that key", 50);
    ctx.require("cli: keyring file written and extended by the tool holds exactly the entries written", 5);
    ctx.require("cli: keyring with a repeated name or key is refused", 3);
    ctx.require("cli: a name written by key generate selects exactly its own key", 4);
}

/// Fallback when keyring.rs cannot be compiled into the monitor.
#[allow(dead_code)]
pub fn run_cli_only(ctx: &Ctx) {
    ctx.rule("CLI lanes only (large keyrings, duplicate names/keys and tool-written names through the real binary): the exhaustive in-process token/section enumeration, checksum differential and text fuzzing were SKIPPED because /repo/src/cli/src/keyring.rs no longer compiles into the monitor");
    ctx.inconclusive("keyring.rs does not compile into the monitor (its internal API changed): in-process lanes of C17 skipped, CLI lanes only");
    cli_lanes(ctx);
}
