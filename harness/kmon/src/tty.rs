//! Interactive runs of the real binary on a pseudo-terminal: the child gets a new session whose
//! controlling terminal is the pty slave (`setsid -c`), stdin and stderr are the slave, stdout is a pipe
//! (or the slave too). Password prompts the tool writes to /dev/tty and everything it prints on stderr
//! arrive on the master; the driver answers each prompt only after it has appeared (expect, then send),
//! and records the transcript with the answers it gave. The prompt texts are not hard-wired: a prompt
//! is "the terminal went quiet and the last line so far ends with ': '".

use crate::cli::{Cmd, Exit};
use std::io::Read;
use std::process::{Command, Stdio};
use std::time::{Duration, Instant};

pub struct TtyRun {
    pub exit: Exit,
    pub stdout: Vec<u8>,
    /// everything that appeared on the terminal (prompts, echo, stderr), CR removed
    pub transcript: String,
    /// (prompt text, answer sent)
    pub answered: Vec<(String, String)>,
    /// the driver could not go on (e.g. the answer function had no answer for a prompt)
    pub stuck: Option<String>,
}

impl TtyRun {
    pub fn describe(&self) -> String {
        format!("{} | answered {:?} | transcript {:?}{}", self.exit.describe(), self.answered, self.transcript, self.stuck.as_ref().map(|s| format!(" | stuck: {}", s)).unwrap_or_default())
    }
}

#[derive(Clone, Copy, Debug, PartialEq)]
pub enum Ask {
    Name,
    Confirm,
    New,
    /// old password / unlock / decryption password
    Current,
}

pub fn classify(prompt: &str) -> Ask {
    let p = prompt.to_lowercase();
    if p.contains("confirm") {
        Ask::Confirm
    } else if p.contains("name") {
        Ask::Name
    } else if p.contains("new") || p.contains("use password") {
        Ask::New
    } else {
        Ask::Current
    }
}

fn open_pty() -> Option<(i32, std::fs::File)> {
    unsafe {
        let m = libc::posix_openpt(libc::O_RDWR | libc::O_NOCTTY | libc::O_CLOEXEC);
        if m < 0 || libc::grantpt(m) != 0 || libc::unlockpt(m) != 0 {
            return None;
        }
        let mut name = [0 as libc::c_char; 128];
        if libc::ptsname_r(m, name.as_mut_ptr(), name.len()) != 0 {
            libc::close(m);
            return None;
        }
        let s = libc::open(name.as_ptr(), libc::O_RDWR | libc::O_NOCTTY | libc::O_CLOEXEC);
        if s < 0 {
            libc::close(m);
            return None;
        }
        use std::os::unix::io::FromRawFd;
        Some((m, std::fs::File::from_raw_fd(s)))
    }
}

/// `answer(prompt, kind, how many prompts were answered before)` returns the line to type (without the
/// newline) or None if the scenario has no answer left (the run is then killed and marked stuck).
pub fn run_tty(cmd: &Cmd, stdout_is_tty: bool, stdin_file: Option<&std::path::Path>, answer: &mut dyn FnMut(&str, Ask, usize) -> Option<String>) -> TtyRun {
    run_tty_cfg(cmd, &TtyCfg { stdout_is_tty, controlling: true, stderr_is_pipe: false, blind_lines: vec![] }, stdin_file, answer)
}

/// Variants of the terminal wiring. `controlling: false` = stdin is a terminal but the process has NO
/// controlling terminal (started by a session-creating launcher), so /dev/tty cannot be opened and the tool
/// falls back to reading the password from stdin. `stderr_is_pipe` captures stderr separately (returned at
/// the end of `transcript` after a marker line). `blind_lines` are typed at once without waiting for
/// prompts (needed when the prompts do not arrive on the terminal).
pub struct TtyCfg {
    pub stdout_is_tty: bool,
    pub controlling: bool,
    pub stderr_is_pipe: bool,
    pub blind_lines: Vec<String>,
}

pub const STDERR_MARK: &str = "\n-----stderr-----\n";

pub fn run_tty_cfg(cmd: &Cmd, cfg: &TtyCfg, stdin_file: Option<&std::path::Path>, answer: &mut dyn FnMut(&str, Ask, usize) -> Option<String>) -> TtyRun {
    let stdout_is_tty = cfg.stdout_is_tty;
    let start = Instant::now();
    let fail = |why: &str| TtyRun { exit: Exit::Code(-1), stdout: vec![], transcript: String::new(), answered: vec![], stuck: Some(why.to_string()) };
    let (master, slave) = match open_pty() {
        Some(x) => x,
        None => return fail("kmon: no pseudo-terminal available"),
    };
    let mut c = Command::new("/usr/bin/setsid");
    if cfg.controlling {
        c.arg("-c");
    }
    c.arg("-w");
    if let Some(f) = stdin_file {
        // the terminal stays the controlling terminal; stdin is then redirected to the file
        c.arg("/bin/sh").arg("-c").arg("exec \"$@\" < \"$KMON_STDIN\"").arg("sh");
        c.env_clear();
        c.env("KMON_STDIN", f);
    } else {
        c.env_clear();
    }
    c.arg(&cmd.bin);
    c.args(&cmd.args);
    for (k, v) in &cmd.env {
        c.env(k, v);
    }
    c.current_dir(&cmd.cwd);
    let dup = |f: &std::fs::File| f.try_clone().map(Stdio::from);
    match (dup(&slave), dup(&slave)) {
        (Ok(a), Ok(b)) => {
            c.stdin(a);
            if cfg.stderr_is_pipe {
                c.stderr(Stdio::piped());
            } else {
                c.stderr(b);
            }
        }
        _ => return fail("kmon: dup of the pty slave failed"),
    }
    if stdout_is_tty {
        match dup(&slave) {
            Ok(a) => {
                c.stdout(a);
            }
            Err(_) => return fail("kmon: dup of the pty slave failed"),
        }
    } else {
        c.stdout(Stdio::piped());
    }
    let mut child = match c.spawn() {
        Ok(ch) => ch,
        Err(e) => {
            unsafe { libc::close(master) };
            return fail(&format!("kmon: spawn failed: {}", e));
        }
    };
    drop(c);
    drop(slave);
    let pid = child.id() as i32;
    let stdout_h = child.stdout.take();
    let stderr_h = child.stderr.take();
    let err_t = std::thread::spawn(move || {
        let mut v = Vec::new();
        if let Some(mut h) = stderr_h {
            let _ = h.read_to_end(&mut v);
        }
        v
    });
    for l in &cfg.blind_lines {
        let mut line = l.clone().into_bytes();
        line.push(b'\n');
        unsafe { libc::write(master, line.as_ptr() as *const libc::c_void, line.len()) };
    }
    let out_t = std::thread::spawn(move || {
        let mut v = Vec::new();
        if let Some(mut h) = stdout_h {
            let _ = h.read_to_end(&mut v);
        }
        v
    });
    let mut raw: Vec<u8> = Vec::new();
    let mut answered: Vec<(String, String)> = Vec::new();
    let mut answered_upto = 0usize; // transcript length at the time of the last answer
    let mut stuck = None;
    let mut exit = Exit::Timeout;
    let mut status: i32 = 0;
    let mut quiet_since = Instant::now();
    let mut exited = false;
    let mut buf = [0u8; 4096];
    loop {
        let mut pfd = libc::pollfd { fd: master, events: libc::POLLIN, revents: 0 };
        let r = unsafe { libc::poll(&mut pfd, 1, 5) };
        let mut eof = false;
        if r > 0 {
            let n = unsafe { libc::read(master, buf.as_mut_ptr() as *mut libc::c_void, buf.len()) };
            if n > 0 {
                raw.extend_from_slice(&buf[..n as usize]);
                quiet_since = Instant::now();
            } else {
                eof = true;
            }
        }
        if !exited {
            let w = unsafe { libc::wait4(pid, &mut status, libc::WNOHANG, std::ptr::null_mut()) };
            if w == pid {
                exited = true;
                exit = if libc::WIFEXITED(status) {
                    Exit::Code(libc::WEXITSTATUS(status))
                } else if libc::WIFSIGNALED(status) {
                    Exit::Signal(libc::WTERMSIG(status))
                } else {
                    Exit::Code(-2)
                };
            }
        }
        if exited && (eof || quiet_since.elapsed() > Duration::from_millis(60)) {
            break;
        }
        if !exited && quiet_since.elapsed() > Duration::from_millis(25) && raw.len() > answered_upto {
            let text = String::from_utf8_lossy(&raw[answered_upto..]).replace('\r', "");
            let tail = text.rsplit('\n').next().unwrap_or("");
            if tail.ends_with(": ") {
                let kind = classify(tail);
                match answer(tail, kind, answered.len()) {
                    Some(a) => {
                        let mut line = a.clone().into_bytes();
                        line.push(b'\n');
                        let wr = unsafe { libc::write(master, line.as_ptr() as *const libc::c_void, line.len()) };
                        if wr != line.len() as isize {
                            stuck = Some("kmon: short write to the pty master".to_string());
                        }
                        answered.push((tail.to_string(), a));
                        answered_upto = raw.len();
                        quiet_since = Instant::now();
                    }
                    None => stuck = Some(format!("no answer scripted for prompt {:?}", tail)),
                }
            }
        }
        if stuck.is_some() || start.elapsed() > cmd.timeout {
            if !exited {
                unsafe {
                    libc::kill(-pid, libc::SIGKILL);
                    libc::kill(pid, libc::SIGKILL);
                    libc::wait4(pid, &mut status, 0, std::ptr::null_mut());
                }
                exit = Exit::Timeout;
            }
            break;
        }
    }
    std::mem::forget(child);
    unsafe { libc::close(master) };
    let stdout = out_t.join().unwrap_or_default();
    let stderr = err_t.join().unwrap_or_default();
    let mut transcript = String::from_utf8_lossy(&raw).replace('\r', "");
    if cfg.stderr_is_pipe {
        transcript.push_str(STDERR_MARK);
        transcript.push_str(&String::from_utf8_lossy(&stderr));
    }
    TtyRun { exit, stdout, transcript, answered, stuck }
}
