//! C06 - files conform byte-for-byte to the documented, frozen wire format.

use crate::c01::fresh_keys;
use crate::ctx::{verif_root, Ctx};
use crate::ioscript::{GenReader, Sched};
use crate::kio::*;
use crate::refspec::{self, PASS_MAGIC};
use crate::streams::sig_class;
use crate::util::{compositions, hex, hex_short, par_for, unhex, unhex32, Rng};
use kestrel_crypto::{verif_chapoly_decrypt_noise, verif_chapoly_encrypt_noise};
use serde_json::{json, Value};

/// Random legal chunking of `len` bytes with chunk sizes in 1..=max (the last may be smaller).
fn random_chunking(len: usize, max: usize, rng: &mut Rng, style: usize) -> Vec<usize> {
    if len == 0 {
        return vec![0];
    }
    let mut v = Vec::new();
    let mut left = len;
    while left > 0 {
        let n = match style % 4 {
            0 => max,
            1 => rng.range(1, max),
            2 => *rng.pick(&[1usize, 2, max, max - 1, 17]),
            _ => {
                if rng.chance(1, 3) {
                    max
                } else {
                    rng.range(1, 64)
                }
            }
        }
        .clamp(1, max)
        .min(left);
        v.push(n);
        left -= n;
    }
    v
}

fn nonce_counters(rng: &mut Rng, extra: usize) -> Vec<u64> {
    let mut v = vec![0u64, 1, 2, 255, 256, 65535, 65536, 65537, (1 << 32) - 1, 1 << 32, (1 << 32) + 1, 1 << 63, u64::MAX - 1, 0x0102030405060708];
    for b in 0..64 {
        v.push(1u64 << b);
    }
    for _ in 0..extra {
        v.push(rng.next().min(u64::MAX - 1));
    }
    v
}

fn encryptor_differential(ctx: &Ctx) {
    // production-size tuples
    let n = ctx.tier.pick(60, 3000);
    par_for(n, crate::util::ncpu(), |i| {
        let mut rng = Rng::fork(ctx.seed, &format!("C06-enc-{}", i));
        let len = match i % 6 {
            0 => *rng.pick(&[0usize, 1, 65535, 65536, 65537, 131072, 196608]),
            1 => rng.range(0, 300),
            _ => rng.range(0, 260_000),
        };
        let pt = rng.bytes(len);
        let rs = match i % 5 {
            0 => Sched::all(),
            1 => Sched::fixed(rng.range(1, 65536).max(if len > 5000 { 512 } else { 1 })),
            2 => Sched::random(&mut rng, 40, 65536),
            3 => Sched::list(vec![65536, 1, 65535, 2], 65536),
            _ => Sched::random(&mut rng, 200, if len > 20000 { 9000 } else { 9 }),
        };
        // the SINK varies too: generous, one byte at a time, fewer than a chunk header (16) per call, fixed segments that
        // chunk headers straddle, tiny random pieces; natively vectored (write_vectored with short counts) every other case
        let ws = match i % 7 {
            0 | 1 => Sched::random(&mut rng, 8, 70000),
            2 => Sched::fixed(1),
            3 => Sched::fixed(rng.range(2, 15)),
            4 => Sched::fixed(*rng.pick(&[16usize, 17, 40, 140, 4096, 65708])),
            5 => Sched::random(&mut rng, 64, 40),
            _ => Sched::list(vec![4, 32, 15, 1, 16, 7, 65536, 3], 33),
        };
        let mut io = Io::new(rs, ws);
        io.vectored = i % 2 == 1;
        ctx.eval();
        if i % 3 != 0 {
            let k = fresh_keys(&mut rng);
            let (e, pl) = (rng.arr32(), rng.arr32());
            let case = || json!({"mode": "key", "len": len, "plaintext": hex_short(&pt, 48), "sender_private": hex(&k.s_priv), "recipient_private": hex(&k.r_priv), "ephemeral_private": hex(&e), "payload_key": hex(&pl), "io": io.describe()});
            let run = key_encrypt_run(&pt, &io, &KeyEnc { s_priv: &k.s_priv, s_pub: &k.s_pub, r_pub: &k.r_pub, e_priv: Some(e), payload: Some(pl) });
            if !run.outcome.is_ok() {
                ctx.violation(&format!("C06:encrypt-failed:{}", sig_class(&run.outcome)), case());
                return;
            }
            let chunking: Vec<usize> = match refspec::decode_key_file(&run.out, &k.r_priv, &k.r_pub) {
                Ok(d) if d.body.complete() && d.body.plaintext() == pt => d.body.chunks.iter().map(|c| c.len as usize).collect(),
                _ => {
                    ctx.violation("C06:key:output-is-not-a-conforming-file", case());
                    return;
                }
            };
            if chunking.iter().any(|&c| c > 65536) || (chunking.len() > 1 && chunking.iter().any(|&c| c == 0)) {
                ctx.violation("C06:key:illegal-chunk-size-emitted", case());
                return;
            }
            let want = refspec::encode_key_file(&k.s_priv, &k.s_pub, &k.r_pub, &e, &pl, &pt, &chunking).unwrap();
            if want != run.out {
                let first = want.iter().zip(run.out.iter()).position(|(a, b)| a != b).unwrap_or(want.len().min(run.out.len()));
                let mut v = case();
                v["first_difference_at"] = json!(first);
                v["chunking"] = json!(chunking);
                v["got"] = json!(hex_short(&run.out[first.saturating_sub(8)..], 48));
                v["want"] = json!(hex_short(&want[first.saturating_sub(8)..], 48));
                ctx.violation(&format!("C06:key:bytes-differ-from-specification:{}", region_key(first, &chunking)), v);
                return;
            }
            ctx.seen(&format!("encryptor==spec key mode, chunks={}", chunking.len().min(6)));
            if chunking.len() >= 2 || len == 0 {
                ctx.distinct(&format!("enc|key|{}|{:?}", len, &chunking[..chunking.len().min(6)]));
            }
            if i % 20 == 1 {
                ctx.sample("encryptor differential", 2, || {
                    let mut v = case();
                    v["chunking_chosen_by_encryptor"] = json!(chunking.iter().take(12).collect::<Vec<_>>());
                    v
                });
            }
        } else {
            // password lengths around the HMAC-SHA-256 block size are always among the cases
            let pw = match (i / 3) % 6 { 0 => rng.bytes(64), 1 => rng.bytes(63), 2 => rng.bytes(65), 3 => Vec::new(), _ => rng.bytes_in(0, 200) };
            let salt = rng.arr32();
            let case = || json!({"mode": "password", "len": len, "plaintext": hex_short(&pt, 48), "password": hex(&pw), "salt": hex(&salt), "io": io.describe()});
            let run = pass_encrypt_run(&pt, &io, &pw, salt);
            if !run.outcome.is_ok() {
                ctx.violation(&format!("C06:encrypt-failed:{}", sig_class(&run.outcome)), case());
                return;
            }
            let key = refspec::pass_key(&pw, &salt);
            let chunking: Vec<usize> = match refspec::decode_pass_file_with_key(&run.out, &|_| key) {
                Ok(d) if d.body.complete() && d.body.plaintext() == pt && d.salt == salt => d.body.chunks.iter().map(|c| c.len as usize).collect(),
                _ => {
                    ctx.violation("C06:pass:output-is-not-a-conforming-file", case());
                    return;
                }
            };
            let want = refspec::encode_pass_file_with_key(&key, &salt, &pt, &chunking);
            if want != run.out {
                let first = want.iter().zip(run.out.iter()).position(|(a, b)| a != b).unwrap_or(0);
                let mut v = case();
                v["first_difference_at"] = json!(first);
                ctx.violation("C06:pass:bytes-differ-from-specification", v);
                return;
            }
            ctx.seen(&format!("encryptor==spec password mode, chunks={}", chunking.len().min(6)));
            if chunking.len() >= 2 || len == 0 {
                ctx.distinct(&format!("enc|pass|{}|{:?}", len, &chunking[..chunking.len().min(6)]));
            }
        }
    });
}


/// Public keys in non-canonical encodings. The format and Noise treat a public key as 32 OPAQUE bytes: they are
/// hashed into h and transmitted exactly as given, while X25519 itself ignores bit 255 and reduces mod p (RFC 7748
/// section 5). A recipient key with bit 255 set, a sender static key with bit 255 set, and recipient keys p+k
/// (2 <= k <= 18, not low order) are therefore legal inputs for which the documented bytes are well defined:
/// the encryptor's output must equal the specification's, specification-made files must decrypt with the
/// recipient key given in that encoding, and the sender reported must be the 32 bytes the file carries.
fn noncanonical_public_keys(ctx: &Ctx) {
    let n = ctx.tier.pick(24, 600);
    let p25519 = {
        let mut p = [0xffu8; 32];
        p[0] = 0xed;
        p[31] = 0x7f;
        p
    };
    par_for(n, crate::util::ncpu(), |i| {
        let mut rng = Rng::fork(ctx.seed, &format!("C06-noncanon-{}", i));
        let k = fresh_keys(&mut rng);
        let ptlen = *rng.pick(&[0usize, 1, 40, 70_000]);
        let pt = rng.bytes(ptlen);
        let (e, pl) = (rng.arr32(), rng.arr32());
        let top = |b: &[u8; 32]| {
            let mut v = *b;
            v[31] |= 0x80;
            v
        };
        // (what, sender public bytes claimed, recipient public bytes, can the holder of r_priv decrypt it?)
        let mut variants: Vec<(&str, [u8; 32], [u8; 32], bool)> = vec![
            ("recipient key with bit 255 set", k.s_pub, top(&k.r_pub), true),
            ("sender static key with bit 255 set", top(&k.s_pub), k.r_pub, true),
            ("both with bit 255 set", top(&k.s_pub), top(&k.r_pub), true),
        ];
        let kk = 2 + (i % 17) as u8; // p + k, k in 2..=18
        let mut pk_plus = p25519;
        pk_plus[0] = pk_plus[0].wrapping_add(kk); // 0xed + k <= 0xff for k <= 18
        variants.push(("recipient key p+k (u >= p)", k.s_pub, pk_plus, false));
        variants.push(("recipient key p+k with bit 255 set", k.s_pub, top(&pk_plus), false));
        for (what, s_pub, r_pub, decryptable) in variants {
            let io = Io::new(Sched::all(), Sched::all());
            let case = || json!({"variant": what, "sender_private": hex(&k.s_priv), "sender_public_given": hex(&s_pub), "recipient_public_given": hex(&r_pub), "ephemeral_private": hex(&e), "payload_key": hex(&pl), "len": pt.len()});
            ctx.eval();
            let want = refspec::encode_key_file(&k.s_priv, &s_pub, &r_pub, &e, &pl, &pt, &refspec::natural_chunking(pt.len(), 65536));
            let run = key_encrypt_run(&pt, &io, &KeyEnc { s_priv: &k.s_priv, s_pub: &s_pub, r_pub: &r_pub, e_priv: Some(e), payload: Some(pl) });
            match (&want, run.outcome.is_ok()) {
                (None, false) => {
                    ctx.seen("non-canonical recipient of low order refused by both");
                    continue;
                }
                (None, true) => {
                    // C05's business (low-order recipient); not judged here
                    continue;
                }
                (Some(_), false) => {
                    ctx.violation(&format!("C06:key:encrypt-failed-for-a-non-canonical-public-key-encoding:{}", sig_class(&run.outcome)), case());
                    continue;
                }
                (Some(w), true) => {
                    if *w != run.out {
                        let first = w.iter().zip(run.out.iter()).position(|(a, b)| a != b).unwrap_or(w.len().min(run.out.len()));
                        let mut v = case();
                        v["first_difference_at"] = json!(first);
                        ctx.violation("C06:key:bytes-differ-from-specification:non-canonical-public-key-encoding", v);
                        continue;
                    }
                }
            }
            if decryptable {
                // a specification-made file (other ephemeral / payload key) read back with the key given in that encoding
                let f = refspec::encode_key_file(&k.s_priv, &s_pub, &r_pub, &rng.arr32(), &rng.arr32(), &pt, &refspec::natural_chunking(pt.len(), 65536)).unwrap();
                let d = key_decrypt_run(&f, &io, &k.r_priv, &r_pub);
                ctx.eval();
                match &d.outcome {
                    Outcome::Ok(Some(s)) if d.out == pt && *s == s_pub => {}
                    Outcome::Ok(Some(s)) if d.out == pt => {
                        let mut v = case();
                        v["sender_reported"] = json!(hex(s));
                        ctx.violation("C06:key:sender-reported-differs-from-the-bytes-in-the-file:non-canonical-public-key-encoding", v);
                        continue;
                    }
                    other => {
                        let mut v = case();
                        v["result"] = json!(other.class());
                        ctx.violation("C06:key:conforming-file-not-decrypted:non-canonical-public-key-encoding", v);
                        continue;
                    }
                }
            }
            ctx.seen(&format!("non-canonical public key encodings: encryptor==spec, spec file decrypts, sender bytes exact ({})", what));
            ctx.distinct(&format!("noncanon|{}|{}|{}", what, i, pt.len()));
        }
    });
}

fn region_key(first: usize, chunking: &[usize]) -> &'static str {
    if first < 4 {
        "magic"
    } else if first < 36 {
        "ephemeral"
    } else if first < 84 {
        "encrypted-static"
    } else if first < 132 {
        "encrypted-payload"
    } else {
        let mut p = 132;
        for &c in chunking {
            if first < p + 8 {
                return "chunk-counter";
            }
            if first < p + 16 {
                return "chunk-header";
            }
            if first < p + 32 + c {
                return "chunk-ciphertext-or-tag";
            }
            p += 32 + c;
        }
        "beyond-end"
    }
}

fn decryptor_accepts_spec_files(ctx: &Ctx) {
    let n = ctx.tier.pick(60, 3000);
    par_for(n, crate::util::ncpu(), |i| {
        let mut rng = Rng::fork(ctx.seed, &format!("C06-dec-{}", i));
        let len = match i % 5 {
            0 => *rng.pick(&[0usize, 1, 65536, 65537, 131072]),
            1 => rng.range(0, 400),
            _ => rng.range(0, 200_000),
        };
        let pt = rng.bytes(len);
        let maxc = if len < 3000 && i % 2 == 0 { rng.range(1, 8) } else { 65536 };
        let chunking = random_chunking(len, maxc, &mut rng, i);
        let io = Io::new(if i % 2 == 0 { Sched::all() } else { Sched::random(&mut rng, 64, 70000) }, Sched::all());
        ctx.eval();
        if i % 3 != 0 {
            let k = fresh_keys(&mut rng);
            let f = refspec::encode_key_file(&k.s_priv, &k.s_pub, &k.r_pub, &rng.arr32(), &rng.arr32(), &pt, &chunking).unwrap();
            let run = key_decrypt_run(&f, &io, &k.r_priv, &k.r_pub);
            let case = || json!({"mode": "key", "len": len, "chunking": chunking.iter().take(16).collect::<Vec<_>>(), "chunks": chunking.len(), "recipient_private": hex(&k.r_priv), "file": hex_short(&f, 200), "result": run.outcome.class()});
            match &run.outcome {
                Outcome::Ok(Some(s)) if run.out == pt && *s == k.s_pub => {
                    ctx.seen("decryptor accepts spec-made key file");
                    ctx.distinct(&format!("dec|key|{}|{}|{}", len, chunking.len(), chunking[0]));
                }
                _ => ctx.violation("C06:key:conforming-file-not-decrypted", case()),
            }
            if i % 25 == 1 {
                ctx.sample("spec-made file decrypted by kestrel", 2, || case());
            }
        } else {
            let pw = match (i / 3) % 5 { 0 => rng.bytes(64), 1 => rng.bytes(65), 2 => rng.bytes(128), _ => rng.bytes_in(0, 40) };
            let f = refspec::encode_pass_file(&pw, &rng.arr32(), &pt, &chunking);
            let run = pass_decrypt_run(&f, &io, &pw);
            let case = || json!({"mode": "password", "len": len, "chunking": chunking.iter().take(16).collect::<Vec<_>>(), "password": hex(&pw), "file": hex_short(&f, 200), "result": run.outcome.class()});
            match &run.outcome {
                Outcome::Ok(_) if run.out == pt => {
                    ctx.seen("decryptor accepts spec-made password file");
                    ctx.distinct(&format!("dec|pass|{}|{}|{}", len, chunking.len(), chunking[0]));
                }
                _ => ctx.violation("C06:pass:conforming-file-not-decrypted", case()),
            }
        }
    });
}

fn small_bodies(ctx: &Ctx) {
    // every |P| <= L, every chunking with parts <= c: spec body == real chunk loop output (same partition),
    // and the real chunk decryptor reads every spec body
    let max_len = ctx.tier.pick(9, 14);
    let mut work = Vec::new();
    for c in 1..=4usize {
        for len in 0..=max_len {
            work.push((c, len));
        }
    }
    par_for(work.len(), crate::util::ncpu(), |i| {
        let (c, len) = work[i];
        let mut rng = Rng::fork(ctx.seed, &format!("C06-small-{}", i));
        let key = rng.arr32();
        let pt = rng.bytes(len);
        for aad in [vec![], PASS_MAGIC.to_vec()] {
            let comps = if len == 0 { vec![vec![0usize]] } else { compositions(len, c) };
            for comp in &comps {
                let spec = refspec::encode_body(&pt, comp, &key, &aad);
                ctx.eval();
                let d = chunks_decrypt_run(&spec, &Io::plain(), &key, &aad, c as u32);
                if !(d.outcome.is_ok() && d.out == pt) {
                    ctx.violation("C06:small:conforming-body-not-decrypted", json!({"body": hex(&spec), "key": hex(&key), "aad": hex(&aad), "chunk_size": c, "chunking": comp, "result": d.outcome.class()}));
                    continue;
                }
                // the real encryptor under the read partition that yields this chunking
                let reads: Vec<usize> = if len == 0 { vec![] } else { comp.clone() };
                let e = chunks_encrypt_run(&pt, &Io::new(Sched::list(reads, 1), Sched::all()), &key, &aad, c as u32);
                ctx.eval();
                if !e.outcome.is_ok() || e.out != spec {
                    ctx.violation("C06:small:chunk-loop-bytes-differ-from-specification", json!({"got": hex(&e.out), "want": hex(&spec), "key": hex(&key), "aad": hex(&aad), "chunk_size": c, "read_partition": comp, "plaintext": hex(&pt)}));
                    continue;
                }
                if comp.len() >= 2 {
                    ctx.distinct(&format!("small|{}|{}|{:?}|{}", c, len, comp, aad.len()));
                }
                ctx.seen("small: spec body == chunk loop bytes, and decrypts");
            }
        }
    });
    ctx.note("small_scope", json!({"max_len": max_len, "max_chunk_size": 4, "exhaustive": true, "space": "every chunking of every length, both AAD variants"}));
}

fn noise_differential(ctx: &Ctx) {
    // the exported Noise functions with arbitrary prologues vs the specification
    let n = ctx.tier.pick(150, 1500);
    par_for(n, crate::util::ncpu(), |i| {
        let mut rng = Rng::fork(ctx.seed, &format!("C06-noise-{}", i));
        let k = fresh_keys(&mut rng);
        let e = rng.arr32();
        let pl = rng.arr32();
        let prologue = if i % 4 == 0 { refspec::KEY_MAGIC.to_vec() } else { rng.bytes_in(0, 50) };
        ctx.eval();
        let real = guarded(|| {
            let ep = sk(&e);
            let epub = ep.to_public().unwrap();
            kestrel_crypto::noise_encrypt(&sk(&k.s_priv), &pk(&k.s_pub), &pk(&k.r_pub), Some(&ep), Some(&epub), &prologue, &kestrel_crypto::PayloadKey::new(&pl))
        });
        let spec = refspec::noise_x_write(&prologue, &k.s_priv, &k.s_pub, &k.r_pub, &e, &pl).unwrap();
        let case = || json!({"prologue": hex(&prologue), "sender_private": hex(&k.s_priv), "recipient_public": hex(&k.r_pub), "ephemeral_private": hex(&e), "payload": hex(&pl), "spec_message": hex(&spec.message)});
        match real {
            Ok(Ok(m)) => {
                if m.ciphertext != spec.message {
                    ctx.violation("C06:noise:handshake-message-differs-from-specification", case());
                    return;
                }
                if m.handshake_hash != spec.h {
                    ctx.violation("C06:noise:handshake-hash-differs-from-specification", case());
                    return;
                }
            }
            Ok(Err(e)) => {
                let mut v = case();
                v["error"] = json!(e.to_string());
                ctx.violation("C06:noise:encrypt-failed", v);
                return;
            }
            Err(p) => {
                ctx.violation(&format!("C06:noise:panic:{}", panic_site(&p)), case());
                return;
            }
        }
        let rd = guarded(|| kestrel_crypto::noise_decrypt(&sk(&k.r_priv), &pk(&k.r_pub), &prologue, &spec.message));
        match rd {
            Ok(Ok(m)) if m.payload_key.as_bytes() == pl && m.public_key.as_bytes() == k.s_pub && m.handshake_hash == spec.h => {
                ctx.seen("noise message == spec, spec message read back");
                ctx.distinct(&format!("noise|{}", i));
            }
            _ => ctx.violation("C06:noise:spec-message-not-read-back", case()),
        }
    });
    // nonce layout over the whole 64-bit range (counters no file can reach)
    let mut rng = Rng::fork(ctx.seed, "C06-nonce");
    for n in nonce_counters(&mut rng, ctx.tier.pick(200, 5000)) {
        let key = rng.arr32();
        let ad = rng.bytes_in(0, 20);
        let pt = rng.bytes_in(0, 40);
        ctx.eval();
        let want = crate::ossl::aead_seal(&key, &refspec::noise_nonce(n), &ad, &pt);
        let got = guarded(|| verif_chapoly_encrypt_noise(&key, n, &ad, &pt));
        let back = guarded(|| verif_chapoly_decrypt_noise(&key, n, &ad, &want));
        let ok = matches!(&got, Ok(g) if *g == want) && matches!(&back, Ok(Ok(b)) if *b == pt);
        if !ok {
            ctx.violation("C06:noise:nonce-layout-differs-from-specification", json!({"counter": n, "key": hex(&key), "ad": hex(&ad), "plaintext": hex(&pt), "want": hex(&want)}));
        } else {
            ctx.seen("nonce layout == 00000000||LE64(n)");
            ctx.distinct(&format!("nonce|{}", n));
        }
    }
}

/// Deterministic plaintext pattern of golden files (not stored in the repository).
pub fn golden_plain(len: usize) -> Vec<u8> {
    (0..len as u64).map(GenReader::byte_at).collect()
}

/// `kmon golden-gen`: writes /verif/golden with the *current* tree's encryptor. Run once on
/// the pinned tree; the result is committed and never regenerated by a check.
#[cfg(feature = "kr")]
pub fn golden_gen() {
    let dir = format!("{}/golden", verif_root());
    std::fs::create_dir_all(&dir).unwrap();
    let mut rng = Rng::new(0x601d_e2f1);
    let mut items: Vec<Value> = Vec::new();
    let lens = [0usize, 1, 65535, 65536, 65537, 196608];
    for (i, &len) in lens.iter().enumerate() {
        let pt = golden_plain(len);
        let k = fresh_keys(&mut rng);
        let io = if i % 2 == 0 { Io::plain() } else { Io::new(Sched::list(vec![1000, 65536, 3], 65536), Sched::all()) };
        let run = key_encrypt_run(&pt, &io, &KeyEnc { s_priv: &k.s_priv, s_pub: &k.s_pub, r_pub: &k.r_pub, e_priv: None, payload: None });
        assert!(run.outcome.is_ok());
        let name = format!("key-{}.ktl", len);
        std::fs::write(format!("{}/{}", dir, name), &run.out).unwrap();
        items.push(json!({"file": name, "mode": "key", "plaintext_len": len, "plaintext_sha256": hex(&crate::ossl::sha256(&pt)), "recipient_private": hex(&k.r_priv), "sender_public": hex(&k.s_pub), "read_schedule": io.rs.describe()}));
        let pw = format!("golden-pass-{}-\u{e9}", i);
        let run = pass_encrypt_run(&pt, &io, pw.as_bytes(), rng.arr32());
        assert!(run.outcome.is_ok());
        let name = format!("pass-{}.ktl", len);
        std::fs::write(format!("{}/{}", dir, name), &run.out).unwrap();
        items.push(json!({"file": name, "mode": "password", "plaintext_len": len, "plaintext_sha256": hex(&crate::ossl::sha256(&pt)), "password": hex(pw.as_bytes()), "read_schedule": io.rs.describe()}));
    }
    let mut locked = Vec::new();
    for (i, pw) in ["", "golden", "p\u{e4}ss \u{2713}"].iter().enumerate() {
        let skb = rng.arr32();
        let s = crate::keyring::Keyring::lock_private_key(&sk(&skb), pw.as_bytes(), rng.arr32());
        let p = crate::keyring::Keyring::encode_public_key(&pk(&refspec::pubkey_of(&skb)));
        locked.push(json!({"n": i, "locked": s.as_str(), "password": hex(pw.as_bytes()), "private_key": hex(&skb), "encoded_public": p.as_str()}));
    }
    let m = json!({"note": "written once by finfet/kestrel at the pinned commit (b075d88 + verif-hooks) through kmon golden-gen; plaintext of length n is byte i = GenReader::byte_at(i)", "files": items, "locked_keys": locked});
    std::fs::write(format!("{}/manifest.json", dir), serde_json::to_string_pretty(&m).unwrap()).unwrap();
    println!("golden files written to {}", dir);
}

fn golden_block(ctx: &Ctx) {
    let dir = format!("{}/golden", verif_root());
    let m: Value = match std::fs::read_to_string(format!("{}/manifest.json", dir)).ok().and_then(|t| serde_json::from_str(&t).ok()) {
        Some(m) => m,
        None => {
            ctx.inconclusive("golden/manifest.json missing or unreadable");
            return;
        }
    };
    for f in m["files"].as_array().unwrap() {
        let name = f["file"].as_str().unwrap();
        let bytes = match std::fs::read(format!("{}/{}", dir, name)) {
            Ok(b) => b,
            Err(_) => {
                ctx.inconclusive(&format!("golden file {} missing", name));
                continue;
            }
        };
        let len = f["plaintext_len"].as_u64().unwrap() as usize;
        let want_sha = unhex(f["plaintext_sha256"].as_str().unwrap());
        for io in [Io::plain(), Io::new(Sched::fixed(4099), Sched::fixed(65521))] {
            ctx.eval();
            let run = if f["mode"] == "key" {
                let r = unhex32(f["recipient_private"].as_str().unwrap());
                key_decrypt_run(&bytes, &io, &r, &refspec::pubkey_of(&r))
            } else {
                pass_decrypt_run(&bytes, &io, &unhex(f["password"].as_str().unwrap()))
            };
            let sender_ok = match (&run.outcome, f["mode"] == "key") {
                (Outcome::Ok(Some(s)), true) => hex(s) == f["sender_public"].as_str().unwrap(),
                (Outcome::Ok(_), false) => true,
                _ => false,
            };
            if !(sender_ok && run.out.len() == len && crate::ossl::sha256(&run.out).to_vec() == want_sha) {
                ctx.violation(&format!("C06:golden:file-no-longer-decrypts:{}", name), json!({"file": name, "result": run.outcome.class(), "got_len": run.out.len(), "want_len": len}));
            } else {
                ctx.seen("golden file decrypts to recorded digest and sender");
                ctx.distinct(&format!("golden|{}", name));
            }
        }
    }
    for k in m["locked_keys"].as_array().unwrap() {
        ctx.eval();
        let s = k["locked"].as_str().unwrap();
        let pw = unhex(k["password"].as_str().unwrap());
        #[cfg(feature = "kr")]
        let r = guarded(|| crate::keyring::EncodedSk::try_from(s).ok().and_then(|e| crate::keyring::Keyring::unlock_private_key(&e, &pw).ok()).map(|p| p.as_bytes().to_vec()));
        // without the in-process keyring module the golden locked keys go through the real binary instead
        #[cfg(not(feature = "kr"))]
        let r: Result<Option<Vec<u8>>, String> = {
            let wd = crate::cli::WorkDir::new("c06g");
            let o = crate::cli::Cmd::new(&wd.path, &["key", "extract-pub", s, "--env-pass"]).pass(&String::from_utf8_lossy(&pw)).run();
            let want = format!("PublicKey = {}", k["encoded_public"].as_str().unwrap_or(""));
            if o.exit == crate::cli::Exit::Code(0) && o.stdout_s().trim() == want { Ok(Some(unhex(k["private_key"].as_str().unwrap()))) } else { Ok(None) }
        };
        if !matches!(&r, Ok(Some(b)) if hex(b) == k["private_key"].as_str().unwrap()) {
            ctx.violation("C06:golden:locked-key-no-longer-unlocks", k.clone());
        } else {
            ctx.seen("golden locked key unlocks");
            ctx.distinct(&format!("golden|locked{}", k["n"]));
        }
    }
    // the two fixtures of the repository, through the real decryptor
    let want = std::fs::read("/repo/src/cli/tests/data.txt").unwrap_or_default();
    ctx.eval();
    let f = std::fs::read("/repo/src/cli/tests/pdata.txt.ktl").unwrap_or_default();
    let run = pass_decrypt_run(&f, &Io::plain(), b"pass123");
    if !(run.outcome.is_ok() && run.out == want) {
        ctx.violation("C06:golden:fixture-pdata-no-longer-decrypts", json!({"result": run.outcome.class()}));
    } else {
        ctx.seen("repository fixture decrypts");
        ctx.distinct("golden|pdata");
    }
    ctx.eval();
    let kr = std::fs::read_to_string("/repo/src/cli/tests/keyring.txt").unwrap_or_default();
    let bob_locked = kr.lines().filter(|l| l.starts_with("PrivateKey")).nth(1).and_then(|l| l.split_once('=')).map(|x| x.1.trim().to_string()).unwrap_or_default();
    let alice_pub = kr.lines().filter(|l| l.starts_with("PublicKey")).next().and_then(|l| l.split_once('=')).map(|x| x.1.trim().to_string()).unwrap_or_default();
    match refspec::unlock_sk(&bob_locked, b"bob") {
        Ok(bob) => {
            let f = std::fs::read("/repo/src/cli/tests/data.txt.ktl").unwrap_or_default();
            let run = key_decrypt_run(&f, &Io::plain(), &bob, &refspec::pubkey_of(&bob));
            let ok = matches!(&run.outcome, Outcome::Ok(Some(s)) if Some(*s) == refspec::decode_pk(&alice_pub)) && run.out == want;
            if !ok {
                ctx.violation("C06:golden:fixture-data-no-longer-decrypts", json!({"result": run.outcome.class()}));
            } else {
                ctx.seen("repository fixture decrypts");
                ctx.distinct("golden|data");
            }
        }
        Err(e) => ctx.inconclusive(&format!("cannot unlock fixture key with the reference: {}", e)),
    }
}

/// The shipped tool against the specification, both directions, with passwords whose edges are
/// whitespace (a canonicalising input layer would be symmetric and invisible to a CLI-only round trip).
fn cli_conformance(ctx: &Ctx) {
    use crate::cli::{keyring_text, Cmd, Exit, Ident, Stdin, WorkDir};
    let mut rng = Rng::fork(ctx.seed, "C06-cli");
    let wd = WorkDir::new("c06");
    // the repository's two frozen fixtures through the shipped tool: to stdout, to a fresh -o path and
    // to a -o path that already holds longer content
    {
        let want = std::fs::read("/repo/src/cli/tests/data.txt").unwrap_or_default();
        let tests = "/repo/src/cli/tests";
        for (fx, args, pw) in [
            ("pdata.txt.ktl", vec!["password", "decrypt", "/repo/src/cli/tests/pdata.txt.ktl", "--env-pass"], "pass123"),
            ("data.txt.ktl", vec!["decrypt", "/repo/src/cli/tests/data.txt.ktl", "-t", "bob", "-k", "/repo/src/cli/tests/keyring.txt", "--env-pass"], "bob"),
        ] {
            let _ = tests;
            for sink in ["stdout", "fresh -o path", "-o path holding longer content"] {
                let outp = wd.file(&format!("fx-{}-{}.out", fx, sink.len()));
                let _ = std::fs::remove_file(&outp);
                let mut a: Vec<&str> = args.clone();
                let os = outp.to_str().unwrap().to_string();
                if sink != "stdout" {
                    a.push("-o");
                    a.push(&os);
                }
                if sink.ends_with("longer content") {
                    std::fs::write(&outp, vec![0x33u8; want.len() + 4096]).unwrap();
                }
                let o = Cmd::new(&wd.path, &a).pass(pw).run();
                ctx.eval();
                let got = if sink == "stdout" { o.stdout.clone() } else { std::fs::read(&outp).unwrap_or_default() };
                if o.exit == Exit::Code(0) && got == want && !want.is_empty() {
                    ctx.seen("cli decrypts the repository fixture to exactly its plaintext");
                    ctx.distinct(&format!("cli|fixture|{}|{}", fx, sink));
                } else if o.exit == Exit::Timeout {
                    ctx.inconclusive("C06 cli: timeout");
                } else {
                    ctx.violation("C06:cli:repository-fixture-not-decrypted-to-exactly-its-plaintext", json!({"fixture": fx, "sink": sink, "exit": o.exit.describe(), "stderr": o.stderr_s(), "got_len": got.len(), "want_len": want.len()}));
                }
            }
        }
    }
    // conforming files of extreme shapes (made by the specification) through the shipped tool into every kind of sink:
    // the EMPTY plaintext (a single final record of length 0), one byte, one-byte records, an exact chunk. After exit 0
    // the sink holds exactly the plaintext - in particular an output FILE exists and is empty for the empty plaintext,
    // whatever the path held before
    {
        let alice = Ident::new("alice", "apw", &mut rng);
        let bob = Ident::new("bob", "bpw", &mut rng);
        wd.write("shape-kr.txt", keyring_text(&[(&alice, true), (&bob, true)]).as_bytes());
        let shapes: Vec<(&str, Vec<u8>, Vec<usize>)> = vec![
            ("empty plaintext", vec![], vec![0]),
            ("one byte", vec![0x41], vec![1]),
            ("three one-byte records", b"abc".to_vec(), vec![1, 1, 1]),
            ("exactly one full chunk", rng.bytes(65536), vec![65536]),
            ("full chunk then empty final record", rng.bytes(65536), vec![65536, 0]),
        ];
        for (si, (shape, pt, chunking)) in shapes.iter().enumerate() {
            let kf = refspec::encode_key_file(&alice.sk, &alice.pk, &bob.pk, &rng.arr32(), &rng.arr32(), pt, chunking).unwrap();
            let pf = refspec::encode_pass_file(b"shape-pw", &rng.arr32(), pt, chunking);
            wd.write(&format!("shape{}.k.ktl", si), &kf);
            wd.write(&format!("shape{}.p.ktl", si), &pf);
            for keymode in [true, false] {
                for sink in ["stdout", "fresh -o path", "-o path holding longer content", "-o path holding shorter content"] {
                    if sink.ends_with("shorter content") && pt.len() < 2 {
                        continue;
                    }
                    let inp = format!("shape{}.{}.ktl", si, if keymode { "k" } else { "p" });
                    let outp = wd.file(&format!("shape{}-{}-{}.out", si, keymode, sink.len()));
                    let _ = std::fs::remove_file(&outp);
                    let os = outp.to_str().unwrap().to_string();
                    let mut a: Vec<&str> = if keymode { vec!["decrypt", &inp, "-t", "bob", "-k", "shape-kr.txt", "--env-pass"] } else { vec!["password", "decrypt", &inp, "--env-pass"] };
                    if sink != "stdout" {
                        a.push("-o");
                        a.push(&os);
                    }
                    if sink.ends_with("longer content") {
                        std::fs::write(&outp, vec![0x33u8; pt.len() + 4096]).unwrap();
                    } else if sink.ends_with("shorter content") {
                        std::fs::write(&outp, vec![0x44u8; 1]).unwrap();
                    }
                    let o = Cmd::new(&wd.path, &a).pass(if keymode { "bpw" } else { "shape-pw" }).run();
                    ctx.eval();
                    let got: Option<Vec<u8>> = if sink == "stdout" { Some(o.stdout.clone()) } else { std::fs::read(&outp).ok() };
                    if o.exit == Exit::Timeout {
                        ctx.inconclusive("C06 cli: timeout");
                    } else if o.exit == Exit::Code(0) && got.as_deref() == Some(&pt[..]) {
                        ctx.seen("cli decrypts a conforming file of extreme shape to exactly its plaintext in every sink");
                        ctx.distinct(&format!("cli|shape|{}|{}|{}", shape, keymode, sink));
                    } else {
                        ctx.violation("C06:cli:conforming-file-of-extreme-shape-not-decrypted-to-exactly-its-plaintext", json!({"shape": shape, "mode": if keymode { "key" } else { "password" }, "sink": sink, "exit": o.exit.describe(), "stderr": o.stderr_s(),
                            "output": match &got { None => json!("no output file exists"), Some(g) => json!({"len": g.len()}) }, "want_len": pt.len()}));
                    }
                }
            }
        }
    }
    let pws: Vec<String> = vec!["plain".into(), "trailing space ".into(), " leading".into(), "tab\t".into(), "nl\n".into(), "ideographic\u{3000}".into(), "".into(), "  ".into(), "p\u{e4}ss".into()];
    let wdp = &wd;
    let pt = rng.bytes(65536 + 321);
    let salts: Vec<[u8; 32]> = (0..pws.len()).map(|_| rng.arr32()).collect();
    let ids: Vec<Ident> = pws.iter().enumerate().map(|(i, p)| Ident::new(&format!("id{}", i), p, &mut rng)).collect();
    let peer = Ident::new("peer", "peer-pw", &mut rng);
    let eph: Vec<([u8; 32], [u8; 32])> = (0..pws.len()).map(|_| (rng.arr32(), rng.arr32())).collect();
    par_for(pws.len(), crate::util::ncpu(), |i| {
        let w = &pws[i];
        let case = |what: &str, o: &crate::cli::Output| json!({"what": what, "password": w, "password_hex": hex(w.as_bytes()), "exit": o.exit.describe(), "stderr": o.stderr_s()});
        // (a) specification-made password file -> tool
        let f = refspec::encode_pass_file(w.as_bytes(), &salts[i], &pt, &[65536, 321]);
        let fp = wdp.write(&format!("spec{}.ktl", i), &f);
        let o = Cmd::new(&wdp.path, &["password", "decrypt", fp.to_str().unwrap(), "--env-pass"]).pass(w).run();
        ctx.eval();
        if o.exit == Exit::Code(0) && o.stdout == pt {
            ctx.seen("cli decrypts a specification-made password file");
            ctx.distinct(&format!("cli|spec->tool|{}", i));
        } else if o.exit == Exit::Timeout {
            ctx.inconclusive("C06 cli: timeout");
        } else {
            ctx.violation("C06:cli:conforming-password-file-not-decrypted-by-the-tool", case("password decrypt of a specification-made file", &o));
        }
        // (a') the same with short non-final chunks, as a FILE argument and with -o (the output must be exactly the plaintext)
        {
            let small = &pt[..2500 + i];
            let chunking = vec![1000usize, 1000, 500 + i];
            let f2 = refspec::encode_pass_file(w.as_bytes(), &salts[i], small, &chunking);
            let fp2 = wdp.write(&format!("short{}.ktl", i), &f2);
            let outp = wdp.file(&format!("short{}.out", i));
            let o = Cmd::new(&wdp.path, &["password", "decrypt", fp2.to_str().unwrap(), "-o", outp.to_str().unwrap(), "--env-pass"]).pass(w).run();
            ctx.eval();
            let got = std::fs::read(&outp).unwrap_or_default();
            if o.exit == Exit::Code(0) && got == small {
                ctx.seen("cli decrypts a short-chunk password file to exactly its plaintext (-o)");
            } else {
                let mut v = case("password decrypt FILE -o OUT of a conforming file with chunks of 1000,1000,500+ bytes", &o);
                v["output_len"] = json!(got.len());
                v["expected_len"] = json!(small.len());
                ctx.violation("C06:cli:conforming-short-chunk-file-not-decrypted-to-exactly-its-plaintext", v);
            }
            let kf2 = refspec::encode_key_file(&peer.sk, &peer.pk, &ids[i].pk, &eph[i].1, &eph[i].0, small, &chunking).unwrap();
            let kfp2 = wdp.write(&format!("kshort{}.ktl", i), &kf2);
            let kr0 = keyring_text(&[(&ids[i], true), (&peer, true)]);
            wdp.write(&format!("kr{}.txt", i), kr0.as_bytes());
            let outk = wdp.file(&format!("kshort{}.out", i));
            let o = Cmd::new(&wdp.path, &["decrypt", kfp2.to_str().unwrap(), "-t", &ids[i].name, "-o", outk.to_str().unwrap(), "-k", &format!("kr{}.txt", i), "--env-pass"]).pass(w).run();
            ctx.eval();
            let got = std::fs::read(&outk).unwrap_or_default();
            if o.exit == Exit::Code(0) && got == small {
                ctx.seen("cli decrypts a short-chunk key file to exactly its plaintext (-o)");
            } else {
                let mut v = case("decrypt FILE -o OUT of a conforming key file with chunks of 1000,1000,500+ bytes", &o);
                v["output_len"] = json!(got.len());
                v["expected_len"] = json!(small.len());
                ctx.violation("C06:cli:conforming-short-chunk-file-not-decrypted-to-exactly-its-plaintext", v);
            }
        }
        // (b) tool-made password file -> specification
        let o = Cmd::new(&wdp.path, &["password", "encrypt", "--env-pass"]).pass(w).stdin(Stdin::Bytes(pt.clone())).run();
        ctx.eval();
        match refspec::decode_pass_file(&o.stdout, w.as_bytes()) {
            Ok(d) if o.exit == Exit::Code(0) && d.body.complete() && d.body.plaintext() == pt => {
                ctx.seen("specification decrypts a tool-made password file");
                ctx.distinct(&format!("cli|tool->spec|{}", i));
            }
            _ => ctx.violation("C06:cli:tool-made-password-file-does-not-conform", case("password encrypt, decoded by the specification under the exact password", &o)),
        }
        // (b2) the FILE the tool leaves at -o, fresh path and a path that already holds longer content:
        // exactly header || chunks, nothing else
        for (prior_what, prior) in [("fresh path", None), ("path holding longer content", Some(vec![0x5au8; pt.len() + 100_000])), ("path holding shorter content", Some(vec![1u8; 7]))] {
            let outp = wdp.file(&format!("made{}-{}.ktl", i, prior_what.len()));
            let _ = std::fs::remove_file(&outp);
            if let Some(p) = &prior {
                std::fs::write(&outp, p).unwrap();
            }
            let pin = wdp.write(&format!("in{}.bin", i), &pt);
            let o = Cmd::new(&wdp.path, &["password", "encrypt", pin.to_str().unwrap(), "-o", outp.to_str().unwrap(), "--env-pass"]).pass(w).run();
            ctx.eval();
            let f = std::fs::read(&outp).unwrap_or_default();
            match refspec::decode_pass_file(&f, w.as_bytes()) {
                Ok(d) if o.exit == Exit::Code(0) && d.body.complete() && d.body.plaintext() == pt && f.len() == 36 + 32 * d.body.chunks.len() + pt.len() => {
                    ctx.seen(&format!("file left at -o conforms exactly ({})", prior_what));
                    ctx.distinct(&format!("cli|file-at-o|{}|{}", i, prior_what));
                }
                _ if o.exit == Exit::Timeout => ctx.inconclusive("C06 cli: timeout"),
                r => {
                    let mut v = case("password encrypt -o FILE, the file decoded by the specification", &o);
                    v["prior_content"] = json!(prior_what);
                    v["file_len"] = json!(f.len());
                    v["reference"] = json!(match r { Ok(d) => format!("{:?}", d.body.end), Err(e) => e.to_string() });
                    ctx.violation("C06:cli:file-left-at-the-output-path-does-not-conform", v);
                }
            }
        }
        // (c) specification-locked key in a keyring -> the tool unlocks it, signs as it, decrypts to it
        let kr = keyring_text(&[(&ids[i], true), (&peer, true)]);
        wdp.write(&format!("kr{}.txt", i), kr.as_bytes());
        let krn = format!("kr{}.txt", i);
        let o = Cmd::new(&wdp.path, &["encrypt", "-t", "peer", "-f", &ids[i].name, "-k", &krn, "--env-pass"]).pass(w).stdin(Stdin::Bytes(b"hello".to_vec())).run();
        ctx.eval();
        match refspec::decode_key_file(&o.stdout, &peer.sk, &peer.pk) {
            Ok(d) if o.exit == Exit::Code(0) && d.body.complete() && d.sender == ids[i].pk => {
                ctx.seen("cli unlocks a specification-locked key and encrypts a conforming file");
                ctx.distinct(&format!("cli|spec-key|{}", i));
            }
            _ => ctx.violation("C06:cli:conforming-locked-key-not-usable-by-the-tool", case("encrypt with a keyring whose sender key was locked by the specification", &o)),
        }
        let kf = refspec::encode_key_file(&peer.sk, &peer.pk, &ids[i].pk, &eph[i].0, &eph[i].1, &pt, &[65536, 321]).unwrap();
        let kfp = wdp.write(&format!("k{}.ktl", i), &kf);
        let o = Cmd::new(&wdp.path, &["decrypt", kfp.to_str().unwrap(), "-t", &ids[i].name, "-k", &krn, "--env-pass"]).pass(w).run();
        ctx.eval();
        if o.exit == Exit::Code(0) && o.stdout == pt && o.stderr_s().contains("peer") {
            ctx.seen("cli decrypts a specification-made key file");
            ctx.distinct(&format!("cli|spec-keyfile|{}", i));
        } else {
            ctx.violation("C06:cli:conforming-key-file-not-decrypted-by-the-tool", case("decrypt of a specification-made key file", &o));
        }
        // (d) tool-generated key -> specification unlock under the exact password
        let o = Cmd::new(&wdp.path, &["key", "generate", "--env-pass"]).pass(w).stdin(Stdin::Bytes(b"gen\n".to_vec())).run();
        ctx.eval();
        let text = o.stdout_s();
        let l = text.lines().find_map(|l| l.strip_prefix("PrivateKey = ")).unwrap_or("").trim().to_string();
        let pkl = text.lines().find_map(|l| l.strip_prefix("PublicKey = ")).unwrap_or("").trim().to_string();
        match refspec::unlock_sk(&l, w.as_bytes()) {
            Ok(k) if Some(refspec::pubkey_of(&k)) == refspec::decode_pk(&pkl) => {
                ctx.seen("specification unlocks a tool-generated key under the exact password");
                ctx.distinct(&format!("cli|tool-key|{}", i));
            }
            _ => ctx.violation("C06:cli:tool-generated-key-does-not-conform", case("key generate, unlocked by the specification under the exact password", &o)),
        }
    });
}

pub fn run(ctx: &Ctx) {
    ctx.rule(
        "(1) key_encrypt/pass_encrypt with injected ephemeral/payload/salt under scripted short reads; the output is decoded by the OpenSSL-based \
         specification to learn the chunking chosen, re-encoded by the specification and compared byte for byte; (2) specification-made files with arbitrary \
         legal chunkings (1..65536, tiny, mixed) must decrypt to the plaintext and sender; (3) exported Noise functions with arbitrary prologues and the Noise \
         AEAD nonce over the whole u64 range vs the specification; (4) small scope: every chunking of every |P|<=L; (5) golden files written by the pinned \
         tree and the repository fixtures; (6) the shipped tool against the specification in both directions with whitespace-edged passwords. distinct_nontrivial counts distinct tuples with >=2 chunks (or empty plaintext), distinct counters, golden files",
    );
    ctx.assume("the specification in refspec.rs is a faithful reading of docs/file-format.txt, Noise rev 34 and the RFCs (anchored by published vectors and the repository fixtures)");
    ctx.assume("'earlier 1.x releases' are represented only by the two fixtures in the repository; no older binaries exist offline");
    encryptor_differential(ctx);
    noncanonical_public_keys(ctx);
    decryptor_accepts_spec_files(ctx);
    small_bodies(ctx);
    noise_differential(ctx);
    golden_block(ctx);
    if !crate::lib_only() {
        cli_conformance(ctx);
    }
    ctx.require("cli decrypts a specification-made password file", 6);
    ctx.require("specification decrypts a tool-made password file", 6);
    ctx.require("cli unlocks a specification-locked key", 6);
    ctx.require("cli decrypts a short-chunk", 12);
    ctx.require("file left at -o conforms exactly (path holding longer content)", 6);
    ctx.require("cli decrypts the repository fixture", 4);
    ctx.require("cli decrypts a conforming file of extreme shape", 30);
    ctx.require("encryptor==spec key mode", 20);
    ctx.require("non-canonical public key encodings", 60);
    ctx.require("encryptor==spec password mode", 10);
    ctx.require("decryptor accepts spec-made", 40);
    ctx.require("golden file decrypts", 20);
    ctx.require("nonce layout", 100);
}
