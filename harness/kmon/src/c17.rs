//! C17 - keyring parsing: complete, unambiguous entries; checksummed keys; no crashes.
//! Differential of the CLI's real parser (compiled from the working tree) against a
//! three-valued model: inputs are labelled by construction must-accept / must-reject /
//! either; on acceptance the entries must be the sections of the file, in order.

use crate::cli::{Cmd, Exit, Stdin, WorkDir};
use crate::ctx::Ctx;
use crate::keyring::{EncodedPk, EncodedSk, Keyring};
use crate::kio::{guarded, panic_site};
use crate::refspec;
use crate::util::{b64, par_for, unb64, Rng};
use serde_json::json;

#[derive(Clone, Debug, PartialEq)]
enum Tok {
    Key,
    Name(usize),
    Pk(usize),
    Sk(usize),
    Comment,
    Blank,
    Junk,
}

struct Universe {
    names: Vec<String>,      // index 0,1 valid; 2 empty; 3 too long
    pks: Vec<String>,        // 0,1 valid; 2 malformed
    sks: Vec<String>,        // 0 valid; 1 malformed
}

impl Universe {
    fn new(rng: &mut Rng) -> Universe {
        let k1 = refspec::encode_pk(&refspec::pubkey_of(&rng.arr32()));
        let k2 = refspec::encode_pk(&refspec::pubkey_of(&rng.arr32()));
        let s1 = {
            // parsing only checks the length; no scrypt needed
            let mut blob = refspec::SK_MAGIC.to_vec();
            blob.extend_from_slice(&rng.bytes(80));
            b64(&blob)
        };
        Universe {
            names: vec!["a".into(), "b".into(), "".into(), "x".repeat(129)],
            pks: vec![k1.clone(), k2, k1[..44].to_string()],
            sks: vec![s1.clone(), s1[..100].to_string()],
        }
    }
    fn name_valid(i: usize) -> bool {
        i < 2
    }
    fn pk_valid(i: usize) -> bool {
        i < 2
    }
    fn sk_valid(i: usize) -> bool {
        i < 1
    }
}

fn all_tokens() -> Vec<Tok> {
    vec![Tok::Key, Tok::Name(0), Tok::Name(1), Tok::Name(2), Tok::Name(3), Tok::Pk(0), Tok::Pk(1), Tok::Pk(2), Tok::Sk(0), Tok::Sk(1), Tok::Comment, Tok::Blank, Tok::Junk]
}

fn render(seq: &[Tok], u: &Universe, style: usize) -> String {
    let mut s = String::new();
    let (pre, eq, post) = match style % 4 {
        0 => ("", " = ", ""),
        1 => ("", "=", ""),
        2 => ("  ", " =  ", "  "),
        _ => ("\t", "\t=\t", "\t"),
    };
    let nl = if style % 8 >= 4 { "\r\n" } else { "\n" };
    for t in seq {
        let line = match t {
            Tok::Key => format!("{}[Key]{}", pre, post),
            Tok::Name(i) => format!("{}Name{}{}{}", pre, eq, u.names[*i], post),
            Tok::Pk(i) => format!("{}PublicKey{}{}{}", pre, eq, u.pks[*i], post),
            Tok::Sk(i) => format!("{}PrivateKey{}{}{}", pre, eq, u.sks[*i], post),
            Tok::Comment => format!("{}# a comment = with an equals sign", pre),
            Tok::Blank => pre.to_string(),
            Tok::Junk => format!("{}hello world", pre),
        };
        s.push_str(&line);
        s.push_str(nl);
    }
    s
}

#[derive(Default, Clone)]
struct Section {
    names: Vec<usize>,
    pks: Vec<usize>,
    sks: Vec<usize>,
}

#[derive(PartialEq, Debug)]
enum Label {
    MustAccept,
    MustReject(&'static str),
    Either(&'static str),
}

fn model(seq: &[Tok]) -> (Label, Vec<Section>) {
    let mut secs: Vec<Section> = Vec::new();
    let mut stray = false;
    let mut junk = false;
    for t in seq {
        match t {
            Tok::Key => secs.push(Section::default()),
            Tok::Name(i) => match secs.last_mut() {
                Some(s) => s.names.push(*i),
                None => stray = true,
            },
            Tok::Pk(i) => match secs.last_mut() {
                Some(s) => s.pks.push(*i),
                None => stray = true,
            },
            Tok::Sk(i) => match secs.last_mut() {
                Some(s) => s.sks.push(*i),
                None => stray = true,
            },
            Tok::Junk => junk = true,
            _ => {}
        }
    }
    // definite reasons to reject, independent of how ambiguities are resolved
    for s in &secs {
        if s.names.is_empty() {
            return (Label::MustReject("section without Name"), secs);
        }
        if s.pks.is_empty() {
            return (Label::MustReject("section without PublicKey"), secs);
        }
        if s.names.iter().all(|i| !Universe::name_valid(*i)) {
            return (Label::MustReject("invalid Name"), secs);
        }
        if s.pks.iter().all(|i| !Universe::pk_valid(*i)) {
            return (Label::MustReject("malformed PublicKey"), secs);
        }
        if !s.sks.is_empty() && s.sks.iter().all(|i| !Universe::sk_valid(*i)) {
            return (Label::MustReject("malformed PrivateKey"), secs);
        }
    }
    let dup_in_section = secs.iter().any(|s| s.names.len() > 1 || s.pks.len() > 1 || s.sks.len() > 1);
    if !dup_in_section {
        for i in 0..secs.len() {
            for j in 0..i {
                if secs[i].names[0] == secs[j].names[0] {
                    return (Label::MustReject("duplicate name across sections"), secs);
                }
                if secs[i].pks[0] == secs[j].pks[0] {
                    return (Label::MustReject("duplicate public key across sections"), secs);
                }
            }
        }
    }
    if secs.is_empty() {
        return (Label::Either("no [Key] section"), secs);
    }
    if stray {
        return (Label::Either("field before the first [Key]"), secs);
    }
    if junk {
        return (Label::Either("junk line"), secs);
    }
    if dup_in_section {
        return (Label::Either("duplicate field inside a section"), secs);
    }
    (Label::MustAccept, secs)
}

/// Names in order, as the parser stored them (from the Debug rendering of the keyring).
fn debug_names(k: &Keyring) -> Vec<String> {
    let d = format!("{:?}", k);
    let mut out = Vec::new();
    let mut rest = d.as_str();
    while let Some(p) = rest.find("Key { name: ") {
        rest = &rest[p + 12..];
        // a Rust debug string literal: parse up to the closing unescaped quote
        let bytes = rest.as_bytes();
        let mut i = 1;
        let mut s = String::new();
        while i < bytes.len() {
            if bytes[i] == b'\\' {
                i += 2;
                s.push('?');
                continue;
            }
            if bytes[i] == b'"' {
                break;
            }
            i += 1;
        }
        let _ = s;
        out.push(rest[1..i].to_string());
        rest = &rest[i..];
    }
    out
}

fn check_accepted(ctx: &Ctx, k: &Keyring, secs: &[Section], u: &Universe, text: &str, label: &Label) -> bool {
    let case = |why: &str| json!({"keyring_text": text, "why": why, "label": format!("{:?}", label), "parsed": format!("{:?}", k).chars().take(600).collect::<String>()});
    let names = debug_names(k);
    if names.len() != secs.len() {
        ctx.violation("C17:accepted:entry-count-differs-from-section-count", case(&format!("{} entries for {} sections", names.len(), secs.len())));
        return false;
    }
    for (i, s) in secs.iter().enumerate() {
        let cand_names: Vec<&String> = s.names.iter().map(|j| &u.names[*j]).collect();
        if !cand_names.iter().any(|n| **n == names[i]) {
            ctx.violation("C17:accepted:entry-name-is-not-the-sections-name", case(&format!("entry {} is {:?}", i, names[i])));
            return false;
        }
        let n = &names[i];
        if n.is_empty() || n.len() > 128 {
            ctx.violation("C17:accepted:entry-with-invalid-name", case(&format!("entry {}", i)));
            return false;
        }
        let key = match k.get_key(n) {
            Some(key) => key,
            None => {
                ctx.violation("C17:accepted:lookup-by-name-fails", case(n));
                return false;
            }
        };
        let pk = key.public_key.as_str();
        if !s.pks.iter().any(|j| u.pks[*j] == pk) {
            ctx.violation("C17:accepted:entry-public-key-is-not-the-sections-key", case(&format!("entry {}", i)));
            return false;
        }
        if unb64(pk).map(|b| b.len()) != Some(36) {
            ctx.violation("C17:accepted:entry-with-malformed-public-key", case(&format!("entry {}", i)));
            return false;
        }
        match (&key.private_key, s.sks.is_empty()) {
            (None, true) => {}
            (Some(sk), false) => {
                if !s.sks.iter().any(|j| u.sks[*j] == sk.as_str()) || unb64(sk.as_str()).map(|b| b.len()) != Some(84) {
                    ctx.violation("C17:accepted:entry-private-key-wrong-or-malformed", case(&format!("entry {}", i)));
                    return false;
                }
            }
            (None, false) => {
                ctx.violation("C17:accepted:private-key-of-section-lost", case(&format!("entry {}", i)));
                return false;
            }
            (Some(_), true) => {
                ctx.violation("C17:accepted:private-key-from-nowhere", case(&format!("entry {}", i)));
                return false;
            }
        }
        // lookup by public key has exactly this answer
        if let Ok(epk) = EncodedPk::try_from(pk) {
            if k.get_name_from_key(&epk).as_deref() != Some(n.as_str()) {
                ctx.violation("C17:accepted:lookup-by-public-key-gives-another-entry", case(&format!("entry {}", i)));
                return false;
            }
        }
    }
    for i in 0..names.len() {
        for j in 0..i {
            if names[i] == names[j] {
                ctx.violation("C17:accepted:duplicate-name", case(&names[i]));
                return false;
            }
            let (a, b) = (k.get_key(&names[i]).map(|x| x.public_key.as_str().to_string()), k.get_key(&names[j]).map(|x| x.public_key.as_str().to_string()));
            if a.is_some() && a.as_ref().and_then(|s| unb64(s)) == b.as_ref().and_then(|s| unb64(s)) {
                ctx.violation("C17:accepted:duplicate-public-key", case(&names[i]));
                return false;
            }
        }
    }
    true
}

fn run_one(ctx: &Ctx, seq: &[Tok], u: &Universe, style: usize) {
    let text = render(seq, u, style);
    let (label, secs) = model(seq);
    ctx.eval();
    if !secs.is_empty() {
        ctx.distinct(&text);
    }
    let res = guarded(|| Keyring::new(&text));
    match res {
        Err(p) => ctx.violation(&format!("C17:parser-panic:{}", panic_site(&p)), json!({"keyring_text": text})),
        Ok(Ok(k)) => {
            if let Label::MustReject(why) = label {
                ctx.violation(&format!("C17:accepted-a-keyring-that-must-be-rejected:{}", why), json!({"keyring_text": text, "parsed": format!("{:?}", k).chars().take(500).collect::<String>()}));
                return;
            }
            if check_accepted(ctx, &k, &secs, u, &text, &label) {
                ctx.seen(match label {
                    Label::MustAccept => "must-accept: accepted, entries == sections",
                    _ => "either: accepted, consequences hold",
                });
            }
        }
        Ok(Err(e)) => {
            if label == Label::MustAccept {
                ctx.violation("C17:rejected-a-well-formed-keyring", json!({"keyring_text": text, "error": e.to_string()}));
                return;
            }
            ctx.seen(match label {
                Label::MustReject(_) => "must-reject: rejected",
                _ => "either: rejected",
            });
        }
    }
}

/// Whole-section enumeration: every sequence of 1..=4 complete sections whose (name, key, private key)
/// come from small sets, with the fields in varying order and comments / blank lines interleaved.
/// Reaches cross-section duplicates at any distance, which need >= 6 line tokens.
fn section_enumeration(ctx: &Ctx) {
    let mut rng = Rng::fork(ctx.seed, "C17-sections");
    // "Bob" and "bob" are different names: lookups must be exact
    let names = ["alice", "bob", "Bob", "mallory", "zed"];
    let pks: Vec<String> = (0..3).map(|_| refspec::encode_pk(&refspec::pubkey_of(&rng.arr32()))).collect();
    let sk = {
        let mut b = refspec::SK_MAGIC.to_vec();
        b.extend_from_slice(&rng.bytes(80));
        b64(&b)
    };
    // a section template: (name index, key index, has private key)
    let mut templates: Vec<(usize, usize, bool)> = Vec::new();
    for n in 0..names.len() {
        for k in 0..pks.len() {
            templates.push((n, k, (n + k) % 2 == 0));
        }
    }
    let nt = templates.len();
    let maxn = ctx.tier.pick(3, 4);
    let mut seqs: Vec<Vec<usize>> = Vec::new();
    for a in 0..nt {
        seqs.push(vec![a]);
        for b in 0..nt {
            seqs.push(vec![a, b]);
            for c in 0..nt {
                seqs.push(vec![a, b, c]);
                if maxn >= 4 {
                    for d in 0..nt {
                        seqs.push(vec![a, b, c, d]);
                    }
                }
            }
        }
    }
    ctx.note("section_enumeration", json!({"section_templates": nt, "max_sections": maxn, "sequences": seqs.len(), "exhaustive": true, "names": names, "distinct_keys": pks.len()}));
    par_for(seqs.len(), crate::util::ncpu(), |i| {
        let seq = &seqs[i];
        let mut text = String::new();
        for (j, &t) in seq.iter().enumerate() {
            let (n, k, has_sk) = templates[t];
            let lines = [format!("Name = {}", names[n]), format!("PublicKey = {}", pks[k]), format!("PrivateKey = {}", sk)];
            let order: [usize; 3] = match (i + j) % 4 {
                0 => [0, 1, 2],
                1 => [1, 0, 2],
                2 => [2, 1, 0],
                _ => [1, 2, 0],
            };
            if (i + j) % 3 == 0 {
                text.push_str("# a comment\n");
            }
            text.push_str("[Key]\n");
            for o in order {
                if o == 2 && !has_sk {
                    continue;
                }
                text.push_str(&lines[o]);
                text.push('\n');
            }
            if (i + j) % 2 == 0 {
                text.push('\n');
            }
        }
        // model: reject iff a name or a key repeats
        let mut dup = None;
        for a in 0..seq.len() {
            for b in 0..a {
                let (na, ka, _) = templates[seq[a]];
                let (nb, kb, _) = templates[seq[b]];
                if na == nb {
                    dup = Some("duplicate name across sections");
                } else if ka == kb && dup.is_none() {
                    dup = Some("duplicate public key across sections");
                }
            }
        }
        ctx.eval();
        ctx.distinct(&format!("sections|{:?}", seq));
        match guarded(|| Keyring::new(&text)) {
            Err(p) => ctx.violation(&format!("C17:parser-panic:{}", panic_site(&p)), json!({"keyring_text": text})),
            Ok(Ok(k)) => {
                if let Some(why) = dup {
                    ctx.violation(&format!("C17:accepted-a-keyring-that-must-be-rejected:{}", why), json!({"keyring_text": text, "parsed_names": debug_names(&k)}));
                    return;
                }
                // entries are the sections, in order; lookups by name and by key agree
                let got = debug_names(&k);
                let want: Vec<String> = seq.iter().map(|t| names[templates[*t].0].to_string()).collect();
                if got != want {
                    ctx.violation("C17:accepted:entries-are-not-the-sections-in-order", json!({"keyring_text": text, "parsed_names": got, "want": want}));
                    return;
                }
                for &t in seq {
                    let (n, kx, has_sk) = templates[t];
                    let e = k.get_key(names[n]);
                    let ok = match e {
                        Some(e) => e.public_key.as_str() == pks[kx] && e.private_key.is_some() == has_sk && k.get_name_from_key(&e.public_key).as_deref() == Some(names[n]),
                        None => false,
                    };
                    if !ok {
                        ctx.violation("C17:accepted:lookup-does-not-return-the-section", json!({"keyring_text": text, "name": names[n]}));
                        return;
                    }
                }
                ctx.seen("sections: well-formed keyring accepted, entries == sections in order");
            }
            Ok(Err(e)) => {
                if dup.is_none() {
                    ctx.violation("C17:rejected-a-well-formed-keyring", json!({"keyring_text": text, "error": e.to_string()}));
                } else {
                    ctx.seen(&format!("sections: rejected ({})", dup.unwrap()));
                }
            }
        }
    });
}

fn token_enumeration(ctx: &Ctx) {
    let toks = all_tokens();
    let maxlen = ctx.tier.pick(5, 6);
    let mut rng = Rng::fork(ctx.seed, "C17-universe");
    let u = Universe::new(&mut rng);
    // shard on the first two tokens
    let nt = toks.len();
    par_for(nt * nt, crate::util::ncpu(), |shard| {
        let (a, b) = (shard / nt, shard % nt);
        let mut count = 0u64;
        let mut seq: Vec<Tok> = Vec::new();
        // lengths 0, 1 and 2 handled by shard 0 / first row
        if shard == 0 {
            run_one(ctx, &[], &u, 0);
            for t in &toks {
                run_one(ctx, &[t.clone()], &u, 0);
            }
        }
        seq.push(toks[a].clone());
        seq.push(toks[b].clone());
        run_one(ctx, &seq, &u, shard);
        fn rec(ctx: &Ctx, toks: &[Tok], u: &Universe, seq: &mut Vec<Tok>, maxlen: usize, count: &mut u64) {
            if seq.len() >= maxlen {
                return;
            }
            for t in toks {
                seq.push(t.clone());
                *count += 1;
                run_one(ctx, seq, u, *count as usize);
                rec(ctx, toks, u, seq, maxlen, count);
                seq.pop();
            }
        }
        rec(ctx, &toks, &u, &mut seq, maxlen, &mut count);
        ctx.distinct(&format!("tokens|shard{}|{}", shard, count));
    });
    ctx.note("token_enumeration", json!({"tokens": 13, "max_sequence_length": maxlen, "exhaustive": true, "spacing_styles": 8,
        "token_values": {"Name": ["a", "b", "", "129 x"], "PublicKey": ["K1", "K2", "malformed"], "PrivateKey": ["S1", "malformed"]}}));
    ctx.sample("token sequence", 1, || {
        let seq = vec![Tok::Key, Tok::Name(0), Tok::Pk(0), Tok::Key, Tok::Pk(1), Tok::Name(1), Tok::Sk(0)];
        json!({"tokens": format!("{:?}", seq), "text": render(&seq, &u, 2), "label": format!("{:?}", model(&seq).0)})
    });
    // thorough: seeded longer sequences
    let extra = ctx.tier.pick(20_000, 2_000_000);
    par_for(16, crate::util::ncpu(), |sh| {
        let mut rng = Rng::fork(ctx.seed, &format!("C17-long-{}", sh));
        for _ in 0..extra / 16 {
            let l = rng.range(maxlen + 1, 14);
            let seq: Vec<Tok> = (0..l).map(|_| rng.pick(&toks).clone()).collect();
            run_one(ctx, &seq, &u, rng.next() as usize);
        }
    });
}

fn candidate_names(rng: &mut Rng) -> Vec<String> {
    let mut v: Vec<String> = vec![
        "joe".into(),
        "Bobby Bobertson".into(),
        "a=b".into(),
        "=x".into(),
        "x=".into(),
        "#hash".into(),
        "[Key]".into(),
        "[Key] trailing".into(),
        "Name".into(),
        "Name = other".into(),
        "PublicKey = AAAA".into(),
        "PrivateKey".into(),
        "a\tb".into(),
        "tab\tin\tthe\tmiddle".into(),
        "\u{e9}\u{2713}\u{1f511}".into(),
        "x  y".into(),
        "a\u{a0}b".into(),
        " lead".into(),
        "trail ".into(),
        "\u{2003}em-space-led".into(),
        "a\rb".into(),
        "semi;colon".into(),
        "quote\"s'".into(),
        "back\\slash".into(),
        "a".repeat(128),
        "\u{e9}".repeat(64),
        "a".repeat(129),
        "\u{e9}".repeat(65),
        "\u{1f511}".repeat(32),
        "".into(),
        "   ".into(),
        "\t".into(),
    ];
    for _ in 0..40 {
        let l = rng.range(1, 20);
        let alphabet: Vec<char> = "abcXYZ019 =#[]\t_-.\u{e9}\u{4e2d}".chars().collect();
        v.push((0..l).map(|_| *rng.pick(&alphabet)).collect());
    }
    v
}

fn tool_written(ctx: &Ctx) {
    let mut rng = Rng::fork(ctx.seed, "C17-tool");
    let names = candidate_names(&mut rng);
    let sk_blob = {
        let mut b = refspec::SK_MAGIC.to_vec();
        b.extend_from_slice(&rng.bytes(80));
        b64(&b)
    };
    let mut prev_block: Option<(String, String)> = None;
    for raw in &names {
        // what `key generate` does with the line it read
        let name = raw.trim().to_string();
        let accepted_by_generate = guarded(|| Keyring::valid_key_name(&name)).unwrap_or(false);
        ctx.eval();
        if !accepted_by_generate {
            if !(name.is_empty() || name.len() > 128) {
                ctx.violation("C17:key-generation-refuses-a-1-to-128-byte-name", json!({"name": name}));
            } else {
                ctx.seen("name refused by key generation (empty or > 128 bytes)");
            }
            continue;
        }
        if name.is_empty() || name.len() > 128 {
            ctx.violation("C17:key-generation-accepts-an-invalid-name", json!({"name": name, "bytes": name.len()}));
            continue;
        }
        let pk = refspec::encode_pk(&refspec::pubkey_of(&rng.arr32()));
        let block = guarded(|| Keyring::serialize_key(&name, &EncodedPk::try_from(pk.as_str()).unwrap(), &EncodedSk::try_from(sk_blob.as_str()).unwrap()));
        let block = match block {
            Ok(b) => b,
            Err(p) => {
                ctx.violation(&format!("C17:serialize-panic:{}", panic_site(&p)), json!({"name": name}));
                continue;
            }
        };
        // a keyring as the tool builds it: first block, later blocks appended after "\n"
        let text = match &prev_block {
            Some((b0, _)) if *b0 != block => format!("{}\n{}", b0, block),
            _ => block.clone(),
        };
        let kind = if name.contains('\t') { "name-with-interior-tab" } else { "other-name" };
        let case = || json!({"name": name, "name_bytes": crate::util::hex(name.as_bytes()), "keyring_text": text});
        match guarded(|| Keyring::new(&text)) {
            Err(p) => ctx.violation(&format!("C17:parser-panic:{}", panic_site(&p)), case()),
            Ok(Err(e)) => {
                let mut v = case();
                v["error"] = json!(e.to_string());
                ctx.violation(&format!("C17:tool-written-keyring-rejected:{}", kind), v);
            }
            Ok(Ok(k)) => match k.get_key(&name) {
                Some(key) if key.public_key.as_str() == pk && key.private_key.as_ref().map(|s| s.as_str()) == Some(sk_blob.as_str()) => {
                    let mut ok = true;
                    if let Some((_, n0)) = &prev_block {
                        if n0 != &name && k.get_key(n0).is_none() {
                            ctx.violation("C17:tool-written-keyring-loses-an-earlier-entry", case());
                            ok = false;
                        }
                    }
                    if ok {
                        ctx.seen("tool-written block parses back to the written name and keys");
                        ctx.distinct(&format!("tool|{}", name));
                    }
                }
                _ => {
                    let mut v = case();
                    v["parsed_names"] = json!(debug_names(&k));
                    ctx.violation(&format!("C17:tool-written-keyring-does-not-parse-back-to-the-written-name:{}", kind), v);
                }
            },
        }
        if !name.contains('\t') {
            prev_block = Some((block, name.clone()));
        }
    }
    // the same through the real binary for a few names
    let wd = WorkDir::new("c17");
    for (i, name) in ["plain", "Two Words = and # more", "tab\tinside"].iter().enumerate() {
        let o = Cmd::new(&wd.path, &["key", "generate", "--env-pass"]).pass("pw").stdin(Stdin::Bytes(format!("{}\n", name).into_bytes())).run();
        ctx.eval();
        if o.exit != Exit::Code(0) {
            if o.exit == Exit::Timeout {
                ctx.inconclusive("C17 cli: timeout");
            } else {
                ctx.violation("C17:cli:key-generate-failed", json!({"name": name, "exit": o.exit.describe(), "stderr": o.stderr_s()}));
            }
            continue;
        }
        let text = o.stdout_s();
        let kind = if name.contains('\t') { "name-with-interior-tab" } else { "other-name" };
        match guarded(|| Keyring::new(&text)) {
            Ok(Ok(k)) if k.get_key(name).is_some() => {
                ctx.seen("cli: key generate output parses back to the given name");
                ctx.distinct(&format!("tool-cli|{}", i));
            }
            Ok(Ok(k)) => ctx.violation(&format!("C17:tool-written-keyring-does-not-parse-back-to-the-written-name:{}", kind), json!({"name": name, "via": "kestrel key generate", "keyring_text": text, "parsed_names": debug_names(&k)})),
            Ok(Err(e)) => ctx.violation(&format!("C17:tool-written-keyring-rejected:{}", kind), json!({"name": name, "via": "kestrel key generate", "keyring_text": text, "error": e.to_string()})),
            Err(p) => ctx.violation(&format!("C17:parser-panic:{}", panic_site(&p)), json!({"keyring_text": text})),
        }
    }
}

fn documented_layout(ctx: &Ctx) {
    let mut rng = Rng::fork(ctx.seed, "C17-doc");
    let k1 = refspec::encode_pk(&refspec::pubkey_of(&rng.arr32()));
    let k2 = refspec::encode_pk(&refspec::pubkey_of(&rng.arr32()));
    let s1 = {
        let mut b = refspec::SK_MAGIC.to_vec();
        b.extend_from_slice(&rng.bytes(80));
        b64(&b)
    };
    // the man page example (markdown hard line breaks = two trailing spaces), and variants
    let man = format!("[Key]  \nName = alice  \nPublicKey = {}  \nPrivateKey = {}  \n\n[Key]  \nName = bob  \n# Simple Comment  \nPublicKey = {}  \n", k1, s1, k2);
    let variants: Vec<(String, String)> = vec![
        ("man page example".into(), man.clone()),
        ("CRLF".into(), man.replace('\n', "\r\n")),
        ("no trailing newline".into(), man.trim_end().to_string()),
        ("leading blank lines and comment".into(), format!("\n\n# my keys\n{}", man)),
        ("indented".into(), man.lines().map(|l| format!("    {}", l)).collect::<Vec<_>>().join("\n")),
        ("tab indented".into(), man.lines().map(|l| format!("\t{}", l)).collect::<Vec<_>>().join("\n")),
        ("keys in other order".into(), format!("[Key]\nPublicKey = {}\nName = bob\n\n[Key]\nPrivateKey = {}\nPublicKey = {}\nName = alice\n", k2, s1, k1)),
        ("repository test keyring".into(), std::fs::read_to_string("/repo/src/cli/tests/keyring.txt").unwrap_or_default()),
    ];
    for (what, text) in variants {
        ctx.eval();
        if text.is_empty() {
            continue;
        }
        match guarded(|| Keyring::new(&text)) {
            Ok(Ok(k)) => {
                let names = debug_names(&k);
                let ok = names.len() == 2 && k.get_key("alice").is_some() && k.get_key("bob").is_some() && k.get_key("alice").unwrap().private_key.is_some();
                if ok {
                    ctx.seen("documented layout accepted with the right entries");
                    ctx.distinct(&format!("doc|{}", what));
                } else {
                    ctx.violation("C17:documented-layout-parsed-to-other-entries", json!({"variant": what, "keyring_text": text, "parsed_names": names}));
                }
            }
            Ok(Err(e)) => ctx.violation("C17:documented-layout-rejected", json!({"variant": what, "keyring_text": text, "error": e.to_string()})),
            Err(p) => ctx.violation(&format!("C17:parser-panic:{}", panic_site(&p)), json!({"keyring_text": text})),
        }
    }
}

/// real decode of an encoded public key string: Some(bytes) if usable
fn real_decode_pk(s: &str) -> Result<Option<Vec<u8>>, String> {
    guarded(|| match EncodedPk::try_from(s) {
        Err(_) => None,
        Ok(e) => Keyring::decode_public_key(&e).ok().map(|p| p.as_bytes().to_vec()),
    })
}

fn public_key_checksums(ctx: &Ctx) {
    let mut rng = Rng::fork(ctx.seed, "C17-pk");
    const ALPHA: &[u8] = b"ABCDEFGHIJKLMNOPQRSTUVWXYZabcdefghijklmnopqrstuvwxyz0123456789+/";
    let keys = ctx.tier.pick(1, 6);
    for _ in 0..keys {
        let pk = refspec::pubkey_of(&rng.arr32());
        let good = refspec::encode_pk(&pk);
        ctx.eval();
        // encode agrees with the documented format; decode inverts it
        let enc = guarded(|| Keyring::encode_public_key(&crate::kio::pk(&pk)).as_str().to_string());
        if enc.as_deref() != Ok(good.as_str()) {
            ctx.violation("C17:encode-public-key-differs-from-format", json!({"key": crate::util::hex(&pk), "got": format!("{:?}", enc), "want": good}));
        }
        // all 48 positions x 63 substitutions
        for pos in 0..48 {
            for &c in ALPHA {
                if good.as_bytes()[pos] == c {
                    continue;
                }
                let mut s = good.clone().into_bytes();
                s[pos] = c;
                let s = String::from_utf8(s).unwrap();
                ctx.eval();
                let want = refspec::decode_pk(&s);
                match real_decode_pk(&s) {
                    Err(p) => ctx.violation(&format!("C17:decode-public-key-panic:{}", panic_site(&p)), json!({"string": s})),
                    Ok(got) => {
                        if got.is_some() != want.is_some() {
                            ctx.violation(if got.is_some() { "C17:public-key-with-wrong-checksum-accepted" } else { "C17:public-key-with-right-checksum-rejected" }, json!({"string": s, "original": good, "position": pos}));
                        } else {
                            ctx.seen("single-character corruption of an encoded key: same verdict as the checksum rule");
                        }
                    }
                }
            }
            ctx.distinct(&format!("pkcorrupt|{}|{}", good, pos));
        }
    }
    // random 36-byte blobs and blobs with a right checksum
    for i in 0..ctx.tier.pick(2000, 40_000) {
        let mut blob = rng.bytes(36);
        if i % 2 == 0 {
            let h = crate::ossl::sha256(&blob[..32]);
            blob[32..].copy_from_slice(&h[..4]);
            if i % 6 == 0 {
                let b = rng.range(0, 31);
                blob[32 + b / 8] ^= 1 << (b % 8);
            }
        }
        let s = b64(&blob);
        ctx.eval();
        let want = refspec::decode_pk(&s);
        match real_decode_pk(&s) {
            Err(p) => ctx.violation(&format!("C17:decode-public-key-panic:{}", panic_site(&p)), json!({"string": s})),
            Ok(got) => {
                if got.as_deref() != want.as_ref().map(|w| &w[..]) {
                    ctx.violation(if got.is_some() { "C17:public-key-with-wrong-checksum-accepted" } else { "C17:public-key-with-right-checksum-rejected" }, json!({"string": s}));
                } else {
                    ctx.seen(if want.is_some() { "blob with matching checksum usable" } else { "blob with wrong checksum unusable" });
                    if i % 50 == 0 {
                        ctx.distinct(&format!("pkblob|{}", s));
                    }
                }
            }
        }
    }
    // other lengths
    for l in 0..=60usize {
        let s = b64(&rng.bytes(l));
        ctx.eval();
        match real_decode_pk(&s) {
            Err(p) => ctx.violation(&format!("C17:decode-public-key-panic:{}", panic_site(&p)), json!({"string": s})),
            Ok(Some(_)) if l != 36 => ctx.violation("C17:public-key-of-wrong-length-accepted", json!({"string": s, "bytes": l})),
            _ => {}
        }
    }
}


/// In-process flavour of the spelling lane: a keyring that lists one key twice in different spellings must be
/// rejected, and a lone leniently spelled entry, if the real decoder turns it into key K, must be found by K.
fn key_spellings(ctx: &Ctx) {
    let mut rng = Rng::fork(ctx.seed, "C17-spellings");
    for round in 0..ctx.tier.pick(3, 40) {
        let pk = refspec::pubkey_of(&rng.arr32());
        let good = refspec::encode_pk(&pk);
        let other = refspec::encode_pk(&refspec::pubkey_of(&rng.arr32()));
        for (what, text) in crate::c17cli::key_spellings(&good, &mut rng) {
            ctx.eval();
            let both = format!("[Key]\nName = alice\nPublicKey = {}\n\n[Key]\nName = bob\nPublicKey = {}\n\n[Key]\nName = mallory\nPublicKey = {}\n", good, other, text);
            let alone = format!("[Key]\nName = bob\nPublicKey = {}\n\n[Key]\nName = mallory\nPublicKey = {}\n", other, text);
            let decoded = |k: &Keyring, n: &str| -> Option<Vec<u8>> { k.get_key(n).and_then(|e| Keyring::decode_public_key(&e.public_key).ok()).map(|p| p.as_bytes().to_vec()) };
            let r = guarded(|| {
                let mut out: Vec<(&'static str, String)> = Vec::new();
                if let Ok(k) = Keyring::new(&both) {
                    if decoded(&k, "mallory").as_deref() == Some(&pk[..]) && decoded(&k, "alice").as_deref() == Some(&pk[..]) {
                        out.push(("C17:accepted-a-keyring-that-must-be-rejected:same public key listed twice in different spellings", format!("{:?}", k).chars().take(400).collect()));
                    }
                }
                if let Ok(k) = Keyring::new(&alone) {
                    if decoded(&k, "mallory").as_deref() == Some(&pk[..]) {
                        let canonical = Keyring::encode_public_key(&crate::kio::pk(&pk));
                        if k.get_name_from_key(&canonical).as_deref() != Some("mallory") {
                            out.push(("C17:accepted:entry-that-decodes-to-a-key-is-not-found-by-that-key", format!("{:?}", k).chars().take(400).collect()));
                        }
                    }
                }
                out
            });
            match r {
                Err(p) => ctx.violation(&format!("C17:parser-panic:{}", panic_site(&p)), json!({"spelling": what, "public_key_text": text})),
                Ok(v) if !v.is_empty() => {
                    for (sig, parsed) in v {
                        ctx.violation(sig, json!({"spelling": what, "public_key_text": text, "canonical_text": good, "parsed": parsed}));
                    }
                }
                Ok(_) => {
                    ctx.seen("other spelling of a public key: never a second entry for the same key, lookups consistent");
                    ctx.distinct(&format!("spell|{}|{}", round, what));
                }
            }
        }
    }
}

fn boundary_name_block(ctx: &Ctx) {
    let mut rng = Rng::fork(ctx.seed, "C17-boundary");
    let pk = refspec::encode_pk(&refspec::pubkey_of(&rng.arr32()));
    for name in crate::c17cli::boundary_names() {
        let text = format!("[Key]\nName = {}\nPublicKey = {}\n", name, pk);
        ctx.eval();
        let valid = !name.is_empty() && name.len() <= 128;
        match guarded(|| Keyring::new(&text).map(|k| k.get_key(&name).is_some())) {
            Err(p) => ctx.violation(&format!("C17:parser-panic:{}", panic_site(&p)), json!({"name_bytes": name.len(), "name_chars": name.chars().count(), "name": name})),
            Ok(Ok(found)) => {
                if !valid {
                    ctx.violation("C17:accepted:entry-with-invalid-name", json!({"name_bytes": name.len(), "name": name}));
                } else if !found {
                    ctx.violation("C17:accepted:lookup-by-name-fails", json!({"name": name}));
                } else {
                    ctx.seen("boundary name (<= 128 bytes) accepted");
                }
            }
            Ok(Err(_)) => {
                if valid {
                    ctx.violation("C17:rejected-a-well-formed-keyring", json!({"name_bytes": name.len(), "name": name}));
                } else {
                    ctx.seen("over-long multi-byte name rejected without a crash");
                    ctx.distinct(&format!("boundary|{}|{}", name.len(), name.chars().count()));
                }
            }
        }
        // key generation's own name check agrees with the format limit (bytes)
        ctx.eval();
        match guarded(|| Keyring::valid_key_name(name.trim())) {
            Ok(ok) if ok == (!name.trim().is_empty() && name.trim().len() <= 128) => {}
            Ok(_) => ctx.violation("C17:key-generation-name-check-disagrees-with-the-128-byte-limit", json!({"name_bytes": name.len(), "name": name})),
            Err(p) => ctx.violation(&format!("C17:parser-panic:{}", panic_site(&p)), json!({"name": name})),
        }
    }
}

fn no_crash_on_text(ctx: &Ctx) {
    let n = ctx.tier.pick(20_000, 1_000_000);
    par_for(16, crate::util::ncpu(), |sh| {
        let mut rng = Rng::fork(ctx.seed, &format!("C17-fuzz-{}", sh));
        let frags = ["[Key]", "Name", "PublicKey", "PrivateKey", "=", " ", "\t", "\n", "\r\n", "#", "a", "\u{e9}", "\u{1f511}", "AAAA", "[", "]", "Key", "==", "\u{0}", "\u{2028}"];
        for _ in 0..n / 16 {
            let l = rng.range(0, 30);
            let mut s = String::new();
            for _ in 0..l {
                if rng.chance(1, 6) {
                    let c = char::from_u32(rng.below(0x3000) as u32).unwrap_or('x');
                    s.push(c);
                } else {
                    let f: &str = *rng.pick(&frags[..]); s.push_str(f);
                }
            }
            ctx.eval();
            match guarded(|| Keyring::new(&s).is_ok()) {
                Err(p) => ctx.violation(&format!("C17:parser-panic:{}", panic_site(&p)), json!({"keyring_text": s})),
                Ok(_) => {}
            }
        }
        ctx.seen_n("random text parsed without a crash", (n / 16) as u64);
    });
}

pub fn run(ctx: &Ctx) {
    ctx.rule(
        "exhaustive sequences of up to L line tokens over {[Key], Name=a|b|\"\"|129x, PublicKey=K1|K2|malformed, PrivateKey=S1|malformed, comment, blank, junk} in 8 spacing/line-ending \
         styles, each labelled by a three-valued model and run through the real parser; on acceptance the entries (names in order via Debug, lookups by name and by key) must be the \
         sections; names accepted by key generation written with the real serialize_key (and through the real binary) must parse back; man-page layouts; every single-character \
         corruption of an encoded key and random blobs against the checksum rule; seeded random text. distinct_nontrivial counts distinct rendered token sequences with at least one [Key] section, plus names, layouts and key positions",
    );
    ctx.assume("duplicate field inside a section, fields before the first section, junk lines and an empty file are 'either': only the consequences of acceptance are checked");
    token_enumeration(ctx);
    section_enumeration(ctx);
    tool_written(ctx);
    documented_layout(ctx);
    public_key_checksums(ctx);
    key_spellings(ctx);
    no_crash_on_text(ctx);
    boundary_name_block(ctx);
    crate::c17cli::cli_lanes(ctx);
    ctx.require("cli: entry at the end of a large keyring", 2);
    ctx.require("cli: duplicate name at the end of a large keyring", 2);
    ctx.require("over-long multi-byte name rejected without a crash", 50);
    ctx.require("must-accept: accepted", 300);
    ctx.require("must-reject: rejected", 10_000);
    ctx.require("sections: rejected (duplicate public key", 100);
    ctx.require("sections: rejected (duplicate name", 100);
    ctx.require("sections: well-formed keyring accepted", 100);
    ctx.require("tool-written block parses back", 30);
    ctx.require("documented layout accepted", 6);
    ctx.require("single-character corruption", 3000);
}
