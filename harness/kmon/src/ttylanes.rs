//! Interactive lanes: the same properties through the terminal prompts (password typed twice, retyped
//! after a mismatch, retried after a failed unlock), which --env-pass runs never reach.

use crate::cli::{keyring_text, Cmd, Exit, Ident, WorkDir};
use crate::ctx::Ctx;
use crate::refspec;
use crate::tty::{run_tty, Ask, TtyRun};
use crate::util::{hex, par_for, unb64, Rng};
use serde_json::json;

/// What to type: names in order, current/unlock passwords in order, and (new, confirm) pairs in order.
#[derive(Clone, Debug, Default)]
pub struct Script {
    pub names: Vec<String>,
    pub currents: Vec<String>,
    pub pairs: Vec<(String, String)>,
}

impl Script {
    pub fn describe(&self) -> serde_json::Value {
        json!({"names": self.names, "current_or_unlock_passwords_in_order": self.currents, "new_and_confirm_pairs_in_order": self.pairs})
    }
    /// the password a user has confirmed: the first pair whose two entries agree
    pub fn confirmed(&self) -> Option<&String> {
        self.pairs.iter().find(|(a, b)| a == b).map(|(a, _)| a)
    }
}

pub fn play(cmd: &Cmd, stdout_is_tty: bool, stdin_file: Option<&std::path::Path>, s: &Script) -> TtyRun {
    let (mut ni, mut ci, mut pi) = (0usize, 0usize, 0usize);
    let mut awaiting_confirm = false;
    run_tty(cmd, stdout_is_tty, stdin_file, &mut |_prompt, kind, _n| match kind {
        Ask::Name => {
            ni += 1;
            s.names.get(ni - 1).cloned()
        }
        Ask::Current => {
            ci += 1;
            s.currents.get(ci - 1).cloned()
        }
        Ask::New => {
            if awaiting_confirm {
                return None;
            }
            awaiting_confirm = true;
            s.pairs.get(pi).map(|p| p.0.clone())
        }
        Ask::Confirm => {
            if !awaiting_confirm {
                return None;
            }
            awaiting_confirm = false;
            pi += 1;
            s.pairs.get(pi - 1).map(|p| p.1.clone())
        }
    })
}

fn pw_pool(h: usize) -> Vec<String> {
    vec![
        "hunter2".into(),
        "first-attempt".into(),
        "p\u{e4}ssw\u{f6}rd \u{2713}".into(),
        format!("long-{}", "x".repeat(150 + h % 7)),
        "".into(),
        " spaced ".into(),
        "UPPER lower".into(),
        "the-real-new-pass".into(),
    ]
}

/// Pairs typed at "New password / Confirm password": `mismatches` pairs that differ, then one that agrees.
fn confirm_pairs(rng: &mut Rng, pool: &[String], mismatches: usize, final_pw: &str) -> Vec<(String, String)> {
    let mut v = Vec::new();
    for m in 0..mismatches {
        let a = if m == 0 && rng.below(3) == 0 { final_pw.to_string() } else { rng.pick(pool).clone() };
        let mut b = if rng.below(3) == 0 { final_pw.to_string() } else { rng.pick(pool).clone() };
        if a == b {
            b = format!("{}x", a);
        }
        v.push((a, b));
    }
    v.push((final_pw.to_string(), final_pw.to_string()));
    v
}

fn inconclusive_if_stuck(ctx: &Ctx, prop: &str, r: &TtyRun) -> bool {
    if r.exit == Exit::Timeout || r.stuck.is_some() {
        ctx.inconclusive(&format!("{} tty: run did not complete: {}", prop, r.describe().chars().take(300).collect::<String>()));
        return true;
    }
    false
}

/// C16: password changes typed at the terminal, including retyped confirmations.
pub fn c16(ctx: &Ctx) {
    let histories = ctx.tier.pick(8, 120);
    par_for(histories, crate::util::ncpu(), |h| {
        let mut rng = Rng::fork(ctx.seed, &format!("C16-tty-{}", h));
        let wd = WorkDir::new("c16t");
        let pool = pw_pool(h);
        let pw0 = pool[h % pool.len()].clone();
        let id = Ident::new("owner", &pw0, &mut rng);
        let mut locked = id.locked.clone();
        let mut cur = pw0.clone();
        let mut salts: Vec<Vec<u8>> = vec![unb64(&locked).unwrap()[4..36].to_vec()];
        let mut past: Vec<String> = vec![pw0];
        let steps = 1 + h % 3;
        for step in 0..steps {
            let mismatches = (h + step) % 3;
            let new_pw = if step == 1 && h % 4 == 1 { cur.clone() } else { pool[(h * 3 + step * 5 + 1) % pool.len()].clone() };
            let script = Script { names: vec![], currents: vec![cur.clone()], pairs: confirm_pairs(&mut rng, &pool, mismatches, &new_pw) };
            let r = play(&Cmd::new(&wd.path, &["key", "change-pass", &locked]), false, None, &script);
            ctx.eval();
            if inconclusive_if_stuck(ctx, "C16", &r) {
                return;
            }
            let case = || json!({"history": h, "step": step, "typed": script.describe(), "run": r.describe(), "stdout": String::from_utf8_lossy(&r.stdout)});
            let out = String::from_utf8_lossy(&r.stdout).to_string();
            let newl = out.lines().find_map(|l| l.trim().strip_prefix("PrivateKey = ")).map(|s| s.trim().to_string());
            let newl = match (r.exit == Exit::Code(0), newl) {
                (true, Some(l)) => l,
                _ => {
                    ctx.violation("C16:tty:change-pass-with-the-right-password-failed", case());
                    return;
                }
            };
            match refspec::unlock_sk(&newl, new_pw.as_bytes()) {
                Ok(k) if k == id.sk => {}
                _ => {
                    ctx.violation("C16:tty:newest-locked-string-does-not-unlock-with-the-confirmed-password", case());
                    return;
                }
            }
            // nothing else that was typed or used earlier may unlock it
            let mut others: Vec<String> = past.clone();
            for (a, b) in &script.pairs {
                others.push(a.clone());
                others.push(b.clone());
            }
            others.sort();
            others.dedup();
            for o in others.iter().filter(|o| **o != new_pw && refspec::hmac_norm(o.as_bytes()) != refspec::hmac_norm(new_pw.as_bytes())) {
                if refspec::unlock_sk(&newl, o.as_bytes()).is_ok() {
                    let mut d = case();
                    d["other_password"] = json!(o);
                    ctx.violation("C16:tty:a-password-that-was-not-the-confirmed-one-unlocks-the-newest-string", d);
                    return;
                }
            }
            let salt = unb64(&newl).unwrap()[4..36].to_vec();
            if salts.contains(&salt) {
                ctx.violation("C16:tty:salt-reused-across-a-change", case());
                return;
            }
            let sk_hex = hex(&id.sk);
            if r.transcript.contains(&sk_hex) || out.contains(&sk_hex) || r.transcript.as_bytes().windows(32).any(|w| w == id.sk) {
                ctx.violation("C16:tty:raw-private-key-in-output", case());
                return;
            }
            salts.push(salt);
            past.push(new_pw.clone());
            cur = new_pw;
            locked = newl;
            if mismatches == 2 {
                ctx.sample("terminal session of a password change", 1, || json!({"typed": script.describe(), "terminal_transcript": r.transcript, "prompts_answered": r.answered.len(), "stdout": String::from_utf8_lossy(&r.stdout)}));
            }
            ctx.seen(&format!("tty: change verified after {} retyped confirmation(s)", mismatches));
            ctx.distinct(&format!("tty|{}|{}|{}", h, step, mismatches));
            // extract-pub typed at the terminal
            let r = play(&Cmd::new(&wd.path, &["key", "extract-pub", &locked]), false, None, &Script { names: vec![], currents: vec![cur.clone()], pairs: vec![] });
            ctx.eval();
            if inconclusive_if_stuck(ctx, "C16", &r) {
                return;
            }
            let want = format!("PublicKey = {}", id.encoded_pk);
            if r.exit == Exit::Code(0) && String::from_utf8_lossy(&r.stdout).trim() == want {
                ctx.seen("tty: extract-pub prints the reference encoding");
            } else {
                ctx.violation("C16:tty:extract-pub-wrong", json!({"history": h, "step": step, "run": r.describe(), "stdout": String::from_utf8_lossy(&r.stdout), "want": want}));
                return;
            }
        }
    });
}

/// C02: password typed at the terminal (twice for encryption, with retyped confirmations).
pub fn c02(ctx: &Ctx) {
    let n = ctx.tier.pick(6, 60);
    par_for(n, crate::util::ncpu(), |i| {
        let mut rng = Rng::fork(ctx.seed, &format!("C02-tty-{}", i));
        let wd = WorkDir::new("c02t");
        let pool = pw_pool(i);
        let pw = pool[(i * 3 + 1) % pool.len()].clone();
        let pt = rng.bytes([0usize, 1, 65536, 70_001][i % 4]);
        wd.write("p.bin", &pt);
        let mismatches = i % 3;
        let script = Script { names: vec![], currents: vec![], pairs: confirm_pairs(&mut rng, &pool, mismatches, &pw) };
        let r = play(&Cmd::new(&wd.path, &["password", "encrypt", "p.bin", "-o", "c.ktl"]), true, None, &script);
        ctx.eval();
        if inconclusive_if_stuck(ctx, "C02", &r) {
            return;
        }
        let c = std::fs::read(wd.file("c.ktl")).unwrap_or_default();
        let case = |r: &TtyRun| json!({"len": pt.len(), "typed": script.describe(), "run": r.describe(), "file_len": c.len()});
        match refspec::decode_pass_file(&c, pw.as_bytes()) {
            Ok(d) if r.exit == Exit::Code(0) && d.body.complete() && d.body.plaintext() == pt => {}
            _ => {
                ctx.violation("C02:tty:file-is-not-keyed-by-the-confirmed-password", case(&r));
                return;
            }
        }
        // decryption: a different password typed first is refused and nothing is written; then the right one
        let wrong = script.pairs[0].1.clone() + if script.pairs[0].1 == pw { "!" } else { "" };
        let r = play(&Cmd::new(&wd.path, &["password", "decrypt", "c.ktl", "-o", "w.out"]), true, None, &Script { names: vec![], currents: vec![wrong.clone()], pairs: vec![] });
        ctx.eval();
        if inconclusive_if_stuck(ctx, "C02", &r) {
            return;
        }
        if refspec::hmac_norm(wrong.as_bytes()) != refspec::hmac_norm(pw.as_bytes()) && (r.exit != Exit::Code(1) || wd.file("w.out").exists()) {
            ctx.violation("C02:tty:different-password-not-refused-cleanly", json!({"typed_wrong": wrong, "password": pw, "run": r.describe(), "output_exists": wd.file("w.out").exists()}));
            return;
        }
        let r = play(&Cmd::new(&wd.path, &["password", "decrypt", "c.ktl", "-o", "p.out"]), true, None, &Script { names: vec![], currents: vec![pw.clone()], pairs: vec![] });
        ctx.eval();
        if inconclusive_if_stuck(ctx, "C02", &r) {
            return;
        }
        if r.exit == Exit::Code(0) && std::fs::read(wd.file("p.out")).unwrap_or_default() == pt {
            ctx.seen("tty: typed password round trip");
            ctx.distinct(&format!("tty|{}|{}", i, mismatches));
        } else {
            ctx.violation("C02:tty:typed-password-round-trip-fails", case(&r));
        }
    });
}

/// C15: unlocking at the terminal retries after a wrong password; only the right one ever unlocks.
pub fn c15(ctx: &Ctx) {
    let n = ctx.tier.pick(6, 60);
    par_for(n, crate::util::ncpu(), |i| {
        let mut rng = Rng::fork(ctx.seed, &format!("C15-tty-{}", i));
        let wd = WorkDir::new("c15t");
        let pool = pw_pool(i);
        let pw = pool[(i * 5 + 2) % pool.len()].clone();
        let alice = Ident::new("alice", &pw, &mut rng);
        let bob = Ident::new("bob", "bpw", &mut rng);
        wd.write("kr.txt", keyring_text(&[(&alice, true), (&bob, true)]).as_bytes());
        let pt = rng.bytes(3000);
        wd.write("p.bin", &pt);
        let mut wrongs: Vec<String> = (0..i % 4).map(|k| pool[(i + k + 3) % pool.len()].clone()).filter(|w| refspec::hmac_norm(w.as_bytes()) != refspec::hmac_norm(pw.as_bytes())).collect();
        if i % 2 == 1 {
            wrongs.push(format!("{} ", pw));
        }
        let mut currents = wrongs.clone();
        currents.push(pw.clone());
        let script = Script { names: vec![], currents, pairs: vec![] };
        let r = play(&Cmd::new(&wd.path, &["encrypt", "p.bin", "-f", "alice", "-t", "bob", "-o", "c.ktl", "-k", "kr.txt"]), true, None, &script);
        ctx.eval();
        // every scripted answer was typed - the last one being the RIGHT password - and the tool asked yet again: the
        // right password was refused (this command asks for nothing else once the key is unlocked)
        if (r.exit == Exit::Timeout || r.stuck.is_some()) && r.answered.len() == wrongs.len() + 1 && r.answered.last().map(|a| a.1 == pw).unwrap_or(false) {
            ctx.violation("C15:tty:the-right-password-was-refused-at-the-terminal-after-wrong-attempts", json!({"typed": script.describe(), "run": r.describe().chars().take(600).collect::<String>(), "wrong_attempts_before": wrongs.len()}));
            return;
        }
        if inconclusive_if_stuck(ctx, "C15", &r) {
            return;
        }
        let c = std::fs::read(wd.file("c.ktl")).unwrap_or_default();
        let case = || json!({"typed": script.describe(), "run": r.describe(), "file_len": c.len()});
        if r.exit != Exit::Code(0) && r.answered.len() <= wrongs.len() && !wd.file("c.ktl").exists() {
            // the tool gave up after a wrong password instead of asking again: allowed by the statement
            ctx.seen("tty: tool stopped after a wrong password (no retry)");
            return;
        }
        match refspec::decode_key_file(&c, &bob.sk, &bob.pk) {
            Ok(d) if r.exit == Exit::Code(0) && r.answered.len() == wrongs.len() + 1 && d.sender == alice.pk && d.body.complete() && d.body.plaintext() == pt => {
                ctx.seen(&format!("tty: unlock succeeded only at the right password, after {} wrong one(s)", wrongs.len()));
                ctx.distinct(&format!("tty|{}|{}", i, wrongs.len()));
            }
            _ => {
                ctx.violation("C15:tty:unlock-at-the-terminal-did-not-yield-the-original-key-at-exactly-the-right-password", case());
                return;
            }
        }
        // the recipient side: wrong passwords for bob's key first, then the right one
        let script = Script { names: vec![], currents: vec!["bpw ".into(), "Bpw".into(), "bpw".into()], pairs: vec![] };
        let r = play(&Cmd::new(&wd.path, &["decrypt", "c.ktl", "-t", "bob", "-o", "p.out", "-k", "kr.txt"]), true, None, &script);
        ctx.eval();
        if inconclusive_if_stuck(ctx, "C15", &r) {
            return;
        }
        let got = std::fs::read(wd.file("p.out")).unwrap_or_default();
        if r.exit != Exit::Code(0) && r.answered.len() < 3 && !wd.file("p.out").exists() {
            ctx.seen("tty: tool stopped after a wrong password (no retry)");
        } else if r.exit == Exit::Code(0) && r.answered.len() == 3 && got == pt {
            ctx.seen("tty: recipient key unlocked only at the right password, after 2 wrong one(s)");
        } else {
            ctx.violation("C15:tty:recipient-unlock-at-the-terminal-did-not-behave", json!({"typed": script.describe(), "run": r.describe(), "output_len": got.len()}));
        }
    });
}

/// C14: key generate typed at the terminal, twice into one file.
pub fn c14(ctx: &Ctx) {
    let n = ctx.tier.pick(4, 40);
    par_for(n, crate::util::ncpu(), |i| {
        let mut rng = Rng::fork(ctx.seed, &format!("C14-tty-{}", i));
        let wd = WorkDir::new("c14t");
        let pool = pw_pool(i);
        let mut before: Vec<u8> = Vec::new();
        let mut made: Vec<(String, String)> = Vec::new();
        for g in 0..3 {
            let name = format!("{}-{}", ["typed", "N\u{e4}me", "with space"][g % 3], i);
            let pw = pool[(i + g * 3) % pool.len()].clone();
            let script = Script { names: vec![name.clone()], currents: vec![], pairs: confirm_pairs(&mut rng, &pool, (i + g) % 3, &pw) };
            let r = play(&Cmd::new(&wd.path, &["key", "generate", "-o", "ring.txt"]), true, None, &script);
            ctx.eval();
            if inconclusive_if_stuck(ctx, "C14", &r) {
                return;
            }
            let after = std::fs::read(wd.file("ring.txt")).unwrap_or_default();
            let case = || json!({"generation": g, "typed": script.describe(), "run": r.describe(), "file_before_len": before.len(), "file_after_len": after.len()});
            if r.exit != Exit::Code(0) || after.len() <= before.len() || after[..before.len()] != before[..] {
                ctx.violation("C14:tty:earlier-contents-are-not-a-prefix-or-generation-failed", case());
                return;
            }
            made.push((name, pw));
            // every key so far is present under its typed name and unlocks with its confirmed password
            let text = String::from_utf8_lossy(&after).to_string();
            for (nm, p) in &made {
                let mut found = false;
                let mut lines = text.lines();
                while let Some(l) = lines.next() {
                    if l.trim() == format!("Name = {}", nm) {
                        let _pk = lines.next();
                        if let Some(skl) = lines.next().and_then(|l| l.trim().strip_prefix("PrivateKey = ")) {
                            found = refspec::unlock_sk(skl.trim(), p.as_bytes()).is_ok();
                        }
                    }
                }
                if !found {
                    let mut d = case();
                    d["missing_or_not_unlockable"] = json!(nm);
                    ctx.violation("C14:tty:generated-key-not-present-and-usable-with-its-confirmed-password", d);
                    return;
                }
            }
            before = after;
        }
        // usable through the tool as well
        wd.write("p.bin", b"interactive");
        let o = Cmd::new(&wd.path, &["encrypt", "p.bin", "-f", &made[2].0, "-t", &made[0].0, "-o", "c.ktl", "-k", "ring.txt", "--env-pass"]).pass(&made[2].1).run();
        let d = Cmd::new(&wd.path, &["decrypt", "c.ktl", "-t", &made[0].0, "-k", "ring.txt", "--env-pass"]).pass(&made[0].1).run();
        ctx.eval();
        if o.exit == Exit::Code(0) && d.exit == Exit::Code(0) && d.stdout == b"interactive" {
            ctx.seen("tty: three typed generations into one file, all keys usable");
            ctx.distinct(&format!("tty|{}", i));
        } else if o.exit == Exit::Timeout || d.exit == Exit::Timeout {
            ctx.inconclusive("C14 tty: timeout");
        } else {
            ctx.violation("C14:tty:keys-generated-at-the-terminal-not-usable", json!({"encrypt": format!("{} {}", o.exit.describe(), o.stderr_s()), "decrypt": format!("{} {}", d.exit.describe(), d.stderr_s())}));
        }
    });
}

fn no_ctty(blind: &[&str]) -> crate::tty::TtyCfg {
    crate::tty::TtyCfg { stdout_is_tty: false, controlling: false, stderr_is_pipe: true, blind_lines: blind.iter().map(|s| s.to_string()).collect() }
}

fn play_no_ctty(cmd: &Cmd, blind: &[&str]) -> TtyRun {
    crate::tty::run_tty_cfg(cmd, &no_ctty(blind), None, &mut |_p, _k, _n| None)
}

/// C04: the process has no controlling terminal, stdin is a terminal, stderr is a pipe and the plaintext
/// goes to stdout: whatever is typed, stdout carries only authenticated plaintext.
pub fn c04_no_controlling_terminal(ctx: &Ctx) {
    let mut rng = Rng::fork(ctx.seed, "C04-noctty");
    let wd = WorkDir::new("c04t");
    let alice = Ident::new("alice", "apw", &mut rng);
    let bob = Ident::new("bob", "bpw", &mut rng);
    wd.write("kr.txt", keyring_text(&[(&alice, true), (&bob, true)]).as_bytes());
    let pt = rng.bytes(150_000);
    let chunking = refspec::natural_chunking(pt.len(), 65536);
    wd.write("p.ktl", &refspec::encode_pass_file(b"ppw", &rng.arr32(), &pt, &chunking));
    wd.write("k.ktl", &refspec::encode_key_file(&alice.sk, &alice.pk, &bob.pk, &rng.arr32(), &rng.arr32(), &pt, &chunking).unwrap());
    let cases: Vec<(&str, Vec<&str>, Vec<&str>, bool)> = vec![
        ("password decrypt, right password", vec!["password", "decrypt", "p.ktl"], vec!["ppw"], true),
        ("password decrypt, wrong password", vec!["password", "decrypt", "p.ktl"], vec!["nope"], false),
        ("key decrypt, right password", vec!["decrypt", "k.ktl", "-t", "bob", "-k", "kr.txt"], vec!["bpw"], true),
        ("key decrypt, wrong password twice then the right one", vec!["decrypt", "k.ktl", "-t", "bob", "-k", "kr.txt"], vec!["nope", "bpw ", "bpw"], true),
    ];
    for (what, args, blind, succeeds) in cases {
        let r = play_no_ctty(&Cmd::new(&wd.path, &args), &blind);
        ctx.eval();
        if r.exit == Exit::Timeout || r.stuck.is_some() {
            ctx.inconclusive(&format!("C04 no-controlling-terminal lane: run did not complete: {}", r.describe().chars().take(200).collect::<String>()));
            continue;
        }
        let case = || json!({"case": what, "typed": blind, "exit": r.exit.describe(), "stdout_len": r.stdout.len(), "stdout_head": String::from_utf8_lossy(&r.stdout[..r.stdout.len().min(60)]), "terminal_and_stderr": r.transcript.chars().take(400).collect::<String>()});
        let is_prefix = r.stdout.len() <= pt.len() && r.stdout[..] == pt[..r.stdout.len()];
        if !is_prefix {
            ctx.violation("C04:tty:bytes-on-the-plaintext-destination-are-not-a-prefix-of-the-plaintext:no-controlling-terminal", case());
        } else if succeeds && r.exit == Exit::Code(0) && r.stdout == pt {
            ctx.seen("no controlling terminal, password typed on stdin: stdout carries exactly the plaintext");
            ctx.distinct(&format!("noctty|{}", what));
        } else if !succeeds && r.exit == Exit::Code(1) && r.stdout.is_empty() {
            ctx.seen("no controlling terminal, wrong password typed on stdin: nothing on stdout, exit 1");
            ctx.distinct(&format!("noctty|{}", what));
        } else if succeeds && r.exit == Exit::Code(1) {
            // the tool declined to read a password this way: nothing was released, which is all C04 asks
            ctx.seen("no controlling terminal: tool refused to prompt, nothing released");
        } else {
            ctx.violation("C04:tty:unexpected-outcome-without-a-controlling-terminal", case());
        }
    }
}

/// C08: same wiring on the encrypting side: the ciphertext on stdout is exactly a conforming file.
pub fn c08_no_controlling_terminal(ctx: &Ctx) {
    let mut rng = Rng::fork(ctx.seed, "C08-noctty");
    let wd = WorkDir::new("c08t");
    let sender_name = "Sender-Name-Xq7";
    let alice = Ident::new(sender_name, "apw", &mut rng);
    let bob = Ident::new("Recipient-Zk3", "bpw", &mut rng);
    wd.write("kr.txt", keyring_text(&[(&alice, true), (&bob, false)]).as_bytes());
    let pt = rng.bytes(1000);
    wd.write("p.bin", &pt);
    // key mode
    let r = play_no_ctty(&Cmd::new(&wd.path, &["encrypt", "p.bin", "-f", sender_name, "-t", "Recipient-Zk3", "-k", "kr.txt"]), &["apw"]);
    ctx.eval();
    let case = |r: &TtyRun| json!({"exit": r.exit.describe(), "stdout_len": r.stdout.len(), "stdout_head": String::from_utf8_lossy(&r.stdout[..r.stdout.len().min(60)]), "terminal_and_stderr": r.transcript.chars().take(400).collect::<String>()});
    if r.exit == Exit::Timeout || r.stuck.is_some() {
        ctx.inconclusive("C08 no-controlling-terminal lane: run did not complete");
    } else if r.exit == Exit::Code(1) && r.stdout.is_empty() {
        ctx.seen("no controlling terminal: tool refused to prompt, nothing written");
    } else {
        let conforms = matches!(refspec::decode_key_file(&r.stdout, &bob.sk, &bob.pk), Ok(d) if d.body.complete() && d.body.plaintext() == pt);
        let leaks = [sender_name.as_bytes(), b"Recipient-Zk3", b"Unlock", b"key: "].iter().any(|n| r.stdout.windows(n.len()).any(|w| w == *n));
        if r.exit == Exit::Code(0) && conforms && !leaks && r.stdout.len() == 132 + 32 + pt.len() {
            ctx.seen("no controlling terminal, password typed on stdin: stdout is exactly a conforming file");
            ctx.distinct("noctty|key");
        } else {
            ctx.violation("C08:tty:file-on-stdout-is-not-exactly-a-conforming-file:no-controlling-terminal", case(&r));
        }
    }
    // password mode
    let r = play_no_ctty(&Cmd::new(&wd.path, &["password", "encrypt", "p.bin"]), &["ppw", "ppw"]);
    ctx.eval();
    if r.exit == Exit::Timeout || r.stuck.is_some() {
        ctx.inconclusive("C08 no-controlling-terminal lane: run did not complete");
    } else if r.exit == Exit::Code(1) && r.stdout.is_empty() {
        ctx.seen("no controlling terminal: tool refused to prompt, nothing written");
    } else {
        let conforms = matches!(refspec::decode_pass_file(&r.stdout, b"ppw"), Ok(d) if d.body.complete() && d.body.plaintext() == pt);
        if r.exit == Exit::Code(0) && conforms && r.stdout.len() == 36 + 32 + pt.len() {
            ctx.seen("no controlling terminal, password typed on stdin: stdout is exactly a conforming file");
            ctx.distinct("noctty|password");
        } else {
            ctx.violation("C08:tty:file-on-stdout-is-not-exactly-a-conforming-file:no-controlling-terminal", case(&r));
        }
    }
}
