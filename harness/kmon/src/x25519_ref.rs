//! RFC 7748 X25519 Montgomery ladder, written from the RFC pseudo-code on 5x51-bit limbs.
//! Needed because OpenSSL refuses to output the all-zero result, and the forger (C05) and
//! the primitive differential (C19) need the raw function, low-order inputs included.

type Fe = [u64; 5];
const MASK: u64 = (1u64 << 51) - 1;

fn fe_from_bytes(b: &[u8; 32]) -> Fe {
    let mut w = [0u64; 4];
    for i in 0..4 {
        w[i] = u64::from_le_bytes(b[i * 8..i * 8 + 8].try_into().unwrap());
    }
    w[3] &= 0x7fff_ffff_ffff_ffff; // RFC 7748: mask the most significant bit of u
    [
        w[0] & MASK,
        ((w[0] >> 51) | (w[1] << 13)) & MASK,
        ((w[1] >> 38) | (w[2] << 26)) & MASK,
        ((w[2] >> 25) | (w[3] << 39)) & MASK,
        (w[3] >> 12) & MASK,
    ]
}

fn carry(mut t: [u128; 5]) -> Fe {
    // two passes are enough for products of 52-bit limbs
    for _ in 0..2 {
        for i in 0..4 {
            t[i + 1] += t[i] >> 51;
            t[i] &= MASK as u128;
        }
        let c = t[4] >> 51;
        t[4] &= MASK as u128;
        t[0] += c * 19;
    }
    let mut r = [0u64; 5];
    for i in 0..4 {
        t[i + 1] += t[i] >> 51;
        t[i] &= MASK as u128;
    }
    let c = t[4] >> 51;
    t[4] &= MASK as u128;
    t[0] += c * 19;
    for i in 0..5 {
        r[i] = t[i] as u64;
    }
    r
}

fn fe_add(a: &Fe, b: &Fe) -> Fe {
    let mut t = [0u128; 5];
    for i in 0..5 {
        t[i] = a[i] as u128 + b[i] as u128;
    }
    carry(t)
}

fn fe_sub(a: &Fe, b: &Fe) -> Fe {
    // add 4p before subtracting so limbs stay non-negative
    const P4: [u64; 5] = [
        4 * ((1u64 << 51) - 19),
        4 * ((1u64 << 51) - 1),
        4 * ((1u64 << 51) - 1),
        4 * ((1u64 << 51) - 1),
        4 * ((1u64 << 51) - 1),
    ];
    let mut t = [0u128; 5];
    for i in 0..5 {
        t[i] = (a[i] as u128 + P4[i] as u128) - b[i] as u128;
    }
    carry(t)
}

fn fe_mul(a: &Fe, b: &Fe) -> Fe {
    let mut t = [0u128; 5];
    for i in 0..5 {
        for j in 0..5 {
            let prod = a[i] as u128 * b[j] as u128;
            if i + j < 5 {
                t[i + j] += prod;
            } else {
                t[i + j - 5] += prod * 19;
            }
        }
    }
    carry(t)
}

fn fe_sq(a: &Fe) -> Fe {
    fe_mul(a, a)
}

fn fe_mul_small(a: &Fe, k: u64) -> Fe {
    let mut t = [0u128; 5];
    for i in 0..5 {
        t[i] = a[i] as u128 * k as u128;
    }
    carry(t)
}

fn fe_invert(z: &Fe) -> Fe {
    // z^(p-2), p-2 = 2^255 - 21: square-and-multiply over the bits, MSB first.
    // bits of p-2: 250 ones, then 0 1 0 1 1  (2^255-21 = ...11101011)
    let mut e = [0xffu8; 32];
    e[0] = 0xeb;
    e[31] = 0x7f;
    let mut r: Fe = [1, 0, 0, 0, 0];
    for bit in (0..255).rev() {
        r = fe_sq(&r);
        if (e[bit / 8] >> (bit % 8)) & 1 == 1 {
            r = fe_mul(&r, z);
        }
    }
    r
}

fn fe_to_bytes(a: &Fe) -> [u8; 32] {
    let mut t = *a;
    // fully reduce
    for _ in 0..2 {
        for i in 0..4 {
            t[i + 1] += t[i] >> 51;
            t[i] &= MASK;
        }
        let c = t[4] >> 51;
        t[4] &= MASK;
        t[0] += c * 19;
    }
    // now 0 <= t < 2^255 + small; subtract p if t >= p
    let mut q = (t[0] + 19) >> 51;
    q = (t[1] + q) >> 51;
    q = (t[2] + q) >> 51;
    q = (t[3] + q) >> 51;
    q = (t[4] + q) >> 51;
    t[0] += 19 * q;
    for i in 0..4 {
        t[i + 1] += t[i] >> 51;
        t[i] &= MASK;
    }
    t[4] &= MASK;
    let w0 = t[0] | (t[1] << 51);
    let w1 = (t[1] >> 13) | (t[2] << 38);
    let w2 = (t[2] >> 26) | (t[3] << 25);
    let w3 = (t[3] >> 39) | (t[4] << 12);
    let mut out = [0u8; 32];
    out[0..8].copy_from_slice(&w0.to_le_bytes());
    out[8..16].copy_from_slice(&w1.to_le_bytes());
    out[16..24].copy_from_slice(&w2.to_le_bytes());
    out[24..32].copy_from_slice(&w3.to_le_bytes());
    out
}

fn cswap(swap: u64, a: &mut Fe, b: &mut Fe) {
    if swap == 1 {
        std::mem::swap(a, b);
    }
}

/// Raw X25519(k, u) per RFC 7748 section 5, including clamping of k; may return all zeros.
pub fn x25519_raw(k: &[u8; 32], u: &[u8; 32]) -> [u8; 32] {
    let mut kk = *k;
    kk[0] &= 248;
    kk[31] &= 127;
    kk[31] |= 64;
    let x1 = fe_from_bytes(u);
    let mut x2: Fe = [1, 0, 0, 0, 0];
    let mut z2: Fe = [0; 5];
    let mut x3 = x1;
    let mut z3: Fe = [1, 0, 0, 0, 0];
    let mut swap = 0u64;
    for t in (0..255).rev() {
        let kt = ((kk[t / 8] >> (t % 8)) & 1) as u64;
        swap ^= kt;
        cswap(swap, &mut x2, &mut x3);
        cswap(swap, &mut z2, &mut z3);
        swap = kt;
        let a = fe_add(&x2, &z2);
        let aa = fe_sq(&a);
        let b = fe_sub(&x2, &z2);
        let bb = fe_sq(&b);
        let e = fe_sub(&aa, &bb);
        let c = fe_add(&x3, &z3);
        let d = fe_sub(&x3, &z3);
        let da = fe_mul(&d, &a);
        let cb = fe_mul(&c, &b);
        x3 = fe_sq(&fe_add(&da, &cb));
        z3 = fe_mul(&x1, &fe_sq(&fe_sub(&da, &cb)));
        x2 = fe_mul(&aa, &bb);
        z2 = fe_mul(&e, &fe_add(&aa, &fe_mul_small(&e, 121665)));
    }
    cswap(swap, &mut x2, &mut x3);
    cswap(swap, &mut z2, &mut z3);
    fe_to_bytes(&fe_mul(&x2, &fe_invert(&z2)))
}

pub fn base_point() -> [u8; 32] {
    let mut b = [0u8; 32];
    b[0] = 9;
    b
}

/// The canonical low-order u-coordinates (order 1, 2, 4, 8) plus non-canonical encodings
/// of them (p, p+1, and the 2^255 variants are produced by `low_order_all`).
pub fn low_order_canonical() -> Vec<[u8; 32]> {
    let hexes = [
        "0000000000000000000000000000000000000000000000000000000000000000",
        "0100000000000000000000000000000000000000000000000000000000000000",
        "e0eb7a7c3b41b8ae1656e3faf19fc46ada098deb9c32b1fd866205165f49b800",
        "5f9c95bca3508c24b1d0b1559c83ef5b04445cc4581c8e86d8224eddd09f1157",
        "ecffffffffffffffffffffffffffffffffffffffffffffffffffffffffffff7f",
        "edffffffffffffffffffffffffffffffffffffffffffffffffffffffffffff7f",
        "eeffffffffffffffffffffffffffffffffffffffffffffffffffffffffffff7f",
    ];
    hexes.iter().map(|h| crate::util::unhex32(h)).collect()
}

/// All encodings of low-order points we drive: the canonical seven and each with the
/// (ignored) top bit set.
pub fn low_order_all() -> Vec<[u8; 32]> {
    let mut v = low_order_canonical();
    let c = v.clone();
    for mut x in c {
        x[31] |= 0x80;
        v.push(x);
    }
    v
}
