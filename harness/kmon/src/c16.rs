//! C16 - a key keeps its identity through any sequence of password changes.
//! CLI history monitor: generate (or a given key) -> change-pass steps over a password pool,
//! interleaved with extract-pub and encrypt/decrypt; every output checked with the reference.

use crate::cli::{Cmd, Exit, Ident, Stdin, WorkDir};
use crate::ctx::Ctx;
use crate::refspec;
use crate::util::{b64, hex, par_for, unb64, Rng};
use serde_json::json;
use std::collections::HashSet;

fn leak_scan(ctx: &Ctx, what: &str, sk: &[u8; 32], bytes: &[u8], detail: &dyn Fn() -> serde_json::Value) -> bool {
    ctx.eval();
    let forms: Vec<(&str, Vec<u8>)> = vec![
        ("raw", sk.to_vec()),
        ("hex", hex(sk).into_bytes()),
        ("HEX", hex(sk).to_uppercase().into_bytes()),
        ("base64", b64(sk).trim_end_matches('=').as_bytes().to_vec()),
    ];
    for (form, n) in forms {
        // any 16-byte window of the encoding counts
        for w in n.windows(16.min(n.len())) {
            if bytes.windows(w.len()).any(|x| x == w) {
                let mut v = detail();
                v["leak_form"] = json!(form);
                v["where"] = json!(what);
                ctx.violation(&format!("C16:raw-private-key-appears-in-output:{}", form), v);
                return false;
            }
        }
    }
    true
}


/// Passwords with white-space and line-terminator edges, in the role of the NEW password and then of the CURRENT one:
/// the key must end up locked under exactly the bytes given (the reference opens it with them and with nothing that
/// merely looks alike), and a change away from such a password must work with exactly those bytes again.
fn edge_passwords(ctx: &Ctx) {
    let family: Vec<String> = vec![
        "line\n".into(), "crlf\r\n".into(), "\n".into(), "\r".into(), "\r\n".into(), "two\n\n".into(), "\nleading-newline".into(), "in\nside".into(),
        "tab\t".into(), "\ttab".into(), "space ".into(), " space".into(), "  ".into(), "nbsp\u{a0}".into(), "\u{2028}line-sep".into(), "vt\u{b}".into(), "ff\u{c}".into(), "bell\u{7}".into(),
        "esc\u{1b}[0m".into(), "del\u{7f}".into(), "bom\u{feff}".into(), "caf\u{e9}".into(), "cafe\u{301}".into(),
        // lengths at the HMAC-SHA-256 block size (the key derivation keys an HMAC with the password): 63, 64, 65 bytes in
        // ASCII and 64 bytes made of 32 two-byte characters
        "a".repeat(63), "b".repeat(64), "c".repeat(65), "\u{e9}".repeat(32), format!("{}\u{e9}", "d".repeat(62)), "e".repeat(128),
        // shapes that configuration-file or shell conventions would "clean up": quotes, escapes, variable references, comments
        "\"quoted\"".into(), "'single'".into(), "\"\"".into(), "''".into(), "\"open".into(), "back\\slash".into(), "trail\\".into(), "$HOME".into(), "${KESTREL_PASSWORD}".into(), "%PATH%".into(),
        "#hash first".into(), "semi;colon".into(), "a=b".into(), "=lead".into(), "~tilde".into(), "per%41cent".into(), "plus+sign".into(), "-dash-first".into(), "--env-pass".into(),
    ];
    let n = ctx.tier.pick(family.len(), family.len() * 3);
    par_for(n, crate::util::ncpu(), |i| {
        let w = &family[i % family.len()];
        let mut rng = Rng::fork(ctx.seed, &format!("C16-edge-{}", i));
        let wd = WorkDir::new("c16e");
        let id = Ident::new("edge", "start-pw", &mut rng);
        let o = Cmd::new(&wd.path, &["key", "change-pass", &id.locked, "--env-pass"]).pass("start-pw").env("KESTREL_NEW_PASSWORD", w).run();
        ctx.eval();
        let detail = |extra: serde_json::Value| json!({"new_password": w, "new_password_hex": hex(w.as_bytes()), "exit": o.exit.describe(), "stdout": o.stdout_s(), "stderr": o.stderr_s(), "more": extra});
        let newl = match (&o.exit, o.stdout_s().lines().find_map(|l| l.strip_prefix("PrivateKey = ").map(|x| x.trim().to_string()))) {
            (Exit::Timeout, _) => {
                ctx.inconclusive("C16: timeout");
                return;
            }
            (Exit::Code(1), _) if o.has_error_line() => {
                ctx.seen("edge password refused as a new password");
                return;
            }
            (Exit::Code(0), Some(l)) => l,
            _ => {
                ctx.violation("C16:change-pass-failed:edge-password", detail(json!(null)));
                return;
            }
        };
        if refspec::unlock_sk(&newl, w.as_bytes()) != Ok(id.sk) {
            ctx.violation("C16:changed-key-does-not-unlock-with-the-new-password:edge-password", detail(json!({"note": "the reference cannot open the new string with exactly the bytes given as KESTREL_NEW_PASSWORD"})));
            return;
        }
        // look-alikes that are different byte strings must not open it
        let unq = |c: char| w.strip_prefix(c).and_then(|x| x.strip_suffix(c)).map(|x| x.to_string()).unwrap_or_else(|| w.clone());
        let mut alikes: Vec<String> = vec![unq('"'), unq('\''), w.replace('\\', ""), w.replace("%41", "A"), w.replace('+', " "), w.trim().to_string(), w.trim_end().to_string(), w.trim_start().to_string(), w.trim_end_matches(|c| c == '\n' || c == '\r').to_string(), format!("{}\n", w), format!("{} ", w), w.replace('\t', " "), w.replace("\r\n", "\n")];
        alikes.retain(|a| a != w);
        alikes.sort();
        alikes.dedup();
        for a in &alikes {
            ctx.eval();
            if refspec::unlock_sk(&newl, a.as_bytes()).is_ok() {
                ctx.violation("C16:key-locked-under-other-bytes-than-the-password-given:edge-password", detail(json!({"also_opens_with_hex": hex(a.as_bytes())})));
                return;
            }
        }
        // the same bytes as the CURRENT password: extract-pub and a further change
        let e = Cmd::new(&wd.path, &["key", "extract-pub", &newl, "--env-pass"]).pass(w).run();
        ctx.eval();
        let want = format!("PublicKey = {}", id.encoded_pk);
        if !(e.exit == Exit::Code(0) && e.stdout_s().trim() == want) {
            ctx.violation("C16:extract-pub-does-not-print-the-keys-public-key:edge-password", json!({"password_hex": hex(w.as_bytes()), "exit": e.exit.describe(), "stdout": e.stdout_s(), "stderr": e.stderr_s(), "want": want}));
            return;
        }
        for a in &alikes {
            let e = Cmd::new(&wd.path, &["key", "extract-pub", &newl, "--env-pass"]).pass(a).run();
            ctx.eval();
            if e.exit == Exit::Code(0) {
                ctx.violation("C16:extract-pub-accepts-a-different-password:edge-password", json!({"locked_under_hex": hex(w.as_bytes()), "offered_hex": hex(a.as_bytes()), "stdout": e.stdout_s()}));
                return;
            }
        }
        let c = Cmd::new(&wd.path, &["key", "change-pass", &newl, "--env-pass"]).pass(w).env("KESTREL_NEW_PASSWORD", "final-pw").run();
        ctx.eval();
        let last = c.stdout_s().lines().find_map(|l| l.strip_prefix("PrivateKey = ").map(|x| x.trim().to_string()));
        match (c.exit == Exit::Code(0), last) {
            (true, Some(l)) if refspec::unlock_sk(&l, b"final-pw") == Ok(id.sk) => {
                ctx.seen("edge password as new and as current password: byte-exact");
                ctx.distinct(&format!("edgepw|{}", i));
            }
            _ => ctx.violation("C16:change-away-from-an-edge-password-failed", json!({"current_password_hex": hex(w.as_bytes()), "exit": c.exit.describe(), "stdout": c.stdout_s(), "stderr": c.stderr_s()})),
        }
    });
}

pub fn run(ctx: &Ctx) {
    ctx.rule(
        "histories: `key generate` (or a reference-made key) followed by 1..8 `key change-pass --env-pass` steps over the pool {empty, ASCII, UTF-8, 200 bytes, repeats}, with `key extract-pub` \
         after every step and an encrypt/decrypt with the updated keyring interleaved. After each step the reference unlock must give the ORIGINAL private key under the newest password, every \
         earlier (different) password must fail, the salt must be new in the whole history, extract-pub must print the reference encoding of the X25519 public key (= the PublicKey line of generation), \
         and every stdout/stderr/keyring byte is scanned for the raw private key (binary, hex, base64). distinct_nontrivial counts distinct (history, step) observations",
    );
    ctx.assume("passwords travel through KESTREL_PASSWORD / KESTREL_NEW_PASSWORD (no NUL bytes, valid UTF-8): HMAC-equivalent pairs cannot arise here");
    let histories = ctx.tier.pick(12, 300);
    let salts_all = std::sync::Mutex::new(HashSet::<[u8; 32]>::new());
    par_for(histories, crate::util::ncpu(), |h| {
        let mut rng = Rng::fork(ctx.seed, &format!("C16-{}", h));
        let wd = WorkDir::new("c16");
        let long200: String = (0..200).map(|i| (b'a' + ((i * 7 + h) % 26) as u8) as char).collect();
        let pool: Vec<String> = vec!["".into(), "hunter2".into(), "p\u{e4}ssw\u{f6}rd \u{2713}\u{1f511}".into(), long200, "hunter2".into(), " leading and trailing ".into(), "UPPER lower 123 !@#".into()];
        // start: generated by the tool (even h) or a key made by the reference (odd h)
        let pw0 = pool[h % pool.len()].clone();
        let (mut locked, sk, pk_line): (String, [u8; 32], String);
        if h % 2 == 0 {
            let o = Cmd::new(&wd.path, &["key", "generate", "--env-pass"]).pass(&pw0).stdin(Stdin::Bytes(format!("owner-{}\n", h).into_bytes())).run();
            ctx.eval();
            let text = o.stdout_s();
            let l = text.lines().find_map(|l| l.strip_prefix("PrivateKey = ")).map(|s| s.trim().to_string());
            let p = text.lines().find_map(|l| l.strip_prefix("PublicKey = ")).map(|s| s.trim().to_string());
            match (o.exit == Exit::Code(0), l, p) {
                (true, Some(l), Some(p)) => match refspec::unlock_sk(&l, pw0.as_bytes()) {
                    Ok(k) => {
                        // the PublicKey line written at generation is the public key of that private key
                        if refspec::decode_pk(&p) != Some(refspec::pubkey_of(&k)) {
                            ctx.violation("C16:generated-public-key-line-does-not-match-the-private-key", json!({"stdout": text, "password": pw0}));
                            return;
                        }
                        if !leak_scan(ctx, "key generate stdout/stderr", &k, &[o.stdout.clone(), o.stderr.clone()].concat(), &|| json!({"stdout": text})) {
                            return;
                        }
                        locked = l;
                        sk = k;
                        pk_line = p;
                    }
                    Err(e) => {
                        ctx.violation("C16:generated-key-does-not-unlock-with-its-password", json!({"stdout": text, "password": pw0, "reference_error": e}));
                        return;
                    }
                },
                _ => {
                    if o.exit == Exit::Timeout {
                        ctx.inconclusive("C16: timeout");
                    } else {
                        ctx.violation("C16:key-generate-failed", json!({"exit": o.exit.describe(), "stderr": o.stderr_s(), "stdout": text}));
                    }
                    return;
                }
            }
        } else {
            let id = Ident::new(&format!("owner-{}", h), &pw0, &mut rng);
            locked = id.locked.clone();
            sk = id.sk;
            pk_line = id.encoded_pk.clone();
        }
        let expect_pub = format!("PublicKey = {}", refspec::encode_pk(&refspec::pubkey_of(&sk)));
        if expect_pub != format!("PublicKey = {}", pk_line) {
            ctx.violation("C16:generated-public-key-line-is-not-the-reference-encoding", json!({"line": pk_line, "want": expect_pub}));
            return;
        }
        let mut salts: Vec<[u8; 32]> = vec![unb64(&locked).unwrap()[4..36].try_into().unwrap()];
        salts_all.lock().unwrap().insert(salts[0]);
        let mut pws: Vec<String> = vec![pw0.clone()];
        let nsteps = 1 + (h * 3) % 8;
        let partner = Ident::new("partner", "partner-pw", &mut rng);
        for step in 0..nsteps {
            let cur_pw = pws.last().unwrap().clone();
            // every third step changes to the SAME password (re-wrapping a key must still use a new salt)
            let new_pw = if step % 3 == 1 { cur_pw.clone() } else { pool[(h + step * 3 + 1) % pool.len()].clone() };
            let o = Cmd::new(&wd.path, &["key", "change-pass", &locked, "--env-pass"]).pass(&cur_pw).env("KESTREL_NEW_PASSWORD", &new_pw).run();
            ctx.eval();
            let text = o.stdout_s();
            let old_locked = locked.clone();
            let detail = || json!({"history": h, "step": step, "old_password": cur_pw, "new_password": new_pw, "old_locked": old_locked, "exit": o.exit.describe(), "stdout": text, "stderr": o.stderr_s(), "private_key": hex(&sk)});
            if o.exit == Exit::Timeout {
                ctx.inconclusive("C16: timeout");
                return;
            }
            let newl = match text.lines().find_map(|l| l.strip_prefix("PrivateKey = ")).map(|s| s.trim().to_string()) {
                Some(l) if o.exit == Exit::Code(0) => l,
                _ => {
                    ctx.violation("C16:change-pass-failed", detail());
                    return;
                }
            };
            if !leak_scan(ctx, "change-pass stdout/stderr", &sk, &[o.stdout.clone(), o.stderr.clone()].concat(), &detail) {
                return;
            }
            // newest string + newest password -> the ORIGINAL key
            match refspec::unlock_sk(&newl, new_pw.as_bytes()) {
                Ok(k) if k == sk => {}
                Ok(_) => {
                    ctx.violation("C16:changed-key-unlocks-to-a-different-private-key", detail());
                    return;
                }
                Err(e) => {
                    let mut v = detail();
                    v["reference_error"] = json!(e);
                    ctx.violation("C16:changed-key-does-not-unlock-with-the-new-password", v);
                    return;
                }
            }
            // every earlier, different password must fail on the newest string
            for old in pws.iter().filter(|p| **p != new_pw) {
                ctx.eval();
                if refspec::unlock_sk(&newl, old.as_bytes()).is_ok() {
                    let mut v = detail();
                    v["still_working_password"] = json!(old);
                    ctx.violation("C16:an-earlier-different-password-still-unlocks", v);
                    return;
                }
            }
            // new salt, in this history and in the whole run
            let blob = unb64(&newl).unwrap_or_default();
            if blob.len() != 84 {
                ctx.violation("C16:change-pass-output-is-not-a-locked-key", detail());
                return;
            }
            let salt: [u8; 32] = blob[4..36].try_into().unwrap();
            if salts.contains(&salt) || !salts_all.lock().unwrap().insert(salt) {
                ctx.violation("C16:salt-reused-by-change-pass", detail());
                return;
            }
            salts.push(salt);
            if newl == locked {
                ctx.violation("C16:change-pass-returned-the-same-locked-string", detail());
                return;
            }
            pws.push(new_pw.clone());
            locked = newl;
            // extract-pub with the newest password
            let o = Cmd::new(&wd.path, &["key", "extract-pub", &locked, "--env-pass"]).pass(&new_pw).run();
            ctx.eval();
            if !(o.exit == Exit::Code(0) && o.stdout_s().trim() == expect_pub) {
                ctx.violation("C16:extract-pub-does-not-print-the-keys-public-key", json!({"history": h, "step": step, "exit": o.exit.describe(), "stdout": o.stdout_s(), "stderr": o.stderr_s(), "want": expect_pub}));
                return;
            }
            if !leak_scan(ctx, "extract-pub stdout/stderr", &sk, &[o.stdout.clone(), o.stderr.clone()].concat(), &detail) {
                return;
            }
            // extract-pub with an earlier, different password must fail
            if let Some(old) = pws.iter().find(|p| **p != new_pw) {
                let o = Cmd::new(&wd.path, &["key", "extract-pub", &locked, "--env-pass"]).pass(old).run();
                ctx.eval();
                if o.exit != Exit::Code(1) || !o.stdout.is_empty() {
                    ctx.violation("C16:extract-pub-accepts-an-earlier-password", json!({"history": h, "step": step, "password": old, "exit": o.exit.describe(), "stdout": o.stdout_s()}));
                    return;
                }
            }
            // the key still works as an identity: encrypt to the partner and back with the updated keyring
            if step % 2 == 0 {
                let kr = format!("[Key]\nName = owner\nPublicKey = {}\nPrivateKey = {}\n\n{}", pk_line, locked, partner.entry(true));
                wd.write("kr.txt", kr.as_bytes());
                wd.write("m.txt", b"identity check");
                let e = Cmd::new(&wd.path, &["encrypt", "m.txt", "-t", "partner", "-f", "owner", "-o", "m.ktl", "-k", "kr.txt", "--env-pass"]).pass(&new_pw).run();
                let ct = std::fs::read(wd.file("m.ktl")).unwrap_or_default();
                ctx.eval();
                match refspec::decode_key_file(&ct, &partner.sk, &partner.pk) {
                    Ok(d) if e.exit == Exit::Code(0) && d.body.complete() && d.sender == refspec::pubkey_of(&sk) => {}
                    _ => {
                        ctx.violation("C16:key-unusable-or-other-identity-after-password-change", json!({"history": h, "step": step, "exit": e.exit.describe(), "stderr": e.stderr_s()}));
                        return;
                    }
                }
                let back = refspec::encode_key_file(&partner.sk, &partner.pk, &refspec::pubkey_of(&sk), &rng.arr32(), &rng.arr32(), b"reply", &[5]).unwrap();
                wd.write("r.ktl", &back);
                let d = Cmd::new(&wd.path, &["decrypt", "r.ktl", "-t", "owner", "-k", "kr.txt", "--env-pass"]).pass(&new_pw).run();
                ctx.eval();
                if !(d.exit == Exit::Code(0) && d.stdout == b"reply") {
                    ctx.violation("C16:key-cannot-decrypt-after-password-change", json!({"history": h, "step": step, "exit": d.exit.describe(), "stderr": d.stderr_s()}));
                    return;
                }
                if !leak_scan(ctx, "encrypt/decrypt output and keyring", &sk, &[e.stderr.clone(), d.stderr.clone(), ct, kr.into_bytes()].concat(), &detail) {
                    return;
                }
                let _ = std::fs::remove_file(wd.file("m.ktl"));
            }
            // a new password that is not valid UTF-8 (legal in the environment): either refused, or the key is
            // locked under exactly those bytes - never under a lossy rendering that other byte strings share
            if step == 0 {
                use std::os::unix::ffi::OsStringExt;
                let raw: Vec<u8> = [b"kestrel-".to_vec(), vec![0xff - (h % 2) as u8], b"-pw".to_vec()].concat();
                let o = Cmd::new(&wd.path, &["key", "change-pass", &locked, "--env-pass"]).pass(&new_pw).env_os("KESTREL_NEW_PASSWORD", std::ffi::OsString::from_vec(raw.clone())).run();
                ctx.eval();
                match (&o.exit, o.stdout_s().lines().find_map(|l| l.strip_prefix("PrivateKey = ").map(|x| x.trim().to_string()))) {
                    (Exit::Code(0), Some(l)) => {
                        if refspec::unlock_sk(&l, &raw) == Ok(sk) {
                            ctx.seen("non-UTF-8 new password accepted and used byte-exactly");
                        } else {
                            ctx.violation("C16:key-locked-under-other-bytes-than-the-password-given", json!({"new_password_hex": hex(&raw), "locked": l, "note": "the reference cannot unlock the new string with the exact bytes that were supplied"}));
                            return;
                        }
                    }
                    (Exit::Code(1), _) => ctx.seen("non-UTF-8 new password refused"),
                    (other, _) => {
                        ctx.violation(&format!("C16:change-pass-abnormal-termination:{}", other.describe()), json!({"stderr": o.stderr_s()}));
                        return;
                    }
                }
            }
            ctx.seen(&format!("change-pass step ok (history of {} steps)", nsteps));
            ctx.seen("steps verified");
            if new_pw == cur_pw {
                ctx.seen("same-password change verified (new salt, new string)");
            }
            ctx.distinct(&format!("h{}|s{}", h, step));
            if h == 4 && step == 0 {
                ctx.sample("change-pass step", 1, || json!({"old_password": cur_pw, "new_password": new_pw, "new_locked": locked, "extract_pub": expect_pub}));
            }
        }
    });
    edge_passwords(ctx);
    crate::ttylanes::c16(ctx);
    ctx.require("tty: change verified after 0 retyped", 1);
    ctx.require("tty: change verified after 1 retyped", 1);
    ctx.require("tty: change verified after 2 retyped", 1);
    ctx.require("tty: extract-pub prints the reference encoding", 6);
    ctx.require("steps verified", 20);
    ctx.require("edge password as new and as current password", 15);
    ctx.require("non-UTF-8 new password", 5);
    ctx.require("same-password change verified", 3);
}
