//! C09 - untrusted bytes never crash: errors only, bounded work.
//! Library surfaces run in child processes of kmon (checked and release builds) that journal
//! the current input before each call, so that an abort still yields the failing input; inside
//! a child every call is wrapped in catch_unwind, a scripted-reader call budget and a
//! per-call allocation reading. The CLI is driven over an argv vocabulary.

use crate::allocmon;
use crate::cli::{Cmd, Exit, Stdin, WorkDir};
use crate::ctx::{Ctx, Tier};
use crate::ioscript::Sched;
#[cfg(feature = "kr")]
use crate::keyring::{EncodedPk, EncodedSk, Keyring};
use crate::kio::*;
use crate::refspec;
use crate::util::{hex, hex_short, par_for, Rng};
use serde_json::json;
use std::io::{Seek, SeekFrom, Write};

pub struct Journal {
    f: Option<std::fs::File>,
}

impl Journal {
    fn open(path: &str) -> Journal {
        Journal { f: std::fs::OpenOptions::new().create(true).write(true).truncate(true).open(path).ok() }
    }
    /// Record the input about to be offered (overwrites the previous one).
    fn set(&mut self, surface: &str, data: &[u8]) {
        if let Some(f) = self.f.as_mut() {
            let _ = f.seek(SeekFrom::Start(0));
            let _ = f.write_all(surface.as_bytes());
            let _ = f.write_all(b"\n");
            let _ = f.write_all(data);
            let _ = f.set_len((surface.len() + 1 + data.len()) as u64);
        }
    }
}

struct Child<'a> {
    ctx: &'a Ctx,
    j: Journal,
}

const SURFACES: [&str; 5] = ["decrypt-key", "decrypt-pass", "noise", "aead", "keys"];

/// Entry point of `kmon c09-child <surface> <tier> <seed> <journal>`.
pub fn child_main(args: &[String]) {
    let surface = args.get(2).cloned().unwrap_or_default();
    let tier = if args.get(3).map(|s| s.as_str()) == Some("thorough") { Tier::Thorough } else { Tier::Quick };
    let seed: u64 = args.get(4).and_then(|s| s.parse().ok()).unwrap_or(1);
    let journal = args.get(5).cloned().unwrap_or_else(|| "/dev/null".into());
    let ctx = Ctx::new("C09", tier, seed, "exploration");
    let mut c = Child { ctx: &ctx, j: Journal::open(&journal) };
    match surface.as_str() {
        "decrypt-key" => c.decrypt_key(),
        "decrypt-pass" => c.decrypt_pass(),
        "noise" => c.noise(),
        "aead" => c.aead(),
        "keys" => c.keys(),
        _ => ctx.inconclusive("unknown surface"),
    }
    ctx.emit_child();
}

impl<'a> Child<'a> {
    /// One decrypt call on untrusted bytes with every monitor of this property.
    fn offer(&mut self, surface: &str, class: &str, data: &[u8], io: &Io, mem_bound: Option<(isize, usize)>, call: &dyn Fn(&[u8], &Io) -> Run) {
        self.j.set(surface, data);
        self.ctx.eval();
        allocmon::begin();
        let run = call(data, io);
        let m = allocmon::end();
        let case = || json!({"surface": surface, "class": class, "input": hex_short(data, 600), "input_len": data.len(), "io": io.describe(), "result": run.outcome.class()});
        if let Outcome::Panic(p) = &run.outcome {
            self.ctx.violation(&format!("C09:{}:panic:{}", surface, panic_site(p)), case());
            return;
        }
        if run.log.budget_hit() {
            self.ctx.violation(&format!("C09:{}:unbounded-work:reader-call-budget-exceeded", surface), case());
            return;
        }
        if let Some((peak, largest)) = mem_bound {
            if m.peak_live > peak || m.largest_block > largest {
                let mut v = case();
                v["peak_live_bytes"] = json!(m.peak_live);
                v["largest_block"] = json!(m.largest_block);
                v["bound_peak"] = json!(peak);
                v["bound_largest_block"] = json!(largest);
                self.ctx.violation(&format!("C09:{}:memory-use-raised-by-input:{}", surface, class), v);
                return;
            }
        }
        self.ctx.seen(&format!("{} {} -> {}", surface, class, crate::c03::short_class(&run.outcome)));
    }

    fn decrypt_key(&mut self) {
        let ctx = self.ctx;
        let mut rng = Rng::fork(ctx.seed, "C09-decrypt-key");
        let s = rng.arr32();
        let r = rng.arr32();
        let (s_pub, r_pub) = (refspec::pubkey_of(&s), refspec::pubkey_of(&r));
        let call = move |d: &[u8], io: &Io| key_decrypt_run(d, io, &r, &r_pub);
        // memory baseline: a valid 2-chunk production file
        let base = {
            let pt = rng.bytes(65536 + 100);
            let f = refspec::encode_key_file(&s, &s_pub, &r_pub, &rng.arr32(), &rng.arr32(), &pt, &[65536, 100]).unwrap();
            allocmon::begin();
            let run = call(&f, &Io::plain());
            let m = allocmon::end();
            if !run.outcome.is_ok() {
                ctx.inconclusive("baseline decrypt failed");
            }
            // the scripted sink holds the plaintext: subtract nothing, just allow for it
            (m.peak_live + 65536, m.largest_block + 65536)
        };
        ctx.note("memory_bound_key_mode", json!({"peak_live": base.0, "largest_block": base.1}));
        let pt = rng.bytes(7);
        let f = refspec::encode_key_file(&s, &s_pub, &r_pub, &rng.arr32(), &rng.arr32(), &pt, &[3, 3, 1]).unwrap();
        // every prefix length of an authentic file, every length of random bytes (with and without magic)
        for l in 0..=f.len() {
            self.offer("decrypt-key", "prefix of authentic file", &f[..l], &Io::plain(), Some(base), &call);
            self.offer("decrypt-key", "prefix of authentic file", &f[..l], &Io::new(Sched::fixed(1), Sched::fixed(1)), Some(base), &call);
            ctx.distinct(&format!("kp|{}", l));
        }
        for l in 0..=260usize {
            let junk = rng.bytes(l);
            self.offer("decrypt-key", "random bytes", &junk, &Io::plain(), Some(base), &call);
            let mut m = refspec::KEY_MAGIC.to_vec();
            m.extend_from_slice(&junk);
            self.offer("decrypt-key", "magic + random bytes", &m, &Io::plain(), Some(base), &call);
            let mut h = f[..132].to_vec();
            h.extend_from_slice(&junk);
            self.offer("decrypt-key", "authentic handshake + random bytes", &h, &Io::plain(), Some(base), &call);
            ctx.distinct(&format!("kr|{}", l));
        }
        // all 2^16 two-byte continuations after a valid magic, and after an authentic handshake
        let stride = if ctx.tier == Tier::Quick { 5 } else { 1 };
        for v in (0..=0xffffu32).step_by(stride) {
            let mut m = refspec::KEY_MAGIC.to_vec();
            m.extend_from_slice(&(v as u16).to_be_bytes());
            self.offer("decrypt-key", "magic + 2 bytes", &m, &Io::plain(), None, &call);
        }
        // attacker-chosen length field, with short and long bodies
        let long_tail = rng.bytes(70_000);
        for len in [0u32, 1, 3, 4, 65535, 65536, 65537, 1 << 24, 1 << 31, u32::MAX - 15, u32::MAX] {
            for flag in [0u32, 1] {
                for tail in [&[][..], &long_tail[..200], &long_tail[..]] {
                    let mut x = f[..132].to_vec();
                    x.extend_from_slice(&0u64.to_be_bytes());
                    x.extend_from_slice(&flag.to_be_bytes());
                    x.extend_from_slice(&len.to_be_bytes());
                    x.extend_from_slice(tail);
                    self.offer("decrypt-key", "attacker-chosen length field", &x, &Io::plain(), Some(base), &call);
                    ctx.distinct(&format!("kl|{}|{}|{}", len, flag, tail.len()));
                }
            }
        }
        // seeded random strings, half of them with a valid magic / valid handshake
        let n = ctx.tier.pick(60_000, 1_000_000);
        for i in 0..n {
            let l = rng.range(0, 300);
            let mut x = rng.bytes(l);
            match i % 4 {
                0 if l >= 4 => x[..4].copy_from_slice(&refspec::KEY_MAGIC),
                1 => {
                    let mut y = f[..132].to_vec();
                    y.extend_from_slice(&x);
                    x = y;
                }
                2 => {
                    // mutate an authentic file
                    x = f.clone();
                    for _ in 0..rng.range(1, 4) {
                        let p = rng.below(x.len() as u64) as usize;
                        x[p] = rng.next() as u8;
                    }
                    x.truncate(rng.range(0, f.len()));
                }
                _ => {}
            }
            self.offer("decrypt-key", "seeded random", &x, &Io::plain(), None, &call);
        }
        ctx.distinct("key|random");
    }

    fn decrypt_pass(&mut self) {
        let ctx = self.ctx;
        let mut rng = Rng::fork(ctx.seed, "C09-decrypt-pass");
        let pw = b"pw".to_vec();
        let pwc = pw.clone();
        let call = move |d: &[u8], io: &Io| pass_decrypt_run(d, io, &pwc);
        let salt = rng.arr32();
        let key = refspec::pass_key(&pw, &salt);
        let f = refspec::encode_pass_file_with_key(&key, &salt, &rng.bytes(7), &[3, 3, 1]);
        let base = {
            let pt = rng.bytes(65536 + 100);
            let big = refspec::encode_pass_file_with_key(&key, &salt, &pt, &[65536, 100]);
            allocmon::begin();
            let run = call(&big, &Io::plain());
            let m = allocmon::end();
            if !run.outcome.is_ok() {
                ctx.inconclusive("baseline pass decrypt failed");
            }
            (m.peak_live + 65536, m.largest_block + 65536)
        };
        ctx.note("memory_bound_password_mode", json!({"peak_live": base.0, "largest_block": base.1, "note": "dominated by the constant 32 MiB scrypt arena"}));
        // no key derivation happens before 36 bytes have been read: every short length is cheap
        for l in 0..=36usize.min(f.len()) {
            self.offer("decrypt-pass", "prefix of authentic file", &f[..l], &Io::plain(), Some(base), &call);
            self.offer("decrypt-pass", "random bytes", &rng.bytes(l), &Io::plain(), Some(base), &call);
            ctx.distinct(&format!("pp|{}", l));
        }
        // beyond the header each call costs one constant-size scrypt: sampled
        let step = ctx.tier.pick(9, 1);
        for l in (37..=f.len()).step_by(step) {
            self.offer("decrypt-pass", "prefix of authentic file", &f[..l], &Io::plain(), Some(base), &call);
            ctx.distinct(&format!("pp|{}", l));
        }
        let long_tail = rng.bytes(70_000);
        for len in [0u32, 4, 65536, 65537, 1 << 31, u32::MAX] {
            for tail in [&[][..], &long_tail[..]] {
                let mut x = f[..36].to_vec();
                x.extend_from_slice(&0u64.to_be_bytes());
                x.extend_from_slice(&1u32.to_be_bytes());
                x.extend_from_slice(&len.to_be_bytes());
                x.extend_from_slice(tail);
                self.offer("decrypt-pass", "attacker-chosen length field", &x, &Io::plain(), Some(base), &call);
                ctx.distinct(&format!("pl|{}|{}", len, tail.len()));
            }
        }
        for i in 0..ctx.tier.pick(20, 300) {
            let mut x = refspec::PASS_MAGIC.to_vec();
            x.extend_from_slice(&rng.bytes_in(0, 200));
            if i % 2 == 0 {
                x[3] = rng.next() as u8;
            }
            self.offer("decrypt-pass", "seeded random", &x, &Io::plain(), Some(base), &call);
        }
    }

    fn noise(&mut self) {
        let ctx = self.ctx;
        let mut rng = Rng::fork(ctx.seed, "C09-noise");
        let s = rng.arr32();
        let r = rng.arr32();
        let (s_pub, r_pub) = (refspec::pubkey_of(&s), refspec::pubkey_of(&r));
        let prologue = b"prologue".to_vec();
        // an authentic message with a long payload: every prefix keeps the first 80 bytes valid
        let payload = rng.bytes(300);
        let msg = refspec::noise_x_write(&prologue, &s, &s_pub, &r_pub, &rng.arr32(), &payload).unwrap().message;
        let mut inputs: Vec<(&str, Vec<u8>)> = Vec::new();
        inputs.push(("complete authentic message", msg.clone()));
        for l in 0..=300usize.min(msg.len()) {
            inputs.push(("prefix of authentic message", msg[..l].to_vec()));
            inputs.push(("random bytes", rng.bytes(l)));
        }
        // complete, correctly authenticated messages whose payload is not a 32-byte key
        let mut whole: Vec<Vec<u8>> = Vec::new();
        for pl in [0usize, 1, 15, 16, 31, 32, 33, 48, 64, 1000, 65439] {
            let p = rng.bytes(pl);
            whole.push(refspec::noise_x_write(&prologue, &s, &s_pub, &r_pub, &rng.arr32(), &p).unwrap().message);
        }
        for m in whole {
            inputs.push(("authentic message with another payload size", m));
        }
        for l in [65519usize, 65534, 65535, 65536, 65537, 70000, 200_000] {
            inputs.push(("long random message", rng.bytes(l)));
            let mut m = msg[..80].to_vec();
            m.extend_from_slice(&rng.bytes(l - 80));
            inputs.push(("authentic head + long tail", m));
        }
        for (class, m) in inputs {
            self.j.set("noise", &m);
            ctx.eval();
            let res = guarded(|| kestrel_crypto::noise_decrypt(&sk(&r), &pk(&r_pub), &prologue, &m).map(|_| ()).map_err(|e| e.to_string()));
            let band = match m.len() {
                0..=63 => "len<64",
                64..=79 => "len 64..79",
                80..=95 => "len 80..95",
                96..=65535 => "len 96..65535",
                _ => "len>65535",
            };
            match res {
                Err(p) => ctx.violation(&format!("C09:noise:panic:{}:{}", band, panic_site(&p)), json!({"surface": "noise_decrypt", "class": class, "message_len": m.len(), "message": hex_short(&m, 400), "recipient_private": hex(&r), "prologue": hex(&prologue)})),
                Ok(r) => {
                    ctx.seen(&format!("noise {} ({}) -> {}", class, band, if r.is_ok() { "Ok" } else { "Err" }));
                    ctx.distinct(&format!("noise|{}|{}", class, m.len()));
                }
            }
        }
    }

    fn aead(&mut self) {
        let ctx = self.ctx;
        let mut rng = Rng::fork(ctx.seed, "C09-aead");
        let key = rng.arr32();
        let ct = crate::ossl::aead_seal(&key, &[0u8; 12], b"ad", &rng.bytes(114));
        for l in 0..=130usize {
            for (class, data) in [("prefix of authentic ciphertext", ct[..l].to_vec()), ("random bytes", rng.bytes(l))] {
                self.j.set("aead", &data);
                ctx.eval();
                let a = guarded(|| kestrel_crypto::chapoly_decrypt_ietf(&key, &[0u8; 12], &data, b"ad").is_ok());
                let b = guarded(|| kestrel_crypto::verif_chapoly_decrypt_noise(&key, 0, b"ad", &data).is_ok());
                for (f, r) in [("chapoly_decrypt_ietf", a), ("chapoly_decrypt_noise", b)] {
                    match r {
                        Err(p) => ctx.violation(&format!("C09:aead:panic:{}:{}", f, panic_site(&p)), json!({"surface": f, "class": class, "input": hex(&data), "key": hex(&key)})),
                        Ok(ok) => {
                            ctx.seen(&format!("aead {} {} -> {}", f, class, if ok { "Ok" } else { "Err" }));
                        }
                    }
                }
                ctx.distinct(&format!("aead|{}|{}", class, l));
            }
        }
    }

    #[cfg(not(feature = "kr"))]
    fn keys(&mut self) {
        self.ctx.inconclusive("keyring.rs does not compile into the monitor: in-process key-string and keyring-parser surfaces of C09 skipped (the CLI lanes still offer hostile keyrings and key strings to the binary)");
    }

    #[cfg(feature = "kr")]
    fn keys(&mut self) {
        let ctx = self.ctx;
        let mut rng = Rng::fork(ctx.seed, "C09-keys");
        let alphabet: Vec<&str> = vec!["A", "Z", "a", "9", "+", "/", "=", "-", "_", " ", "\n", "\u{e9}"];
        let mut strings: Vec<String> = vec![String::new()];
        for a in &alphabet {
            strings.push(a.to_string());
            for b in &alphabet {
                strings.push(format!("{}{}", a, b));
                for c in &alphabet {
                    strings.push(format!("{}{}{}", a, b, c));
                    strings.push(format!("{}{}{}{}", a, b, c, a));
                }
            }
        }
        let good_sk = refspec::lock_sk(&rng.arr32(), b"pw", &rng.arr32());
        let good_pk = refspec::encode_pk(&refspec::pubkey_of(&rng.arr32()));
        for l in 0..=good_sk.len() {
            strings.push(good_sk[..l].to_string());
        }
        for l in 0..=good_pk.len() {
            strings.push(good_pk[..l].to_string());
        }
        for l in 0..140usize {
            strings.push(crate::util::b64(&rng.bytes(l)));
        }
        for _ in 0..ctx.tier.pick(3000, 60_000) {
            let l = rng.range(0, 130);
            strings.push(
                (0..l)
                    .map(|_| {
                        let top = if rng.chance(1, 8) { 0x2000 } else { 0x7f };
                        char::from_u32(rng.below(top) as u32).unwrap_or('?')
                    })
                    .collect(),
            );
        }
        // names at and beyond the length limit made of multi-byte characters at every small offset
        strings.extend(crate::c17cli::boundary_names());
        let mut scrypt_budget = ctx.tier.pick(25, 300);
        for s in &strings {
            self.j.set("keys", s.as_bytes());
            ctx.eval();
            let r = guarded(|| {
                let mut did_scrypt = false;
                if let Ok(e) = EncodedPk::try_from(s.as_str()) {
                    let _ = Keyring::decode_public_key(&e);
                }
                if let Ok(e) = EncodedSk::try_from(s.as_str()) {
                    if scrypt_budget > 0 {
                        did_scrypt = true;
                        let _ = Keyring::unlock_private_key(&e, b"pw");
                    }
                }
                did_scrypt
            });
            match r {
                Err(p) => ctx.violation(&format!("C09:keys:panic:{}", panic_site(&p)), json!({"surface": "EncodedPk/EncodedSk::try_from, decode_public_key, unlock_private_key", "string": s})),
                Ok(d) => {
                    if d {
                        scrypt_budget -= 1;
                        ctx.seen("keys: well-formed locked key string offered to unlock");
                    }
                }
            }
            // the same string as (part of) a keyring file
            for text in [s.clone(), format!("[Key]\nName = n\nPublicKey = {}\n", s), format!("[Key]\nName = n\nPublicKey = {}\nPrivateKey = {}\n", good_pk, s), format!("[Key]\nName = {}\nPublicKey = {}\n", s, good_pk)] {
                self.j.set("keyring", text.as_bytes());
                ctx.eval();
                if let Err(p) = guarded(|| Keyring::new(&text).is_ok()) {
                    ctx.violation(&format!("C09:keyring:panic:{}", panic_site(&p)), json!({"surface": "Keyring::new", "keyring_text": text}));
                }
            }
        }
        ctx.seen_n("keys: strings offered to the key and keyring decoders", strings.len() as u64);
        ctx.distinct(&format!("keys|{}", strings.len()));
        for i in 0..strings.len().min(4000) {
            if i % 7 == 0 {
                ctx.distinct(&format!("keys|s|{}", strings[i]));
            }
        }
    }
}

// ---------------------------------------------------------------------------------------
// parent side

fn run_children(ctx: &Ctx) {
    let wd = WorkDir::new("c09");
    let profiles: Vec<(&str, String)> = vec![
        ("checked", std::env::var("KMON_CHECKED").unwrap_or_else(|_| format!("{}/harness/target/checked/kmon", crate::ctx::verif_root()))),
        ("release", std::env::var("KMON_RELEASE").unwrap_or_else(|_| format!("{}/harness/target/release/kmon", crate::ctx::verif_root()))),
    ];
    let mut jobs = Vec::new();
    for (pname, bin) in &profiles {
        for s in SURFACES {
            jobs.push((pname.to_string(), bin.clone(), s.to_string()));
        }
    }
    let wdp = &wd;
    par_for(jobs.len(), crate::util::ncpu(), |i| {
        let (pname, bin, surface) = &jobs[i];
        if !std::path::Path::new(bin).exists() {
            ctx.inconclusive(&format!("{} build of kmon missing at {}", pname, bin));
            return;
        }
        let journal = wdp.s(&format!("journal-{}-{}", pname, surface));
        let seed = ctx.seed.to_string();
        let mut cmd = Cmd::new(&wdp.path, &["c09-child", surface, ctx.tier.name(), &seed, &journal]).bin(bin.into()).env("VERIF_ROOT", &crate::ctx::verif_root());
        cmd.timeout = std::time::Duration::from_secs(ctx.tier.pick(900, 3600));
        let o = cmd.run();
        let tag = format!("{} build", pname);
        let finished = ctx.absorb(&o.stdout_s(), &tag);
        match (&o.exit, finished) {
            (Exit::Code(0), true) => ctx.seen(&format!("child finished: {} [{}]", surface, tag)),
            (Exit::Timeout, _) => ctx.inconclusive(&format!("child {} [{}]: watchdog fired", surface, tag)),
            (other, _) => {
                // the child died: the journal holds the input that was being processed
                let j = std::fs::read(&journal).unwrap_or_default();
                let (surf, data) = match j.iter().position(|b| *b == b'\n') {
                    Some(p) => (String::from_utf8_lossy(&j[..p]).into_owned(), j[p + 1..].to_vec()),
                    None => (surface.clone(), vec![]),
                };
                ctx.violation(
                    &format!("C09:{}:process-died:{}", surf, other.describe()),
                    json!({"surface": surf, "profile": tag, "exit": other.describe(), "input_at_time_of_death": hex_short(&data, 800), "input_len": data.len(), "stderr": o.stderr_s().chars().take(800).collect::<String>()}),
                );
            }
        }
    });
}

fn vocabulary() -> Vec<Vec<u8>> {
    let mut v: Vec<Vec<u8>> = [
        "enc", "encrypt", "dec", "decrypt", "key", "gen", "generate", "change-pass", "extract-pub", "pass", "password", "-t", "--to", "-f", "--from", "-o", "--output", "-k", "--keyring", "--env-pass", "-h", "--help",
        "-v", "--version", "--", "-", "", "-tX", "--to=X", "exists.txt", "missing.txt", "kr.txt",
    ]
    .iter()
    .map(|s| s.as_bytes().to_vec())
    .collect();
    v.push(vec![0x66, 0xff, 0xfe]); // not UTF-8
    v
}

fn cli_argv(ctx: &Ctx) {
    let vocab = vocabulary();
    let nv = vocab.len();
    let mut rng = Rng::fork(ctx.seed, "C09-argv");
    let alice = crate::cli::Ident::new("X", "pw", &mut rng);
    let kr = crate::cli::keyring_text(&[(&alice, true)]);
    // every argv of length 0..=3; thorough: length 4 sampled
    let mut argvs: Vec<Vec<usize>> = vec![vec![]];
    for a in 0..nv {
        argvs.push(vec![a]);
        for b in 0..nv {
            argvs.push(vec![a, b]);
            for c in 0..nv {
                // quick: a seed-dependent third of the length-3 space; thorough: all of it
                if ctx.tier == Tier::Thorough || (a * 31 + b * 7 + c + ctx.seed as usize) % 3 == 0 {
                    argvs.push(vec![a, b, c]);
                }
            }
        }
    }
    let exhaustive_upto = ctx.tier.pick(2, 3);
    let extra = ctx.tier.pick(3000, 150_000);
    for _ in 0..extra {
        let l = rng.range(4, 6);
        argvs.push((0..l).map(|_| rng.below(nv as u64) as usize).collect());
    }
    ctx.note("cli_argv", json!({"vocabulary": vocab.iter().map(|v| String::from_utf8_lossy(v).into_owned()).collect::<Vec<_>>(), "exhaustive_up_to_length": exhaustive_upto, "sampled_longer": extra, "argvs": argvs.len()}));
    let threads = crate::util::ncpu();
    let chunk = (argvs.len() + threads - 1) / threads;
    par_for(threads, threads, |t| {
        let wd = WorkDir::new("c09argv");
        let lo = t * chunk;
        let hi = ((t + 1) * chunk).min(argvs.len());
        for (k, idx) in argvs[lo.min(hi)..hi].iter().enumerate() {
            // fresh fixture state for every process
            let clean = std::fs::read_dir(&wd.path).map(|d| d.count() == 2).unwrap_or(false);
            if !clean {
                let _ = std::fs::remove_dir_all(&wd.path);
                let _ = std::fs::create_dir_all(&wd.path);
                wd.write("exists.txt", b"some plaintext\n");
                wd.write("kr.txt", kr.as_bytes());
            }
            use std::os::unix::ffi::OsStringExt;
            let args: Vec<std::ffi::OsString> = idx.iter().map(|i| std::ffi::OsString::from_vec(vocab[*i].clone())).collect();
            let with_env = (lo + k) % 2 == 0;
            let mut cmd = Cmd::os_args(&wd.path, args);
            if with_env {
                cmd = cmd.env("KESTREL_PASSWORD", "pw").env("KESTREL_NEW_PASSWORD", "pw2").env("KESTREL_KEYRING", "kr.txt");
            }
            // an unrelated variable whose value is not UTF-8 is part of a perfectly ordinary environment
            if (lo + k) % 3 != 0 {
                cmd = cmd.env_os("LC_KMON_JUNK", std::ffi::OsString::from_vec(vec![b'c', b'a', b'f', 0xe9]));
            }
            cmd.timeout = std::time::Duration::from_secs(30);
            let mut o = cmd.run();
            ctx.eval();
            if o.exit == Exit::Timeout {
                // decide on a second, longer attempt: a loaded machine must not produce a verdict
                cmd.timeout = std::time::Duration::from_secs(120);
                o = cmd.run();
            }
            let case = || json!({"argv": idx.iter().map(|i| String::from_utf8_lossy(&vocab[*i]).into_owned()).collect::<Vec<_>>(), "env_set": with_env, "exit": o.exit.describe(), "stderr": o.stderr_s().chars().take(600).collect::<String>()});
            let first = idx.first().map(|i| String::from_utf8_lossy(&vocab[*i]).into_owned()).unwrap_or_default();
            match &o.exit {
                Exit::Code(0) => ctx.seen("cli argv -> exit 0"),
                Exit::Code(1) => {
                    if o.has_error_line() {
                        ctx.seen("cli argv -> exit 1 with Error: line");
                    } else {
                        ctx.violation(&format!("C09:cli:exit-1-without-error-line:{}", first), case());
                    }
                }
                Exit::Timeout if o.cpu_ms >= 90_000 => ctx.violation(&format!("C09:cli:hang:{}", first), case()),
                Exit::Timeout => ctx.inconclusive(&format!("C09 cli argv: child killed by the watchdog after using only {} ms of CPU", o.cpu_ms)),
                Exit::Code(101) => ctx.violation(&format!("C09:cli:panic-exit-101:{}", first), case()),
                other => ctx.violation(&format!("C09:cli:abnormal-termination:{}:{}", other.describe(), first), case()),
            }
            if idx.len() <= 3 || k % 16 == 0 {
                ctx.distinct(&format!("argv|{:?}|{}", idx, with_env));
            }
            if lo + k == 4321 {
                ctx.sample("cli argv", 1, || case());
            }
        }
    });
}

/// Structured argument vectors: complete, otherwise valid invocations whose FILE and -o values are hostile
/// path strings (empty, dot paths, trailing slashes, components after a regular file, directories).
fn cli_structured_argv(ctx: &Ctx) {
    let mut rng = Rng::fork(ctx.seed, "C09-sargv");
    let alice = crate::cli::Ident::new("alice", "apw", &mut rng);
    let bob = crate::cli::Ident::new("bob", "bpw", &mut rng);
    let kr = crate::cli::keyring_text(&[(&alice, true), (&bob, true)]);
    let kf = refspec::encode_key_file(&alice.sk, &alice.pk, &bob.pk, &rng.arr32(), &rng.arr32(), b"hello", &[5]).unwrap();
    let pf = refspec::encode_pass_file(b"apw", &rng.arr32(), b"hello", &[5]);
    let paths = ["", ".", "..", "/", "./", "exists.bin", "./exists.bin", "exists.bin/", "exists.bin/..", "exists.bin/x", "sub", "sub/", "sub/..", "sub/new", "missing", "missing/..", "missing/new", "-", "--", "\u{e9}\u{1f511}", "a\nb", " ",
        // file-system shapes (created below): symlink to itself, two- and three-link cycles, dangling link, link to a dangling link, links to a file and to a directory
        "loop", "cyc-a", "tri-a", "dangling", "to-dangling", "to-exists", "to-sub", "to-sub/new"];
    let mut jobs: Vec<(usize, usize, usize)> = Vec::new();
    for cmd in 0..4 {
        for i in 0..paths.len() {
            for o in 0..paths.len() {
                if ctx.tier == Tier::Thorough || (cmd * 7 + i * 3 + o + ctx.seed as usize) % 4 == 0 || i == 5 {
                    jobs.push((cmd, i, o));
                }
            }
        }
    }
    ctx.note("cli_structured_argv", json!({"path_values": paths, "commands": ["encrypt", "decrypt", "password encrypt", "password decrypt"], "executions": jobs.len()}));
    let threads = crate::util::ncpu();
    let chunk = (jobs.len() + threads - 1) / threads;
    par_for(threads, threads, |t| {
        let wd = WorkDir::new("c09sargv");
        for (cmd, i, o) in jobs.iter().skip(t * chunk).take(chunk) {
            let _ = std::fs::remove_dir_all(&wd.path);
            let _ = std::fs::create_dir_all(wd.path.join("sub"));
            wd.write("kr.txt", kr.as_bytes());
            wd.write("exists.bin", if *cmd == 1 { &kf[..] } else if *cmd == 3 { &pf[..] } else { b"plaintext" });
            {
                use std::os::unix::fs::symlink;
                let abs_c = wd.path.join("tri-c");
                for (target, link) in [("loop", "loop"), ("cyc-b", "cyc-a"), ("cyc-a", "cyc-b"), ("tri-b", "tri-a"), (abs_c.to_str().unwrap(), "tri-b"), ("./tri-a", "tri-c"), ("nowhere", "dangling"), ("dangling", "to-dangling"), ("exists.bin", "to-exists"), ("sub", "to-sub")] {
                    let _ = symlink(target, wd.path.join(link));
                }
            }
            // where the keyring comes from rotates: -k, KESTREL_KEYRING, or nowhere at all
            let kr_mode = (*i + *o) % 3;
            let mut args: Vec<&str> = match cmd {
                0 if kr_mode == 0 => vec!["encrypt", paths[*i], "-t", "bob", "-f", "alice", "-k", "kr.txt", "--env-pass"],
                0 => vec!["encrypt", paths[*i], "-t", "bob", "-f", "alice", "--env-pass"],
                1 if kr_mode == 0 => vec!["decrypt", paths[*i], "-t", "bob", "-k", "kr.txt", "--env-pass"],
                1 => vec!["decrypt", paths[*i], "-t", "bob", "--env-pass"],
                2 => vec!["password", "encrypt", paths[*i], "--env-pass"],
                _ => vec!["password", "decrypt", paths[*i], "--env-pass"],
            };
            args.push("-o");
            args.push(paths[*o]);
            let mut c = Cmd::new(&wd.path, &args).pass(if *cmd == 1 { "bpw" } else { "apw" });
            if kr_mode == 1 {
                c = c.env("KESTREL_KEYRING", "kr.txt");
            }
            {
                use std::os::unix::ffi::OsStringExt;
                c = c.env_os("LC_KMON_JUNK", std::ffi::OsString::from_vec(vec![b'c', b'a', b'f', 0xe9]));
            }
            c.timeout = std::time::Duration::from_secs(12);
            let out = c.run();
            ctx.eval();
            let case = || json!({"argv": args, "exit": out.exit.describe(), "cpu_ms_used_by_the_child": out.cpu_ms, "stderr": out.stderr_s().chars().take(500).collect::<String>()});
            match &out.exit {
                Exit::Code(0) => ctx.seen("cli structured argv -> exit 0"),
                Exit::Code(1) if out.has_error_line() => {
                    ctx.seen("cli structured argv -> exit 1 with Error: line");
                    ctx.distinct(&format!("sargv|{}|{}|{}", cmd, i, o));
                }
                Exit::Code(1) => ctx.violation("C09:cli-paths:exit-1-without-error-line", case()),
                Exit::Code(101) => ctx.violation("C09:cli-paths:panic-exit-101", case()),
                // a child that was killed after 12 s having burnt most of them on the CPU was spinning on a few bytes of
                // input (normal runs take about 0.06 s); one that used little CPU was blocked or starved: not a verdict
                Exit::Timeout if out.cpu_ms >= 9_000 => ctx.violation("C09:cli-paths:unbounded-work-on-a-tiny-input", case()),
                Exit::Timeout => ctx.inconclusive(&format!("C09 cli-paths: child killed by the watchdog after using only {} ms of CPU", out.cpu_ms)),
                other => ctx.violation(&format!("C09:cli-paths:{}", other.describe()), case()),
            }
        }
    });
}

/// Hostile files and keyrings through the real binary (both profiles of the CLI).
fn cli_files(ctx: &Ctx) {
    let mut rng = Rng::fork(ctx.seed, "C09-clifiles");
    let alice = crate::cli::Ident::new("alice", "apw", &mut rng);
    let bob = crate::cli::Ident::new("bob", "bpw", &mut rng);
    let wd = WorkDir::new("c09files");
    wd.write("kr.txt", crate::cli::keyring_text(&[(&alice, true), (&bob, true)]).as_bytes());
    let f = refspec::encode_key_file(&alice.sk, &alice.pk, &bob.pk, &rng.arr32(), &rng.arr32(), b"hello!!", &[3, 3, 1]).unwrap();
    let mut files: Vec<(String, Vec<u8>)> = Vec::new();
    for l in (0..=f.len()).step_by(ctx.tier.pick(7, 1)) {
        files.push((format!("prefix {}", l), f[..l].to_vec()));
    }
    for len in [65537u32, 1 << 31, u32::MAX] {
        let mut x = f[..132].to_vec();
        x.extend_from_slice(&0u64.to_be_bytes());
        x.extend_from_slice(&1u32.to_be_bytes());
        x.extend_from_slice(&len.to_be_bytes());
        x.extend_from_slice(&rng.bytes(100));
        files.push((format!("length field {}", len), x));
    }
    for i in 0..ctx.tier.pick(20, 300) {
        let mut x = f.clone();
        for _ in 0..rng.range(1, 5) {
            let p = rng.below(x.len() as u64) as usize;
            x[p] = rng.next() as u8;
        }
        files.push((format!("mutation {}", i), x));
    }
    let bins = [("release", crate::cli::kestrel_bin()), ("checked", crate::cli::kestrel_bin_checked())];
    let wdp = &wd;
    par_for(files.len(), crate::util::ncpu(), |i| {
        let (what, bytes) = &files[i];
        let p = wdp.write(&format!("f{}.ktl", i), bytes);
        for (pname, bin) in &bins {
            if !bin.exists() {
                continue;
            }
            for pass_mode in [false, true] {
                let o = if pass_mode {
                    Cmd::new(&wdp.path, &["pass", "dec", p.to_str().unwrap(), "--env-pass"]).bin(bin.clone()).pass("x").run()
                } else {
                    Cmd::new(&wdp.path, &["decrypt", p.to_str().unwrap(), "-t", "bob", "-k", "kr.txt", "--env-pass"]).bin(bin.clone()).pass("bpw").run()
                };
                ctx.eval();
                let case = || json!({"file": hex_short(bytes, 400), "class": what, "command": if pass_mode { "kestrel pass dec FILE --env-pass" } else { "kestrel decrypt FILE -t bob -k kr.txt --env-pass" }, "profile": pname, "exit": o.exit.describe(), "stderr": o.stderr_s()});
                match &o.exit {
                    Exit::Code(1) if o.has_error_line() => {
                        ctx.seen(&format!("cli hostile file -> exit 1 + Error: [{}]", pname));
                        ctx.distinct(&format!("clifile|{}|{}|{}", what, pname, pass_mode));
                    }
                    // whether a file is *accepted* is C03's question; here only the manner of ending counts
                    Exit::Code(0) => ctx.seen("cli file -> exit 0"),
                    Exit::Code(1) => ctx.violation("C09:cli-file:exit-1-without-error-line", case()),
                    Exit::Timeout => ctx.inconclusive("C09 cli files: timeout"),
                    other => ctx.violation(&format!("C09:cli-file:{}", other.describe()), case()),
                }
            }
        }
    });
    // hostile keyrings
    let keyrings: Vec<Vec<u8>> = vec![vec![], b"[Key]".to_vec(), b"[Key]\nName = bob\n".to_vec(), vec![0xff, 0xfe, 0x00], b"Name = bob".to_vec(), rng.bytes(300), format!("[Key]\nName = bob\nPublicKey = {}\nPrivateKey = AAAA\n", bob.encoded_pk).into_bytes()];
    for (i, k) in keyrings.iter().enumerate() {
        wd.write("bad.txt", k);
        wd.write("in.ktl", &f);
        let o = Cmd::new(&wd.path, &["decrypt", "in.ktl", "-t", "bob", "-k", "bad.txt", "--env-pass"]).pass("bpw").run();
        ctx.eval();
        if o.exit == Exit::Code(1) && o.has_error_line() {
            ctx.seen("cli hostile keyring -> exit 1 + Error:");
            ctx.distinct(&format!("clikr|{}", i));
        } else {
            ctx.violation(&format!("C09:cli-keyring:{}", o.exit.describe()), json!({"keyring": hex_short(k, 300), "exit": o.exit.describe(), "stderr": o.stderr_s()}));
        }
    }
    // key TEXTS that are almost well formed (characters inserted into, wrapped around or substituted in a valid public
    // or locked private key), put where a key text can stand - a keyring entry that is then actually USED (as
    // recipient, as sender, to name a sender) and the KEY argument of extract-pub / change-pass: errors only
    {
        let kwd = WorkDir::new("c09keys");
        kwd.write("in.ktl", &f);
        kwd.write("p.txt", b"x");
        let mut texts: Vec<(String, String, String)> = Vec::new(); // (what, public text, private text)
        for (what, t) in crate::c17cli::key_spellings(&bob.encoded_pk, &mut rng) {
            texts.push((format!("public key: {}", what), t, bob.locked.clone()));
        }
        for (what, t) in crate::c17cli::key_spellings(&bob.locked, &mut rng) {
            texts.push((format!("private key: {}", what), bob.encoded_pk.clone(), t));
        }
        let step = ctx.tier.pick(3, 1);
        let texts: Vec<(String, String, String)> = texts.into_iter().enumerate().filter(|(i, _)| (i + ctx.seed as usize) % step == 0).map(|(_, t)| t).collect();
        let kwdp = &kwd;
        let (alice, f) = (&alice, &f);
        par_for(texts.len(), crate::util::ncpu(), |i| {
            let (what, pubt, privt) = &texts[i];
            let krname = format!("k{}.txt", i);
            kwdp.write(&krname, format!("{}\n[Key]\nName = bob\nPublicKey = {}\nPrivateKey = {}\n", alice.entry(true), pubt, privt).as_bytes());
            let _ = f;
            let runs: Vec<(&str, Cmd)> = vec![
                ("used as recipient (encrypt -t)", Cmd::new(&kwdp.path, &["encrypt", "p.txt", "-t", "bob", "-f", "alice", "-k", &krname, "--env-pass"]).pass("apw")),
                ("used as sender (encrypt -f)", Cmd::new(&kwdp.path, &["encrypt", "p.txt", "-t", "alice", "-f", "bob", "-k", &krname, "--env-pass"]).pass("bpw")),
                ("used to decrypt (decrypt -t)", Cmd::new(&kwdp.path, &["decrypt", "in.ktl", "-t", "bob", "-k", &krname, "--env-pass"]).pass("bpw")),
                ("KEY argument of extract-pub", Cmd::new(&kwdp.path, &["key", "extract-pub", privt, "--env-pass"]).pass("bpw")),
                ("KEY argument of change-pass", Cmd::new(&kwdp.path, &["key", "change-pass", privt, "--env-pass"]).pass("bpw").env("KESTREL_NEW_PASSWORD", "n")),
            ];
            for (role, cmd) in runs {
                let o = cmd.run();
                ctx.eval();
                let case = || json!({"key_text": what, "role": role, "public_text": pubt, "private_text": privt, "exit": o.exit.describe(), "stderr": o.stderr_s().chars().take(400).collect::<String>()});
                match &o.exit {
                    Exit::Code(0) => ctx.seen("cli almost-well-formed key text -> exit 0"),
                    Exit::Code(1) if o.has_error_line() => {
                        ctx.seen("cli almost-well-formed key text -> exit 1 + Error:");
                        ctx.distinct(&format!("clikeytext|{}|{}", what, role));
                    }
                    Exit::Code(1) => ctx.violation("C09:cli-key-text:exit-1-without-error-line", case()),
                    Exit::Timeout => ctx.inconclusive("C09 cli key texts: timeout"),
                    other => ctx.violation(&format!("C09:cli-key-text:{}", other.describe().replace(' ', "-")), case()),
                }
            }
        });
    }
    // hostile environment values and hostile stdin (key names): errors only
    {
        use std::os::unix::ffi::OsStringExt;
        let bad = std::ffi::OsString::from_vec(vec![0x66, 0xff, 0xfe, 0x80]);
        wd.write("in.ktl", &f);
        wd.write("p.txt", b"x");
        let mut runs: Vec<(String, Cmd)> = Vec::new();
        runs.push(("KESTREL_PASSWORD not UTF-8 (decrypt)".into(), Cmd::new(&wd.path, &["decrypt", "in.ktl", "-t", "bob", "-k", "kr.txt", "--env-pass"]).env_os("KESTREL_PASSWORD", bad.clone())));
        runs.push(("KESTREL_PASSWORD not UTF-8 (password encrypt)".into(), Cmd::new(&wd.path, &["password", "encrypt", "p.txt", "--env-pass"]).env_os("KESTREL_PASSWORD", bad.clone())));
        runs.push(("KESTREL_KEYRING not UTF-8".into(), Cmd::new(&wd.path, &["decrypt", "in.ktl", "-t", "bob", "--env-pass"]).pass("bpw").env_os("KESTREL_KEYRING", bad.clone())));
        runs.push(("KESTREL_NEW_PASSWORD not UTF-8".into(), Cmd::new(&wd.path, &["key", "change-pass", &alice.locked, "--env-pass"]).pass("apw").env_os("KESTREL_NEW_PASSWORD", bad.clone())));
        runs.push(("KESTREL_NEW_PASSWORD unset".into(), Cmd::new(&wd.path, &["key", "change-pass", &alice.locked, "--env-pass"]).pass("apw")));
        runs.push(("keyring is a directory".into(), Cmd::new(&wd.path, &["decrypt", "in.ktl", "-t", "bob", "-k", ".", "--env-pass"]).pass("bpw")));
        runs.push(("keyring is /dev/null".into(), Cmd::new(&wd.path, &["decrypt", "in.ktl", "-t", "bob", "-k", "/dev/null", "--env-pass"]).pass("bpw")));
        runs.push(("empty private key argument".into(), Cmd::new(&wd.path, &["key", "extract-pub", "", "--env-pass"]).pass("x")));
        runs.push(("private key argument of 100 kB".into(), Cmd::new(&wd.path, &["key", "extract-pub", &"A".repeat(100_000), "--env-pass"]).pass("x")));
        for (what, name) in [("NUL in the key name", b"a\0b\n".to_vec()), ("key name not UTF-8", vec![0xff, 0xfe, b'\n']), ("key name of 1 MB", vec![b'n'; 1 << 20]), ("key name of only spaces", b"     \n".to_vec()), ("no newline after the key name", b"joe".to_vec())] {
            runs.push((format!("key generate: {}", what), Cmd::new(&wd.path, &["key", "generate", "--env-pass"]).pass("pw").stdin(Stdin::Bytes(name))));
        }
        for (what, cmd) in runs {
            let o = cmd.run();
            ctx.eval();
            let case = || json!({"case": what, "command": cmd.describe().chars().take(300).collect::<String>(), "exit": o.exit.describe(), "stderr": o.stderr_s().chars().take(500).collect::<String>()});
            match &o.exit {
                Exit::Code(0) => ctx.seen("cli hostile environment/stdin -> exit 0"),
                Exit::Code(1) if o.has_error_line() => {
                    ctx.seen("cli hostile environment/stdin -> exit 1 + Error:");
                    ctx.distinct(&format!("clienv|{}", what));
                }
                Exit::Code(1) => ctx.violation("C09:cli-env:exit-1-without-error-line", case()),
                Exit::Timeout if o.cpu_ms >= 90_000 => ctx.violation("C09:cli-env:hang", case()),
                Exit::Timeout => ctx.inconclusive(&format!("C09 cli-env: child killed by the watchdog after using only {} ms of CPU", o.cpu_ms)),
                other => ctx.violation(&format!("C09:cli-env:{}", other.describe()), case()),
            }
        }
    }
    // thorough: one valgrind memcheck smoke run of the CLI on a hostile file
    if ctx.tier == Tier::Thorough {
        let p = wd.write("vg.ktl", &f[..f.len() - 3]);
        let bin = crate::cli::kestrel_bin();
        let o = Cmd::new(&wd.path, &["-q", "--error-exitcode=9", bin.to_str().unwrap(), "decrypt", p.to_str().unwrap(), "-t", "bob", "-k", "kr.txt", "--env-pass"]).bin("/usr/bin/valgrind".into()).pass("bpw").run();
        ctx.eval();
        if o.exit == Exit::Code(9) {
            ctx.violation("C09:cli:valgrind-memcheck-report", json!({"stderr": o.stderr_s().chars().take(1500).collect::<String>()}));
        } else {
            ctx.seen(&format!("valgrind smoke lane: {}", o.exit.describe()));
        }
    }
    let _ = Stdin::Null;
}


/// Raw key material of every length 0..=100 offered to the key containers and then USED: a wrong length must be an
/// error value at construction or at use - never a panic further down (Diffie-Hellman, public-key derivation,
/// encryption to / from such a key).
fn raw_key_lengths(ctx: &Ctx) {
    use kestrel_crypto::{PrivateKey, PublicKey};
    let mut rng = Rng::fork(ctx.seed, "C09-rawkeys");
    let good_sk = crate::kio::sk(&rng.arr32());
    let good_pk = good_sk.to_public().unwrap();
    for len in 0..=100usize {
        let bytes = rng.bytes(len);
        ctx.eval();
        let r = crate::kio::guarded(|| {
            let mut notes: Vec<String> = Vec::new();
            if let Ok(sk) = PrivateKey::try_from(&bytes[..]) {
                notes.push(format!("PrivateKey accepted {} bytes", len));
                let _ = sk.to_public();
                let _ = sk.diffie_hellman(&good_pk);
                let _ = sk.clone();
            }
            if let Ok(pk) = PublicKey::try_from(&bytes[..]) {
                notes.push(format!("PublicKey accepted {} bytes", len));
                let _ = good_sk.diffie_hellman(&pk);
                let mut out = Vec::new();
                let _ = kestrel_crypto::encrypt::key_encrypt(&mut &b"x"[..], &mut out, &good_sk, &good_pk, &pk, None, None, None, kestrel_crypto::AsymFileFormat::V1);
            }
            notes
        });
        match r {
            Err(p) => ctx.violation(&format!("C09:raw-key:panic:{}", panic_site(&p)), json!({"length": len, "bytes": hex_short(&bytes, 64)})),
            Ok(_) => {
                ctx.seen("raw key material of any length: error values only");
                ctx.distinct(&format!("rawkey|{}", len));
            }
        }
    }
}


/// Unusual but legal STATES OF THE PROCESS the tool is started in: the current directory has been removed, one of the
/// standard descriptors is closed, the descriptor limit is tiny, the umask masks everything, HOME / PATH are absent
/// (they always are here), arguments relative or absolute. Whatever the state: exit 0 or 1, an `Error:` line with 1
/// (where stderr exists), never a panic or a signal.
fn cli_process_states(ctx: &Ctx) {
    let mut rng = Rng::fork(ctx.seed, "C09-states");
    let alice = crate::cli::Ident::new("alice", "apw", &mut rng);
    let bob = crate::cli::Ident::new("bob", "bpw", &mut rng);
    let wd = WorkDir::new("c09states");
    wd.write("kr.txt", crate::cli::keyring_text(&[(&alice, true), (&bob, true)]).as_bytes());
    wd.write("p.txt", b"some plaintext");
    let kf = refspec::encode_key_file(&alice.sk, &alice.pk, &bob.pk, &rng.arr32(), &rng.arr32(), b"hello", &[5]).unwrap();
    let pf = refspec::encode_pass_file(b"bpw", &rng.arr32(), b"hello", &[5]);
    wd.write("k.ktl", &kf);
    wd.write("p.ktl", &pf);
    let abs = |n: &str| wd.file(n).to_string_lossy().into_owned();
    let states: Vec<(&str, &str, bool)> = vec![
        // (what, sh prelude, is stderr still there?)
        ("current directory removed", "mkdir -p gone.$$ && cd gone.$$ && rmdir ../gone.$$", true),
        ("current directory removed, two levels", "mkdir -p g2.$$/x && cd g2.$$/x && rm -rf ../../g2.$$", true),
        ("stdin closed", "exec 0<&-", true),
        ("stdout closed", "exec 1>&-", true),
        ("stderr closed", "exec 2>&-", false),
        ("all three standard descriptors closed", "exec 0<&- 1>&- 2>&-", false),
        ("descriptor limit 4", "ulimit -n 4", true),
        ("descriptor limit 5", "ulimit -n 5", true),
        ("umask 777", "umask 777", true),
        ("umask 000", "umask 000", true),
        ("tiny stack limit", "ulimit -s 64", true),
        ("address space limit 48 MiB (scrypt needs 32 MiB)", "ulimit -v 49152", true),
        ("CPU time limit 1 s", "ulimit -t 1", true),
        ("core dumps disabled, nice 19", "ulimit -c 0; renice -n 19 $$ >/dev/null 2>&1 || true", true),
    ];
    let mut jobs: Vec<(usize, usize, bool)> = Vec::new();
    for si in 0..states.len() {
        for ci in 0..7 {
            for absolute in [false, true] {
                jobs.push((si, ci, absolute));
            }
        }
    }
    let wdp = &wd;
    let (alice, states) = (&alice, &states);
    par_for(jobs.len(), crate::util::ncpu(), |j| {
        let (si, ci, absolute) = jobs[j];
        let (what, prelude, has_stderr) = states[si];
        let f = |n: &str| if absolute { abs(n) } else { n.to_string() };
        let out = f(&format!("out-{}.bin", j));
        let (args, pw): (Vec<String>, &str) = match ci {
            0 => (vec!["encrypt".into(), f("p.txt"), "-t".into(), "bob".into(), "-f".into(), "alice".into(), "-o".into(), out.clone(), "-k".into(), f("kr.txt"), "--env-pass".into()], "apw"),
            1 => (vec!["decrypt".into(), f("k.ktl"), "-t".into(), "bob".into(), "-o".into(), out.clone(), "-k".into(), f("kr.txt"), "--env-pass".into()], "bpw"),
            2 => (vec!["password".into(), "encrypt".into(), f("p.txt"), "-o".into(), out.clone(), "--env-pass".into()], "bpw"),
            3 => (vec!["password".into(), "decrypt".into(), f("p.ktl"), "-o".into(), out.clone(), "--env-pass".into()], "bpw"),
            4 => (vec!["decrypt".into(), f("k.ktl"), "-t".into(), "bob".into(), "-k".into(), f("kr.txt"), "--env-pass".into()], "bpw"),
            5 => (vec!["key".into(), "extract-pub".into(), alice.locked.clone(), "--env-pass".into()], "apw"),
            _ => (vec!["key".into(), "generate".into(), "-o".into(), f(&format!("gen-{}.txt", j)), "--env-pass".into()], "gpw"),
        };
        let argrefs: Vec<&str> = args.iter().map(|x| x.as_str()).collect();
        let mut c = Cmd::new(&wdp.path, &argrefs).pass(pw).prelude(prelude);
        if ci == 6 {
            c = c.stdin(Stdin::Bytes(b"newkey\n".to_vec()));
        }
        c.timeout = std::time::Duration::from_secs(60);
        let o = c.run();
        ctx.eval();
        let case = || json!({"process_state": what, "sh_prelude": prelude, "argv": args, "paths": if absolute { "absolute" } else { "relative" }, "exit": o.exit.describe(), "stderr": o.stderr_s().chars().take(400).collect::<String>()});
        match &o.exit {
            Exit::Code(0) => ctx.seen(&format!("cli in an unusual process state -> exit 0 ({})", what)),
            Exit::Code(1) if o.has_error_line() || !has_stderr => {
                ctx.seen(&format!("cli in an unusual process state -> exit 1 ({})", what));
                ctx.distinct(&format!("state|{}|{}|{}", si, ci, absolute));
            }
            Exit::Code(1) => ctx.violation("C09:cli-process-state:exit-1-without-error-line", case()),
            // the limits themselves may end the process: CPU limit -> SIGXCPU/SIGKILL, address space -> allocation abort
            Exit::Signal(_) if what.starts_with("CPU time limit") => ctx.seen("cli under a CPU time limit was ended by the limit itself"),
            Exit::Signal(6) | Exit::Code(101) | Exit::Code(134) if what.starts_with("address space limit") || what.starts_with("tiny stack") => ctx.seen("cli under a memory limit was ended by the limit itself (allocation failure)"),
            Exit::Timeout => ctx.inconclusive("C09 process states: timeout"),
            // 126 / 127 come from the launching shell (the tool could not be exec'ed in that state): not an observation of the tool
            Exit::Code(126) | Exit::Code(127) => ctx.seen("launcher could not exec the tool in this process state (not judged)"),
            other => ctx.violation(&format!("C09:cli-process-state:{}:{}", what.replace(' ', "-").replace(',', ""), other.describe().replace(' ', "-")), case()),
        }
    });
}

pub fn run(ctx: &Ctx) {
    ctx.rule(
        "library surfaces (key_decrypt, pass_decrypt, noise_decrypt, both AEAD opens, key-string decoders, keyring parser) are offered: every prefix length of authentic inputs, every length \
         of random bytes, all two-byte continuations of a valid magic, attacker-chosen length fields with short and 70 kB bodies, seeded mutations and random strings, all strings of <=3 symbols \
         over a 12-symbol alphabet; each call under catch_unwind, a reader call budget and a per-call allocation reading, inside child processes (checked and release builds) that journal \
         the input. The CLI is started with every argv of length <=2 (quick; <=3 thorough) over a 33-token vocabulary plus a third of the length-3 space and sampled longer ones, and with hostile files and keyrings. distinct_nontrivial counts distinct \
         (surface, class, length/value) inputs and distinct argvs",
    );
    ctx.assume("readers that return Interrupted for ever make read_exact spin by std's contract; that is not hostile bytes and is not driven");
    ctx.assume("the interactive tty password path is outside the quantifier (children have no controlling terminal)");
    // KMON_C09_ONLY=children|argv|files restricts the run (debugging aid; the registered commands never set it)
    let only = std::env::var("KMON_C09_ONLY").unwrap_or_default();
    if only.is_empty() || only == "children" {
        run_children(ctx);
        raw_key_lengths(ctx);
    }
    if only.is_empty() || only == "argv" {
        cli_argv(ctx);
    }
    if only.is_empty() || only == "files" {
        cli_files(ctx);
    }
    if only.is_empty() || only == "sargv" {
        cli_structured_argv(ctx);
    }
    if only.is_empty() || only == "states" {
        cli_process_states(ctx);
    }
    ctx.require("child finished", 10);
    ctx.require("decrypt-key attacker-chosen length field", 50);
    ctx.require("noise ", 300);
    ctx.require("cli argv -> exit", 5_000);
    ctx.require("cli hostile file -> exit 1", 20);
    ctx.require("cli in an unusual process state -> exit", 150);
    ctx.require("cli almost-well-formed key text -> exit", 100);
    ctx.require("cli structured argv -> exit", 300);
    ctx.require("cli hostile environment/stdin -> exit", 10);
}
