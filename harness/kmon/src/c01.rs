//! C01 - key-mode round trip; decryption names the sender.

use crate::ctx::{Ctx, Tier};
use crate::ioscript::Sched;
use crate::kio::{key_decrypt_run, key_encrypt_run, Io, KeyEnc, Outcome};
use crate::refspec;
use crate::streams::*;
use crate::util::{hex, hex_short, par_for, Rng};
use serde_json::json;

pub struct Keys {
    pub s_priv: [u8; 32],
    pub s_pub: [u8; 32],
    pub r_priv: [u8; 32],
    pub r_pub: [u8; 32],
}

pub fn fresh_keys(rng: &mut Rng) -> Keys {
    let s_priv = rng.arr32();
    let r_priv = rng.arr32();
    Keys { s_priv, s_pub: refspec::pubkey_of(&s_priv), r_priv, r_pub: refspec::pubkey_of(&r_priv) }
}

/// Edge scalars: all-zero, all-0xff, already clamped, bits that clamping removes set.
pub fn edge_scalars() -> Vec<[u8; 32]> {
    let mut v = vec![[0u8; 32], [0xffu8; 32]];
    let mut c = [0x42u8; 32];
    c[0] &= 248;
    c[31] = (c[31] & 127) | 64;
    v.push(c);
    let mut d = [0x11u8; 32];
    d[0] |= 7;
    d[31] |= 0x80;
    v.push(d);
    v
}

/// One production-size key-mode round trip with every oracle of C01.
pub fn prod_roundtrip(ctx: &Ctx, k: &Keys, pt: &[u8], enc_io: &Io, dec_io: &Io, e_priv: Option<[u8; 32]>, payload: Option<[u8; 32]>, tag: &str) -> bool {
    let case = || {
        json!({
            "len": pt.len(), "plaintext": hex_short(pt, 48), "sender_private": hex(&k.s_priv), "recipient_private": hex(&k.r_priv),
            "ephemeral_private": e_priv.map(|e| hex(&e)), "payload_key": payload.map(|p| hex(&p)),
            "encrypt_io": enc_io.describe(), "decrypt_io": dec_io.describe(), "block": tag,
        })
    };
    ctx.eval();
    let e = key_encrypt_run(pt, enc_io, &KeyEnc { s_priv: &k.s_priv, s_pub: &k.s_pub, r_pub: &k.r_pub, e_priv, payload });
    if e.log.budget_hit() {
        ctx.violation("C01:prod:encrypt:call-budget-exceeded", case());
        return false;
    }
    if !e.outcome.is_ok() {
        ctx.violation(&format!("C01:prod:encrypt-failed:{}", sig_class(&e.outcome)), case());
        return false;
    }
    match refspec::decode_key_file(&e.out, &k.r_priv, &k.r_pub) {
        Ok(d) if d.body.complete() && d.body.plaintext() == pt && d.sender == k.s_pub => {
            ctx.seen(&format!("prod: chunks={}", d.body.chunks.len().min(8)));
        }
        Ok(d) => {
            let mut v = case();
            v["reference_end"] = json!(format!("{:?}", d.body.end));
            v["reference_sender"] = json!(hex(&d.sender));
            ctx.violation("C01:prod:reference-cannot-decode-output", v);
            return false;
        }
        Err(why) => {
            let mut v = case();
            v["reference_error"] = json!(why);
            ctx.violation("C01:prod:reference-rejects-handshake", v);
            return false;
        }
    }
    let d = key_decrypt_run(&e.out, dec_io, &k.r_priv, &k.r_pub);
    if d.log.budget_hit() {
        ctx.violation("C01:prod:decrypt:call-budget-exceeded", case());
        return false;
    }
    match &d.outcome {
        Outcome::Ok(Some(sender)) => {
            if d.out != pt {
                let mut v = case();
                v["got_len"] = json!(d.out.len());
                ctx.violation("C01:prod:roundtrip-bytes-differ", v);
                return false;
            }
            if sender != &k.s_pub {
                let mut v = case();
                v["reported_sender"] = json!(hex(sender));
                v["expected_sender"] = json!(hex(&k.s_pub));
                ctx.violation("C01:prod:wrong-sender-reported", v);
                return false;
            }
            true
        }
        o => {
            ctx.violation(&format!("C01:prod:decrypt-failed:{}", sig_class(o)), case());
            false
        }
    }
}

/// Round trips through the real binary, via files and pipes, onto fresh and onto already
/// existing (longer) output paths: the decrypted bytes must be exactly the original.

/// key_encrypt takes three optional arguments (ephemeral private key, ephemeral public key, payload key): every
/// combination of given / not given is a legal way of calling it, and each must produce a file that decrypts to
/// the plaintext and names the sender.
fn optional_argument_forms(ctx: &Ctx) {
    use crate::kio::{EHalves, E_HALVES};
    let rounds = ctx.tier.pick(6, 120);
    let mut rng = Rng::fork(ctx.seed, "C01-optargs");
    for round in 0..rounds {
        let k = fresh_keys(&mut rng);
        let len = *rng.pick(&[0usize, 1, 13, 65536, 65537, 131072 + 5]);
        let pt = rng.bytes(len);
        for (halves, hname) in [(EHalves::Consistent, "both ephemeral halves"), (EHalves::PrivateOnly, "ephemeral private key only"), (EHalves::PublicOnly, "ephemeral public key only")] {
            for e_given in [true, false] {
                if !e_given && halves != EHalves::Consistent {
                    continue;
                }
                for payload_given in [true, false] {
                    let what = format!("{}, payload key {}", if e_given { hname } else { "no ephemeral key" }, if payload_given { "given" } else { "not given" });
                    E_HALVES.with(|h| h.set(halves));
                    let io = Io::new(Sched::all(), Sched::all());
                    let ok = prod_roundtrip(ctx, &k, &pt, &io, &io, if e_given { Some(rng.arr32()) } else { None }, if payload_given { Some(rng.arr32()) } else { None }, &format!("optional-arguments:{}", what.replace(' ', "-").replace(',', "")));
                    E_HALVES.with(|h| h.set(EHalves::Consistent));
                    if ok {
                        ctx.seen(&format!("optional argument form round-trips: {}", what));
                        ctx.distinct(&format!("optargs|{}|{}|{}", round, what, len));
                    }
                }
            }
        }
    }
}


/// HISTORIES on one thread: a few identities, every ordered (sender, recipient) pair, in several orders of operation
/// (all encryptions then all decryptions; each file decrypted at once; grouped by recipient; grouped by sender). A
/// file's fate must not depend on which handshakes the same thread performed before.
fn same_thread_histories(ctx: &Ctx) {
    let rounds = ctx.tier.pick(2, 30);
    for round in 0..rounds {
        let mut rng = Rng::fork(ctx.seed, &format!("C01-hist-{}", round));
        let ids: Vec<([u8; 32], [u8; 32])> = (0..4).map(|_| { let k = rng.arr32(); (k, refspec::pubkey_of(&k)) }).collect();
        let mut pairs: Vec<(usize, usize)> = (0..4).flat_map(|a| (0..4).map(move |b| (a, b))).collect();
        for order in 0..4 {
            match order {
                0 => {}
                1 => pairs.sort_by_key(|p| (p.1, p.0)), // grouped by recipient
                2 => pairs.sort_by_key(|p| (p.0, p.1)), // grouped by sender
                _ => {
                    for i in (1..pairs.len()).rev() {
                        let j = rng.below(i as u64 + 1) as usize;
                        pairs.swap(i, j);
                    }
                }
            }
            let ptlen = *rng.pick(&[0usize, 7, 65536 + 3]);
            let pt = rng.bytes(ptlen);
            let mut files: Vec<Vec<u8>> = Vec::new();
            let interleave = order % 2 == 1;
            let mut judge = |ctx: &Ctx, step: usize, a: usize, b: usize, f: &Vec<u8>| -> bool {
                let d = key_decrypt_run(f, &Io::plain(), &ids[b].0, &ids[b].1);
                ctx.eval();
                let ok = matches!(&d.outcome, Outcome::Ok(Some(s)) if *s == ids[a].1) && d.out == pt;
                if !ok {
                    ctx.violation("C01:history:file-does-not-round-trip-after-earlier-handshakes-on-the-same-thread", json!({"round": round, "order": (["all pairs, encrypt then decrypt", "grouped by recipient, decrypt at once", "grouped by sender, encrypt then decrypt", "shuffled, decrypt at once"][order]), "step": step, "sender_index": a, "recipient_index": b, "result": d.outcome.class(), "plaintext_len": pt.len()}));
                }
                ok
            };
            let mut all_ok = true;
            for (step, &(a, b)) in pairs.iter().enumerate() {
                let e = key_encrypt_run(&pt, &Io::plain(), &KeyEnc { s_priv: &ids[a].0, s_pub: &ids[a].1, r_pub: &ids[b].1, e_priv: None, payload: None });
                ctx.eval();
                if !e.outcome.is_ok() {
                    ctx.violation(&format!("C01:history:encrypt-failed:{}", sig_class(&e.outcome)), json!({"round": round, "step": step}));
                    all_ok = false;
                    break;
                }
                if interleave {
                    if !judge(ctx, step, a, b, &e.out) {
                        all_ok = false;
                        break;
                    }
                } else {
                    files.push(e.out);
                }
            }
            if all_ok && !interleave {
                for (step, (&(a, b), f)) in pairs.iter().zip(files.iter()).enumerate() {
                    if !judge(ctx, step, a, b, f) {
                        all_ok = false;
                        break;
                    }
                }
            }
            if all_ok {
                ctx.seen("same-thread history: every (sender, recipient) pair round-trips whatever came before");
                ctx.distinct(&format!("hist|{}|{}", round, order));
            }
        }
    }
}

fn cli_roundtrips(ctx: &Ctx) {
    use crate::cli::{keyring_text, Cmd, Exit, Ident, Stdin, WorkDir};
    let mut rng = Rng::fork(ctx.seed, "C01-cli");
    let alice = Ident::new("alice", "apw", &mut rng);
    let bob = Ident::new("bob", "bpw", &mut rng);
    let lens = [0usize, 1, 65535, 65536, 65537, 150_000];
    let lens: Vec<usize> = lens.iter().copied().chain((0..ctx.tier.pick(2, 12)).map(|_| rng.range(2, 300_000))).collect();
    let seeds: Vec<u64> = lens.iter().map(|_| rng.next()).collect();
    par_for(lens.len() * 3, crate::util::ncpu(), |j| {
        let (li, mode) = (j / 3, j % 3);
        let len = lens[li];
        let mut r = Rng::new(seeds[li]);
        let pt = r.bytes(len);
        let wd = WorkDir::new("c01");
        wd.write("kr.txt", keyring_text(&[(&alice, true), (&bob, true)]).as_bytes());
        wd.write("plain.bin", &pt);
        let stale = r.bytes(len + 70_000);
        let (ct, dec): (Vec<u8>, Vec<u8>);
        let mut stderr = String::new();
        let what;
        match mode {
            0 if li % 2 == 1 => {
                what = "files, sender and recipient are the same key";
                let e = Cmd::new(&wd.path, &["encrypt", "plain.bin", "-t", "alice", "-f", "alice", "-o", "c.ktl", "-k", "kr.txt", "--env-pass"]).pass("apw").run();
                let d = Cmd::new(&wd.path, &["decrypt", "c.ktl", "-t", "alice", "-o", "p.out", "-k", "kr.txt", "--env-pass"]).pass("apw").run();
                stderr = format!("{} | {}", e.stderr_s(), d.stderr_s());
                let c = std::fs::read(wd.file("c.ktl")).unwrap_or_default();
                let refok = matches!(refspec::decode_key_file(&c, &alice.sk, &alice.pk), Ok(x) if x.body.complete() && x.body.plaintext() == pt && x.sender == alice.pk);
                let got = if e.exit == Exit::Code(0) && d.exit == Exit::Code(0) { std::fs::read(wd.file("p.out")).unwrap_or_default() } else { b"<command failed>".to_vec() };
                ctx.eval();
                if got == pt && refok && stderr.contains("File from: alice") {
                    ctx.seen("cli round trip ok: files, sender and recipient are the same key");
                    ctx.distinct(&format!("cli|self|{}", len));
                } else {
                    ctx.violation("C01:cli:round-trip-to-oneself-fails", json!({"len": len, "stderr": stderr, "decrypted_len": got.len()}));
                }
                return;
            }
            0 => {
                what = "files, fresh output paths";
                let e = Cmd::new(&wd.path, &["encrypt", "plain.bin", "-t", "bob", "-f", "alice", "-o", "c.ktl", "-k", "kr.txt", "--env-pass"]).pass("apw").run();
                let d = Cmd::new(&wd.path, &["decrypt", "c.ktl", "-t", "bob", "-o", "p.out", "-k", "kr.txt", "--env-pass"]).pass("bpw").run();
                stderr = format!("{} | {}", e.stderr_s(), d.stderr_s());
                ct = std::fs::read(wd.file("c.ktl")).unwrap_or_default();
                dec = if e.exit == Exit::Code(0) && d.exit == Exit::Code(0) { std::fs::read(wd.file("p.out")).unwrap_or_default() } else { b"<command failed>".to_vec() };
            }
            1 => {
                what = "files, output paths that already hold longer content";
                wd.write("c.ktl", &stale);
                wd.write("p.out", &stale);
                let e = Cmd::new(&wd.path, &["encrypt", "plain.bin", "-t", "bob", "-f", "alice", "-o", "c.ktl", "-k", "kr.txt", "--env-pass"]).pass("apw").run();
                let d = Cmd::new(&wd.path, &["decrypt", "c.ktl", "-t", "bob", "-o", "p.out", "-k", "kr.txt", "--env-pass"]).pass("bpw").run();
                stderr = format!("{} | {}", e.stderr_s(), d.stderr_s());
                ct = std::fs::read(wd.file("c.ktl")).unwrap_or_default();
                dec = if e.exit == Exit::Code(0) && d.exit == Exit::Code(0) { std::fs::read(wd.file("p.out")).unwrap_or_default() } else { b"<command failed>".to_vec() };
            }
            _ => {
                what = "pipes (stdin -> stdout), short first read";
                let e = Cmd::new(&wd.path, &["encrypt", "-t", "bob", "-f", "alice", "-k", "kr.txt", "--env-pass"]).pass("apw").stdin(Stdin::Dribble(pt.clone(), vec![(len / 3).max(1), 0, 40_000, 1, 65_536, 3])).run();
                let d = Cmd::new(&wd.path, &["decrypt", "-t", "bob", "-k", "kr.txt", "--env-pass"]).pass("bpw").stdin(Stdin::Dribble(e.stdout.clone(), vec![100, 0, 32, 16, 70_000])).run();
                stderr = format!("{} | {}", e.stderr_s(), d.stderr_s());
                ct = e.stdout.clone();
                dec = if e.exit == Exit::Code(0) && d.exit == Exit::Code(0) { d.stdout.clone() } else { b"<command failed>".to_vec() };
            }
        }
        ctx.eval();
        let case = || json!({"len": len, "wiring": what, "stderr": stderr, "ciphertext_len": ct.len(), "decrypted_len": dec.len()});
        let refok = matches!(refspec::decode_key_file(&ct, &bob.sk, &bob.pk), Ok(d) if d.body.complete() && d.body.plaintext() == pt && d.sender == alice.pk);
        if dec != pt {
            ctx.violation(&format!("C01:cli:round-trip-bytes-differ:{}", what.split(',').next().unwrap_or("").trim()), case());
        } else if !refok {
            ctx.violation("C01:cli:ciphertext-file-is-not-exactly-a-conforming-file", case());
        } else if !stderr.contains("File from: alice") {
            ctx.violation("C01:cli:sender-not-reported", case());
        } else {
            ctx.seen(&format!("cli round trip ok: {}", what));
            ctx.distinct(&format!("cli|{}|{}", len, mode));
        }
    });
}

/// Round trips through the real binary of plaintexts whose content is special (zero / 0xff runs aligned
/// with the chunk size), via -o files and via stdout.
fn cli_content(ctx: &Ctx) {
    use crate::cli::{keyring_text, Cmd, Exit, Ident, WorkDir};
    let mut rng = Rng::fork(ctx.seed, "C01-cli-content");
    let alice = Ident::new("alice", "apw", &mut rng);
    let bob = Ident::new("bob", "bpw", &mut rng);
    let fams = crate::util::content_families(&mut rng);
    par_for(fams.len() * 2, crate::util::ncpu(), |j| {
        let (what, pt) = &fams[j / 2];
        let files = j % 2 == 0;
        let wd = WorkDir::new("c01c");
        wd.write("kr.txt", keyring_text(&[(&alice, true), (&bob, true)]).as_bytes());
        wd.write("plain.bin", pt);
        let (ct, dec, ok);
        if files {
            let e = Cmd::new(&wd.path, &["encrypt", "plain.bin", "-t", "bob", "-f", "alice", "-o", "c.ktl", "-k", "kr.txt", "--env-pass"]).pass("apw").run();
            let d = Cmd::new(&wd.path, &["decrypt", "c.ktl", "-t", "bob", "-o", "p.out", "-k", "kr.txt", "--env-pass"]).pass("bpw").run();
            ct = std::fs::read(wd.file("c.ktl")).unwrap_or_default();
            dec = std::fs::read(wd.file("p.out")).unwrap_or_default();
            ok = e.exit == Exit::Code(0) && d.exit == Exit::Code(0);
        } else {
            let e = Cmd::new(&wd.path, &["encrypt", "plain.bin", "-t", "bob", "-f", "alice", "-k", "kr.txt", "--env-pass"]).pass("apw").run();
            wd.write("c.ktl", &e.stdout);
            let d = Cmd::new(&wd.path, &["decrypt", "c.ktl", "-t", "bob", "-k", "kr.txt", "--env-pass"]).pass("bpw").run();
            ct = e.stdout.clone();
            dec = d.stdout.clone();
            ok = e.exit == Exit::Code(0) && d.exit == Exit::Code(0);
        }
        ctx.eval();
        let refok = matches!(refspec::decode_key_file(&ct, &bob.sk, &bob.pk), Ok(x) if x.body.complete() && &x.body.plaintext() == pt && x.sender == alice.pk);
        if ok && &dec == pt && refok {
            ctx.seen("cli round trip ok: special plaintext content");
            ctx.distinct(&format!("cli|content|{}|{}", what, files));
        } else {
            ctx.violation("C01:cli:round-trip-of-special-content-fails", json!({"content": what, "wiring": if files { "-o files" } else { "stdout" }, "commands_succeeded": ok, "plaintext_len": pt.len(), "decrypted_len": dec.len(), "ciphertext_conforms": refok}));
        }
    });
}

/// Keyrings whose names are near twins of each other (case, prefix, inner space, Unicode
/// composition): `-f X -t Y` must use exactly the keys stored under X and Y, whichever order the
/// entries are listed in. Every key has the same password so a wrong pick still unlocks.
fn cli_name_selection(ctx: &Ctx) {
    use crate::cli::{keyring_text, Cmd, Exit, Ident, WorkDir};
    let mut rng = Rng::fork(ctx.seed, "C01-cli-names");
    let families: Vec<Vec<&str>> = vec![
        vec!["alice", "Alice", "ALICE"],
        vec!["bob", "bobby", "bo"],
        vec!["al ice", "alice", "al  ice"],
        vec!["caf\u{e9}", "cafe\u{301}", "cafe"],
        vec!["K", "\u{212a}", "k"],
        vec!["key", "Key", "[Key]x"],
    ];
    let nfam = families.len();
    let start = (ctx.seed as usize) % families.len();
    let seeds: Vec<u64> = (0..nfam * 2).map(|_| rng.next()).collect();
    par_for(nfam * 2, crate::util::ncpu(), |j| {
        let fam = &families[(start + j / 2) % families.len()];
        let mut r = Rng::new(seeds[j]);
        let mut ids: Vec<Ident> = fam.iter().map(|n| Ident::new(n, "pw", &mut r)).collect();
        if j % 2 == 1 {
            ids.reverse();
        }
        let wd = WorkDir::new("c01n");
        let refs: Vec<(&Ident, bool)> = ids.iter().map(|i| (i, true)).collect();
        wd.write("kr.txt", keyring_text(&refs).as_bytes());
        let pt = r.bytes(1000);
        wd.write("plain.bin", &pt);
        for a in 0..ids.len() {
            for b in 0..ids.len() {
                if a == b && (a + j) % 2 == 0 {
                    continue;
                }
                let (from, to) = (&ids[a], &ids[b]);
                let e = Cmd::new(&wd.path, &["encrypt", "plain.bin", "-f", &from.name, "-t", &to.name, "-o", "c.ktl", "-k", "kr.txt", "--env-pass"]).pass("pw").run();
                let d = Cmd::new(&wd.path, &["decrypt", "c.ktl", "-t", &to.name, "-o", "p.out", "-k", "kr.txt", "--env-pass"]).pass("pw").run();
                ctx.eval();
                if e.exit == Exit::Timeout || d.exit == Exit::Timeout {
                    ctx.inconclusive("C01 cli names: timeout");
                    continue;
                }
                let c = std::fs::read(wd.file("c.ktl")).unwrap_or_default();
                let got = std::fs::read(wd.file("p.out")).unwrap_or_default();
                let _ = std::fs::remove_file(wd.file("c.ktl"));
                let _ = std::fs::remove_file(wd.file("p.out"));
                let case = || json!({"names_in_keyring_order": ids.iter().map(|i| i.name.clone()).collect::<Vec<_>>(), "from": from.name, "to": to.name,
                    "encrypt": format!("{} {}", e.exit.describe(), e.stderr_s()), "decrypt": format!("{} {}", d.exit.describe(), d.stderr_s())});
                // decided by the specification under the DESIGNATED recipient's private key
                match refspec::decode_key_file(&c, &to.sk, &to.pk) {
                    Ok(x) if e.exit == Exit::Code(0) && x.body.complete() && x.body.plaintext() == pt => {
                        if x.sender != from.pk {
                            ctx.violation("C01:cli:file-carries-a-sender-key-other-than-the-one-named", case());
                        } else if d.exit != Exit::Code(0) || got != pt {
                            ctx.violation("C01:cli:named-recipient-cannot-decrypt", case());
                        } else if !d.stderr_s().contains(&format!("File from: {}", from.name)) {
                            ctx.violation("C01:cli:sender-reported-under-another-name", case());
                        } else {
                            ctx.seen("cli: near-twin names select exactly the named keys");
                            ctx.distinct(&format!("cli-names|{}|{}|{}|{}", j, a, b, from.name));
                        }
                    }
                    _ => ctx.violation("C01:cli:file-does-not-decrypt-under-the-named-recipient's-key", case()),
                }
            }
        }
    });
}

pub fn run(ctx: &Ctx) {
    ctx.rule(
        "small scope: every |P|<=L, chunk size c<=4, every composition of |P| into reads <=c, x write/ciphertext-read schedules \
         (hooked chunk loops, judged by round trip + reference decode of the bytes written); production: key_encrypt/key_decrypt \
         over boundary lengths x read/write schedule families x fresh/edge keys x injected/implementation randomness. \
         distinct_nontrivial counts distinct (|P|, c, read partition, schedule) tuples whose encryption produced >=2 chunks or whose \
         length is 0 or a multiple of the chunk size",
    );
    ctx.assume("OpenSSL-backed reference decoder is correct (self-tested against RFC and Noise vectors at start)");
    ctx.assume("only conforming readers/writers are modelled (never return more than requested, Ok(0) only at EOF)");

    // ---- small scope, exhaustive ----
    let max_len = ctx.tier.pick(12, 16);
    small_scope_block(ctx, "C01", &[], max_len, 4);
    ctx.note("small_scope", json!({"max_len": max_len, "max_chunk_size": 4, "exhaustive": true, "exhaustive_over": "all read partitions of every length"}));
    counter_crossing(ctx, "C01", &[], ctx.tier.pick(66_000, 140_000));

    // ---- production size ----
    let mut lengths: Vec<usize> = PROD_LENGTHS.to_vec();
    let mut rng = Rng::fork(ctx.seed, "C01-prod-lengths");
    let nrand = ctx.tier.pick(12, 300);
    for _ in 0..nrand {
        lengths.push(rng.range(3, 400 * 1024));
    }
    if ctx.tier == Tier::Thorough {
        lengths.extend_from_slice(&[262143, 262144, 262145, 65536 * 5, 65536 * 8 + 1, 65536 * 16, 65536 * 33 + 7, 4 << 20]);
    }
    let edge = edge_scalars();
    par_for(lengths.len(), crate::util::ncpu(), |i| {
        let len = lengths[i];
        let mut rng = Rng::fork(ctx.seed, &format!("C01-prod-{}-{}", i, len));
        let pt = rng.bytes(len);
        let rss = prod_read_scheds(&mut rng, len);
        let wss = prod_write_scheds(&mut rng);
        let crs = vec![
            ("all".to_string(), Sched::all()),
            ("4096".to_string(), Sched::fixed(4096)),
            ("hdr-straddle".to_string(), Sched::list(vec![3, 1, 100, 28, 16, 65536, 15, 1, 16], 65552)),
            ("random".to_string(), Sched::random(&mut rng, 64, 70000)),
        ];
        let mut n = 0usize;
        for (rname, rs) in &rss {
            for (wi, (wname, ws)) in wss.iter().enumerate() {
                // full cross product only against the first write schedule; others rotate
                if wi != 0 && (n + wi) % 3 != 0 {
                    continue;
                }
                n += 1;
                let k = if n % 7 == 3 {
                    // sender and recipient are the same key pair (encrypting to oneself)
                    let s_priv = rng.arr32();
                    let s_pub = refspec::pubkey_of(&s_priv);
                    Keys { s_priv, s_pub, r_priv: s_priv, r_pub: s_pub }
                } else if n % 5 == 0 {
                    let s_priv = edge[n / 5 % edge.len()];
                    let r_priv = edge[(n / 5 + 1) % edge.len()];
                    Keys { s_priv, s_pub: refspec::pubkey_of(&s_priv), r_priv, r_pub: refspec::pubkey_of(&r_priv) }
                } else {
                    // fresh keys from the implementation's own generator every third case
                    if n % 3 == 0 {
                        let s = kestrel_crypto::PrivateKey::generate();
                        let r = kestrel_crypto::PrivateKey::generate();
                        let s_priv: [u8; 32] = s.as_bytes().try_into().unwrap();
                        let r_priv: [u8; 32] = r.as_bytes().try_into().unwrap();
                        Keys { s_priv, s_pub: refspec::pubkey_of(&s_priv), r_priv, r_pub: refspec::pubkey_of(&r_priv) }
                    } else {
                        fresh_keys(&mut rng)
                    }
                };
                let (e_priv, payload) = if n % 2 == 0 { (Some(rng.arr32()), Some(rng.arr32())) } else { (None, None) };
                let (cname, cr) = &crs[n % crs.len()];
                let dec_ws = &wss[(n / 2) % wss.len()].1;
                let mut enc_io = Io::new(rs.clone(), ws.clone());
                let mut dec_io = Io::new(cr.clone(), dec_ws.clone());
                enc_io.vectored = n % 2 == 1;
                dec_io.vectored = n % 3 == 1;
                let ok = prod_roundtrip(ctx, &k, &pt, &enc_io, &dec_io, e_priv, payload, "production");
                if ok && (len == 0 || len >= 65535) {
                    ctx.distinct(&format!("prod|{}|{}|{}|{}|{}", len, rname, wname, cname, e_priv.is_some()));
                }
                if i == 4 && n == 3 {
                    ctx.sample("production round trip", 2, || {
                        json!({"len": len, "encrypt_io": enc_io.describe(), "decrypt_io": dec_io.describe(), "sender_public": hex(&k.s_pub), "injected_randomness": e_priv.is_some()})
                    });
                }
            }
        }
    });
    ctx.note("production_lengths", json!(lengths));
    optional_argument_forms(ctx);
    same_thread_histories(ctx);
    if !crate::lib_only() {
        cli_roundtrips(ctx);
        cli_name_selection(ctx);
        cli_content(ctx);
    }
    ctx.require("cli: near-twin names select exactly the named keys", 20);
    ctx.require("cli round trip ok: special plaintext content", 16);
    ctx.require("cli round trip ok: files, output paths that already hold longer content", 4);
    ctx.require("cli round trip ok: pipes", 4);
    ctx.require("cli round trip ok: files, sender and recipient are the same key", 2);
    ctx.require("prod: chunks=", 50);
    ctx.require("same-thread history", 6);
    ctx.require("optional argument form round-trips", 40);
    ctx.require("small: chunks=", 500);
}
