//! C08 - files reveal no identities; size depends only on plaintext and chunking.

use crate::cli::{Cmd, Exit, Ident, Stdin, WorkDir};
use crate::ctx::Ctx;
use crate::ioscript::Sched;
use crate::kio::*;
use crate::refspec;
use crate::util::{b64, hex, hex_short, par_for, Rng};
use serde_json::json;

fn contains(hay: &[u8], needle: &[u8]) -> Option<usize> {
    if needle.is_empty() || hay.len() < needle.len() {
        return None;
    }
    hay.windows(needle.len()).position(|w| w == needle)
}

/// Needles derived from one identity: raw key, 36-byte keyring blob, base64 of both, and
/// every 12-byte window of those.
pub fn identity_needles(label: &str, pk: &[u8; 32]) -> Vec<(String, Vec<u8>)> {
    let mut blob = pk.to_vec();
    blob.extend_from_slice(&crate::ossl::sha256(pk)[..4]);
    let forms: Vec<(String, Vec<u8>)> = vec![
        (format!("{} raw public key", label), pk.to_vec()),
        (format!("{} keyring blob", label), blob.clone()),
        (format!("{} base64(public key)", label), b64(pk).trim_end_matches('=').as_bytes().to_vec()),
        (format!("{} base64(keyring blob)", label), b64(&blob).into_bytes()),
        (format!("{} hex(public key)", label), hex(pk).into_bytes()),
    ];
    let mut out = Vec::new();
    for (name, f) in forms {
        for (wi, w) in f.windows(12).enumerate() {
            out.push((format!("{} window@{}", name, wi), w.to_vec()));
        }
    }
    out
}

pub fn scan(ctx: &Ctx, what: &str, file: &[u8], needles: &[(String, Vec<u8>)], case: &dyn Fn() -> serde_json::Value) -> bool {
    ctx.eval();
    for (name, n) in needles {
        if let Some(at) = contains(file, n) {
            let mut v = case();
            v["needle"] = json!(name);
            v["needle_bytes"] = json!(hex(n));
            v["found_at_offset"] = json!(at);
            let kind = name.split(" window@").next().unwrap_or(name);
            ctx.violation(&format!("C08:{}:identity-material-in-file:{}", what, kind), v);
            return false;
        }
    }
    ctx.seen_n(&format!("{}: needles searched", what), needles.len() as u64);
    true
}

fn library_block(ctx: &Ctx) {
    let n = ctx.tier.pick(80, 5000);
    par_for(n, crate::util::ncpu(), |i| {
        let mut rng = Rng::fork(ctx.seed, &format!("C08-lib-{}", i));
        let (s1, r1, s2, r2) = (rng.arr32(), rng.arr32(), rng.arr32(), rng.arr32());
        let (s1p, r1p, s2p, r2p) = (refspec::pubkey_of(&s1), refspec::pubkey_of(&r1), refspec::pubkey_of(&s2), refspec::pubkey_of(&r2));
        let len = match i % 5 {
            0 => *rng.pick(&[0usize, 1, 65535, 65536, 65537]),
            1 => rng.range(0, 200_000),
            _ => rng.range(0, 3000),
        };
        let pt = rng.bytes(len);
        let rs = match i % 4 {
            0 => Sched::all(),
            1 => Sched::random(&mut rng, 40, if len > 5000 { 65536 } else { 50 }),
            2 => Sched::fixed(rng.range(1, 65536).max(if len > 5000 { 999 } else { 1 })),
            _ => Sched::list(vec![1, 2, 3], 65536),
        };
        let io = Io::new(rs, Sched::all());
        let (e, pl) = (rng.arr32(), rng.arr32());
        let f1 = key_encrypt_run(&pt, &io, &KeyEnc { s_priv: &s1, s_pub: &s1p, r_pub: &r1p, e_priv: Some(e), payload: Some(pl) });
        let f2 = key_encrypt_run(&pt, &io, &KeyEnc { s_priv: &s2, s_pub: &s2p, r_pub: &r2p, e_priv: Some(e), payload: Some(pl) });
        let case = || json!({"len": len, "io": io.describe(), "sender1_private": hex(&s1), "recipient1_private": hex(&r1), "sender2_private": hex(&s2), "recipient2_private": hex(&r2), "ephemeral": hex(&e), "payload_key": hex(&pl), "plaintext": hex_short(&pt, 32)});
        if !f1.outcome.is_ok() || !f2.outcome.is_ok() {
            ctx.violation("C08:library:encrypt-failed", case());
            return;
        }
        // content scan
        let mut needles = identity_needles("sender", &s1p);
        needles.extend(identity_needles("recipient", &r1p));
        if !scan(ctx, "library", &f1.out, &needles, &case) {
            return;
        }
        // length law, with the chunk count taken from the reference decoding
        ctx.eval();
        let d = match refspec::decode_key_file(&f1.out, &r1, &r1p) {
            Ok(d) if d.body.complete() => d,
            _ => {
                ctx.violation("C08:library:reference-cannot-decode", case());
                return;
            }
        };
        let chunks = d.body.chunks.len();
        if f1.out.len() != 132 + 32 * chunks + len {
            let mut v = case();
            v["file_len"] = json!(f1.out.len());
            v["chunks"] = json!(chunks);
            ctx.violation("C08:library:length-law-violated:key-mode", v);
            return;
        }
        // identity swap: same ephemeral/payload/plaintext/partition, other sender and recipient
        ctx.eval();
        if f1.out.len() != f2.out.len() {
            ctx.violation("C08:library:length-depends-on-identities", case());
            return;
        }
        if f1.out[..36] != f2.out[..36] {
            ctx.violation("C08:library:clear-header-depends-on-identities", case());
            return;
        }
        for c in &d.body.chunks {
            if f1.out[c.start..c.start + 16] != f2.out[c.start..c.start + 16] {
                ctx.violation("C08:library:chunk-header-depends-on-identities", case());
                return;
            }
        }
        // the clear fields are exactly magic || e || (counter, flag, len)*: e must be the ephemeral public key
        if f1.out[..4] != refspec::KEY_MAGIC || f1.out[4..36] != refspec::pubkey_of(&e) {
            ctx.violation("C08:library:unexpected-clear-header", case());
            return;
        }
        ctx.seen(&format!("key mode: scan + length law + identity swap ok, chunks={}", chunks.min(5)));
        ctx.distinct(&format!("lib|key|{}|{}", len, chunks));
        // password mode: length law and password independence
        if i % 4 == 0 {
            let salt = rng.arr32();
            let pw1 = format!("Password-{}-{}", hex(&rng.bytes(6)), "x".repeat(i % 7));
            let pw2 = "q".to_string();
            let p1 = pass_encrypt_run(&pt, &io, pw1.as_bytes(), salt);
            let p2 = pass_encrypt_run(&pt, &io, pw2.as_bytes(), salt);
            ctx.eval();
            let key = refspec::pass_key(pw1.as_bytes(), &salt);
            let pd = refspec::decode_pass_file_with_key(&p1.out, &|_| key);
            let case = || json!({"len": len, "password1": pw1, "password2": pw2, "salt": hex(&salt), "io": io.describe()});
            match pd {
                Ok(d) if d.body.complete() => {
                    let ch = d.body.chunks.len();
                    if p1.out.len() != 36 + 32 * ch + len {
                        ctx.violation("C08:library:length-law-violated:password-mode", case());
                    } else if p1.out.len() != p2.out.len() || p1.out[..36] != p2.out[..36] {
                        ctx.violation("C08:library:length-or-header-depends-on-password", case());
                    } else if contains(&p1.out, pw1.as_bytes()).is_some() || contains(&p1.out, b64(pw1.as_bytes()).as_bytes()).is_some() {
                        ctx.violation("C08:library:password-in-file", case());
                    } else {
                        ctx.seen("password mode: length law + password independence ok");
                        ctx.distinct(&format!("lib|pass|{}|{}", len, ch));
                    }
                }
                _ => ctx.violation("C08:library:reference-cannot-decode", case()),
            }
        }
        // the API takes the two ephemeral halves as separate Options: with only one of them given the file
        // must still reveal nothing (and still be a conforming file for the recipient)
        for halves in [EHalves::PrivateOnly, EHalves::PublicOnly] {
            E_HALVES.with(|h| h.set(halves));
            let fh = key_encrypt_run(&pt, &io, &KeyEnc { s_priv: &s1, s_pub: &s1p, r_pub: &r1p, e_priv: Some(e), payload: Some(pl) });
            E_HALVES.with(|h| h.set(EHalves::Consistent));
            ctx.eval();
            let case2 = || {
                let mut v = case();
                v["ephemeral_arguments"] = json!(format!("{:?}", halves));
                v["file_head"] = json!(hex(&fh.out[..52.min(fh.out.len())]));
                v
            };
            if !fh.outcome.is_ok() {
                ctx.violation("C08:library:encrypt-failed", case2());
                continue;
            }
            if !scan(ctx, "library", &fh.out, &needles, &case2) {
                continue;
            }
            match refspec::decode_key_file(&fh.out, &r1, &r1p) {
                Ok(d) if d.body.complete() && d.body.plaintext() == pt && d.sender == s1p && fh.out.len() == 132 + 32 * d.body.chunks.len() + len => {
                    ctx.seen(&format!("key mode with {:?} ephemeral argument: scan + length law ok", halves));
                }
                _ => ctx.violation("C08:library:file-with-half-ephemeral-arguments-is-not-conforming", case2()),
            }
        }
        if i == 3 {
            ctx.sample("identity swap pair", 1, || {
                let mut v = case();
                v["file1_head"] = json!(hex(&f1.out[..52.min(f1.out.len())]));
                v["file2_head"] = json!(hex(&f2.out[..52.min(f2.out.len())]));
                v["file_len"] = json!(f1.out.len());
                v
            });
        }
    });
}

/// The only key-dependent clear field is a FRESH ephemeral key: over a history of files written by one
/// thread (different senders, same recipient, randomness left to the implementation) no two files may
/// share bytes 4..36 - otherwise an observer links them and can test candidate sender keys.
fn clear_field_history(ctx: &Ctx) {
    let mut rng = Rng::fork(ctx.seed, "C08-history");
    let r = rng.arr32();
    let r_pub = refspec::pubkey_of(&r);
    let n = ctx.tier.pick(300, 20_000);
    let mut seen: std::collections::HashMap<Vec<u8>, usize> = std::collections::HashMap::new();
    let mut salts: std::collections::HashSet<Vec<u8>> = std::collections::HashSet::new();
    for i in 0..n {
        let s = rng.arr32();
        let s_pub = refspec::pubkey_of(&s);
        let f = key_encrypt_run(b"same text", &Io::plain(), &KeyEnc { s_priv: &s, s_pub: &s_pub, r_pub: &r_pub, e_priv: None, payload: None });
        ctx.eval();
        if !f.outcome.is_ok() || f.out.len() < 132 {
            ctx.violation("C08:library:encrypt-failed", json!({"i": i}));
            return;
        }
        if let Some(j) = seen.insert(f.out[4..36].to_vec(), i) {
            ctx.violation("C08:library:clear-ephemeral-field-repeats-across-files", json!({"file_a": j, "file_b": i, "bytes_4_36": hex(&f.out[4..36]), "distance": i - j, "note": "files from different senders, same thread, randomness left to the implementation"}));
            return;
        }
        // salts as the CLI draws them
        let salt = kestrel_crypto::secure_random(32);
        if !salts.insert(salt.clone()) {
            ctx.violation("C08:library:salt-repeats-across-files", json!({"i": i, "salt": hex(&salt)}));
            return;
        }
    }
    ctx.seen_n("history: clear ephemeral field fresh in every file of a single-thread sequence", n as u64);
    ctx.distinct(&format!("history|{}", n));
}

fn random_name(rng: &mut Rng, n: usize) -> String {
    const A: &[u8] = b"abcdefghijklmnopqrstuvwxyzABCDEFGHIJKLMNOPQRSTUVWXYZ0123456789";
    (0..n).map(|_| A[rng.below(A.len() as u64) as usize] as char).collect()
}

fn cli_block(ctx: &Ctx) {
    let n = ctx.tier.pick(12, 400);
    par_for(n, crate::util::ncpu(), |i| {
        let mut rng = Rng::fork(ctx.seed, &format!("C08-cli-{}", i));
        let wd = WorkDir::new("c08");
        let mut names: Vec<String> = (0..4).map(|_| random_name(&mut rng, 14)).collect();
        names[3] = format!("N\u{e4}me-{}-\u{2713}", random_name(&mut rng, 10));
        let ids: Vec<Ident> = names.iter().map(|nm| Ident::new(nm, "pw", &mut rng)).collect();
        wd.write("kr1.txt", crate::cli::keyring_text(&[(&ids[0], true), (&ids[1], false)]).as_bytes());
        wd.write("kr2.txt", crate::cli::keyring_text(&[(&ids[2], true), (&ids[3], false)]).as_bytes());
        let len = *rng.pick(&[0usize, 5, 70_000, 140_000]);
        let pt = rng.bytes(len);
        wd.write("p.bin", &pt);
        let mut lens = Vec::new();
        for (kr, from, to) in [("kr1.txt", 0usize, 1usize), ("kr2.txt", 2, 3)] {
            let o = if i % 4 == 2 {
                // -o onto a path that already holds longer, identity-bearing content (a keyring copy)
                let mut stale = std::fs::read(wd.file(kr)).unwrap_or_default();
                while stale.len() < len + 132 + 32 * 4 + 500 {
                    let again = stale.clone();
                    stale.extend_from_slice(&again);
                }
                wd.write("c.ktl", &stale);
                // ... with the plaintext given as a FILE argument, on stdin, or as the path /dev/stdin (rotating)
                let mut o = match (i / 4) % 3 {
                    0 => Cmd::new(&wd.path, &["encrypt", "p.bin", "-t", &names[to], "-f", &names[from], "-k", kr, "-o", "c.ktl", "--env-pass"]).pass("pw").run(),
                    1 => Cmd::new(&wd.path, &["encrypt", "-t", &names[to], "-f", &names[from], "-k", kr, "-o", "c.ktl", "--env-pass"]).pass("pw").stdin(Stdin::Bytes(pt.clone())).run(),
                    _ => Cmd::new(&wd.path, &["encrypt", "/dev/stdin", "-t", &names[to], "-f", &names[from], "-k", kr, "-o", "c.ktl", "--env-pass"]).pass("pw").stdin(Stdin::Bytes(pt.clone())).run(),
                };
                o.stdout = std::fs::read(wd.file("c.ktl")).unwrap_or_default();
                ctx.seen("cli: file left at an output path that held identity-bearing content");
                o
            } else if i % 2 == 0 {
                Cmd::new(&wd.path, &["encrypt", "p.bin", "-t", &names[to], "-f", &names[from], "-k", kr, "--env-pass"]).pass("pw").run()
            } else {
                Cmd::new(&wd.path, &["enc", "--to", &names[to], "--from", &names[from], "--env-pass"]).pass("pw").env("KESTREL_KEYRING", kr).stdin(Stdin::Bytes(pt.clone())).run()
            };
            let case = || json!({"sender_name": names[from], "recipient_name": names[to], "len": len, "exit": o.exit.describe(), "stderr": o.stderr_s(), "wiring": if i % 4 == 2 { "file arg, -k, -o onto an existing longer file" } else if i % 2 == 0 { "file arg, -k" } else { "stdin, env keyring" }});
            if o.exit != Exit::Code(0) {
                if o.exit == Exit::Timeout {
                    ctx.inconclusive("C08 cli: timeout");
                } else {
                    ctx.violation("C08:cli:encrypt-failed", case());
                }
                return;
            }
            let mut needles = identity_needles("sender", &ids[from].pk);
            needles.extend(identity_needles("recipient", &ids[to].pk));
            for nm in [&names[from], &names[to]] {
                needles.push((format!("keyring name {}", nm), nm.as_bytes().to_vec()));
                needles.push((format!("base64 of keyring name {}", nm), b64(nm.as_bytes()).trim_end_matches('=').as_bytes().to_vec()));
            }
            needles.push(("locked private key string".into(), ids[from].locked.as_bytes()[..24].to_vec()));
            if !scan(ctx, "cli", &o.stdout, &needles, &case) {
                return;
            }
            match refspec::decode_key_file(&o.stdout, &ids[to].sk, &ids[to].pk) {
                Ok(d) if d.body.complete() && d.body.plaintext() == pt => {
                    ctx.eval();
                    if o.stdout.len() != 132 + 32 * d.body.chunks.len() + len {
                        ctx.violation("C08:cli:length-law-violated", case());
                        return;
                    }
                    lens.push((o.stdout.len(), d.body.chunks.len()));
                }
                _ => {
                    ctx.violation("C08:cli:reference-cannot-decode", case());
                    return;
                }
            }
        }
        if i % 2 == 0 && lens.len() == 2 && lens[0] != lens[1] {
            // same file argument => same read pattern => same chunking
            ctx.violation("C08:cli:length-depends-on-identities", json!({"lens": format!("{:?}", lens), "len": len}));
            return;
        }
        ctx.seen("cli: scan + length law ok");
        ctx.distinct(&format!("cli|{}|{}", i, len));
        if i == 0 {
            ctx.sample("cli scan", 1, || json!({"names": names, "plaintext_len": len, "file_lens_and_chunks": format!("{:?}", lens)}));
        }
    });
}

pub fn run(ctx: &Ctx) {
    ctx.rule(
        "content scanner over every produced ciphertext: raw public keys, 36-byte keyring blobs, base64/hex of both and every 12-byte window of those, \
         random >=10-character keyring names (chance match < 2^-50); identity-swap pairs with the same injected ephemeral/payload key/plaintext/partition must \
         agree on bytes 0..36, on every 16-byte chunk header and on length; length law 132/36 + 32*chunks + |P| with the chunk count taken from the reference \
         decoding. distinct_nontrivial counts distinct (mode, length, chunk count) cases",
    );
    ctx.assume("a 12-byte window match by chance has probability < 2^-50 per file");
    library_block(ctx);
    clear_field_history(ctx);
    if !crate::lib_only() {
        cli_block(ctx);
        crate::ttylanes::c08_no_controlling_terminal(ctx);
    }
    ctx.require("no controlling terminal", 2);
    ctx.require("key mode: scan + length law + identity swap ok", 50);
    ctx.require("password mode: length law", 10);
    ctx.require("cli: scan + length law ok", 5);
    ctx.require("cli: file left at an output path that held identity-bearing content", 2);
    ctx.require("history: clear ephemeral field fresh", 200);
    ctx.require("key mode with PrivateOnly ephemeral argument", 20);
    ctx.require("key mode with PublicOnly ephemeral argument", 20);
}
