//! C02 - password-mode round trip; every other password is rejected and releases nothing.

use crate::ctx::Ctx;
use crate::ioscript::{Op, Res, Sched};
use crate::kio::{pass_decrypt_run, pass_encrypt_run, Io, Outcome};
use crate::refspec::{self, hmac_norm, PASS_MAGIC};
use crate::streams::*;
use crate::util::{hex, hex_short, par_for, Rng};
use serde_json::json;

pub fn password_pool(rng: &mut Rng) -> Vec<(String, Vec<u8>)> {
    let nz = |rng: &mut Rng, n: usize| -> Vec<u8> {
        let mut v = rng.bytes(n);
        for b in v.iter_mut() {
            if *b == 0 {
                *b = 0x5a;
            }
        }
        v
    };
    vec![
        ("empty".into(), vec![]),
        ("one-byte".into(), b"a".to_vec()),
        ("ascii".into(), b"correct horse battery staple".to_vec()),
        ("utf8".into(), "p\u{e4}ssw\u{f6}rd\u{2192}\u{2713}\u{1f511}".as_bytes().to_vec()),
        ("interior-nul".into(), b"a\0b".to_vec()),
        ("invalid-utf8".into(), vec![0xff, 0xfe, 0x80, 0x41]),
        ("len63".into(), nz(rng, 63)),
        ("len64".into(), nz(rng, 64)),
        ("len65".into(), nz(rng, 65)),
        ("len200".into(), nz(rng, 200)),
        ("random16".into(), nz(rng, 16)),
    ]
}

/// Different passwords that must be rejected (none of them HMAC-equivalent to `w`).
pub fn wrong_passwords(w: &[u8], rng: &mut Rng, max: usize) -> Vec<(String, Vec<u8>)> {
    let mut v: Vec<(String, Vec<u8>)> = Vec::new();
    let nbits = (w.len() * 8).min(max / 2);
    for bit in 0..nbits {
        let mut x = w.to_vec();
        x[bit / 8] ^= 1 << (bit % 8);
        v.push((format!("bitflip{}", bit), x));
    }
    if !w.is_empty() {
        v.push(("drop-last".into(), w[..w.len() - 1].to_vec()));
        v.push(("drop-first".into(), w[1..].to_vec()));
        let mut sw = w.to_vec();
        sw[0] = sw[0].wrapping_add(1);
        v.push(("first+1".into(), sw));
        v.push(("empty".into(), vec![]));
        let mut rv = w.to_vec();
        rv.reverse();
        v.push(("reversed".into(), rv));
    }
    let mut ap = w.to_vec();
    ap.push(b'x');
    v.push(("append-x".into(), ap));
    let mut sp = w.to_vec();
    sp.push(b' ');
    v.push(("append-space".into(), sp));
    let mut pre = vec![0u8];
    pre.extend_from_slice(w);
    v.push(("prepend-nul".into(), pre));
    let up: Vec<u8> = w.iter().map(|b| if b.is_ascii_lowercase() { b.to_ascii_uppercase() } else { *b }).collect();
    v.push(("uppercase".into(), up));
    for i in 0..3 {
        v.push((format!("random{}", i), rng.bytes(w.len().max(1))));
    }
    let n = hmac_norm(w);
    v.retain(|(_, x)| x != w && hmac_norm(x) != n);
    v.truncate(max);
    v
}

/// Passwords different from `w` that RFC 2104 key normalisation maps to the same HMAC key.
pub fn hmac_equivalent(w: &[u8]) -> Vec<(String, Vec<u8>)> {
    let mut v = Vec::new();
    if w.len() < 64 {
        let mut a = w.to_vec();
        a.push(0);
        v.push(("append-nul".into(), a.clone()));
        if w.len() < 63 {
            a.push(0);
            v.push(("append-2-nul".into(), a));
        }
        let mut full = w.to_vec();
        full.resize(64, 0);
        v.push(("zero-padded-to-64".into(), full));
    }
    if w.len() > 64 {
        v.push(("sha256-of-long-password".into(), crate::ossl::sha256(w).to_vec()));
    }
    if w.last() == Some(&0) {
        v.push(("strip-trailing-nul".into(), w[..w.len() - 1].to_vec()));
    }
    v.retain(|(_, x)| x != w && hmac_norm(x) == hmac_norm(w));
    v
}

fn wrote_anything(run: &crate::kio::Run) -> bool {
    !run.out.is_empty() || run.log.events().iter().any(|e| e.op == Op::Write && matches!(e.res, Res::N(n) if n > 0))
}

/// The password file's 36-byte header over a FAMILY of read schedules through the public entry point: every constant
/// read size 1..=48, "first n then everything" and "n, 1, then 4096" for every n up to 48, and a few mixed lists.
/// The right password must open the file to exactly the plaintext under every schedule; another password must be
/// refused with nothing written under a sample of them.
fn header_read_schedules(ctx: &Ctx) {
    let mut scheds: Vec<Sched> = Vec::new();
    for k in 1..=48usize {
        scheds.push(Sched::fixed(k));
        scheds.push(Sched::list(vec![k], 1 << 20));
        scheds.push(Sched::list(vec![k, 1], 4096));
    }
    for l in [vec![4usize, 32, 1], vec![4, 31, 2], vec![2, 2, 31, 2], vec![35, 1, 16], vec![3, 33, 15, 1], vec![36, 1], vec![36, 16, 1], vec![20, 20, 20], vec![5, 7, 11, 13, 17]] {
        scheds.push(Sched::list(l, 65536));
    }
    let mut rng = Rng::fork(ctx.seed, "C02-header-scheds");
    let pw = "p\u{e4}ssw\u{f6}rd \u{1f511}".as_bytes().to_vec();
    let other = b"another password".to_vec();
    let lens = [0usize, 1, 1000];
    let files: Vec<(Vec<u8>, Vec<u8>)> = lens.iter().map(|l| {
        let pt = rng.bytes(*l);
        let salt = rng.arr32();
        (refspec::encode_pass_file(&pw, &salt, &pt, &refspec::natural_chunking(pt.len(), 65536)), pt)
    }).collect();
    ctx.note("header_read_schedules", json!({"schedules": scheds.len(), "plaintext_lengths": lens, "files_from": "the reference encoder"}));
    par_for(scheds.len() * files.len(), crate::util::ncpu(), |i| {
        let (si, fi) = (i / files.len(), i % files.len());
        let (f, pt) = &files[fi];
        let io = Io::new(scheds[si].clone(), Sched::all());
        let case = |p: &[u8]| json!({"password": hex(p), "file": hex_short(f, 64), "file_len": f.len(), "plaintext_len": pt.len(), "read_schedule": scheds[si].describe()});
        let d = pass_decrypt_run(f, &io, &pw);
        ctx.eval();
        if !(d.outcome.is_ok() && &d.out == pt) {
            ctx.violation(&format!("C02:header-schedule:right-password-refused-or-wrong-bytes:{}", sig_class(&d.outcome)), case(&pw));
            return;
        }
        ctx.seen("header read schedule: right password opens the file");
        ctx.distinct(&format!("hdrsched|{}|{}", si, fi));
        if si % 5 == 0 {
            let w = pass_decrypt_run(f, &io, &other);
            ctx.eval();
            if w.outcome.is_ok() || !w.out.is_empty() {
                ctx.violation("C02:header-schedule:different-password-accepted-or-output-written", case(&other));
            } else {
                ctx.seen("header read schedule: another password refused, nothing written");
            }
        }
    });
    ctx.require("header read schedule: right password opens the file", 100);
    ctx.require("header read schedule: another password refused, nothing written", 20);
}

pub fn run(ctx: &Ctx) {
    ctx.rule(
        "small scope: as C01 with AAD = password magic (exhaustive read partitions through the hooked chunk loops); full pass_encrypt/pass_decrypt \
         round trips over the password pool x salts x boundary lengths x I/O schedules, each also decoded by the OpenSSL reference; wrong passwords: \
         every single-bit edit of short passwords, prefix/suffix/case/random variants, and the HMAC-equivalent family. distinct_nontrivial counts distinct \
         (password class, length, schedule) round trips with >=2 chunks or boundary length, plus distinct (password class, wrong-password variant) rejections",
    );
    ctx.assume("OpenSSL EVP_PBE_scrypt / ChaCha20-Poly1305 as reference");
    ctx.assume("HMAC-equivalent passwords (RFC 2104 zero padding / hashing of long keys) derive the same key by construction of scrypt: listed as known finding, not re-litigated");

    // ---- small scope, exhaustive partitions with the password-mode AAD ----
    let max_len = ctx.tier.pick(11, 15);
    small_scope_block(ctx, "C02", &PASS_MAGIC, max_len, 4);
    ctx.note("small_scope", json!({"max_len": max_len, "max_chunk_size": 4, "aad": "65676b20", "exhaustive": true}));
    counter_crossing(ctx, "C02", &PASS_MAGIC, ctx.tier.pick(66_000, 140_000));
    header_read_schedules(ctx);

    // ---- full API round trips ----
    let mut prng = Rng::fork(ctx.seed, "C02-pool");
    let pool = password_pool(&mut prng);
    let mut lengths: Vec<usize> = vec![0, 1, 17, 65535, 65536, 65537, 131072, 131073];
    for _ in 0..ctx.tier.pick(4, 24) {
        lengths.push(prng.range(2, 300 * 1024));
    }
    let salts: Vec<(String, [u8; 32])> = vec![("zero".into(), [0u8; 32]), ("ff".into(), [0xff; 32]), ("random".into(), prng.arr32()), ("random2".into(), prng.arr32())];
    struct Case {
        pw: usize,
        len: usize,
        salt: usize,
        n: usize,
    }
    let mut cases = Vec::new();
    let reps = ctx.tier.pick(1, 4);
    let mut n = 0;
    for rep in 0..reps {
        for (pi, _) in pool.iter().enumerate() {
            for (li, &len) in lengths.iter().enumerate() {
                // rotate: every password sees several lengths, every length several passwords
                if (pi + li + rep) % ctx.tier.pick(4, 2) != 0 {
                    continue;
                }
                cases.push(Case { pw: pi, len, salt: (pi + li + rep) % salts.len(), n });
                n += 1;
            }
        }
    }
    par_for(cases.len(), crate::util::ncpu(), |i| {
        let c = &cases[i];
        let mut rng = Rng::fork(ctx.seed, &format!("C02-rt-{}", i));
        let (pname, pw) = &pool[c.pw];
        let (sname, salt) = &salts[c.salt];
        let pt = rng.bytes(c.len);
        let rss = prod_read_scheds(&mut rng, c.len);
        let wss = prod_write_scheds(&mut rng);
        let (rname, rs) = &rss[c.n % rss.len()];
        let (wname, ws) = &wss[(c.n / 3) % wss.len()];
        let dec_rs = [Sched::all(), Sched::fixed(4096), Sched::list(vec![3, 1, 32, 16, 65536, 15, 1, 16], 65552), Sched::random(&mut rng, 64, 70000)];
        let dec_r = &dec_rs[(c.n / 2) % dec_rs.len()];
        let enc_io = Io::new(rs.clone(), ws.clone());
        let dec_io = Io::new(dec_r.clone(), wss[(c.n / 5) % wss.len()].1.clone());
        let case = || {
            json!({"password": hex(pw), "password_class": pname, "salt": hex(salt), "len": c.len, "plaintext": hex_short(&pt, 48),
                   "encrypt_io": enc_io.describe(), "decrypt_io": dec_io.describe()})
        };
        ctx.eval();
        let e = pass_encrypt_run(&pt, &enc_io, pw, *salt);
        if !e.outcome.is_ok() {
            ctx.violation(&format!("C02:prod:encrypt-failed:{}", sig_class(&e.outcome)), case());
            return;
        }
        match refspec::decode_pass_file(&e.out, pw) {
            Ok(d) if d.body.complete() && d.body.plaintext() == pt && &d.salt == salt => {
                ctx.seen(&format!("prod: chunks={}", d.body.chunks.len().min(8)));
            }
            Ok(d) => {
                let mut v = case();
                v["reference_end"] = json!(format!("{:?}", d.body.end));
                ctx.violation("C02:prod:reference-cannot-decode-output", v);
                return;
            }
            Err(why) => {
                let mut v = case();
                v["reference_error"] = json!(why);
                ctx.violation("C02:prod:reference-rejects-header", v);
                return;
            }
        }
        let d = pass_decrypt_run(&e.out, &dec_io, pw);
        match &d.outcome {
            Outcome::Ok(_) if d.out == pt => {
                ctx.seen(&format!("password class {}", pname));
                if c.len == 0 || c.len >= 65535 {
                    ctx.distinct(&format!("rt|{}|{}|{}|{}|{}", pname, c.len, sname, rname, wname));
                }
            }
            Outcome::Ok(_) => {
                ctx.violation("C02:prod:roundtrip-bytes-differ", case());
                return;
            }
            o => {
                ctx.violation(&format!("C02:prod:decrypt-failed:{}", sig_class(o)), case());
                return;
            }
        }
        ctx.sample("password round trip", 3, || case());
    });

    // ---- wrong passwords ----
    // One small authentic file per password; each wrong password costs one scrypt evaluation.
    let per_pw = ctx.tier.pick(18, 400);
    struct Wp {
        pw: usize,
        variant: String,
        wrong: Vec<u8>,
        equivalent: bool,
    }
    let mut wcases = Vec::new();
    let mut files: Vec<Vec<u8>> = Vec::new();
    let mut pts: Vec<Vec<u8>> = Vec::new();
    for (pi, (_, pw)) in pool.iter().enumerate() {
        let mut rng = Rng::fork(ctx.seed, &format!("C02-wrong-{}", pi));
        // empty and one-byte plaintexts matter: their only chunk is the one that binds the password
        let pt = rng.bytes([0usize, 40, 1, 65536 + 9, 0, 65536][pi % 6]);
        let salt = rng.arr32();
        let e = pass_encrypt_run(&pt, &Io::plain(), pw, salt);
        if !e.outcome.is_ok() {
            ctx.violation(&format!("C02:prod:encrypt-failed:{}", sig_class(&e.outcome)), json!({"password": hex(pw)}));
            continue;
        }
        files.push(e.out);
        pts.push(pt);
        let fi = files.len() - 1;
        for (variant, wrong) in wrong_passwords(pw, &mut rng, per_pw) {
            wcases.push((fi, Wp { pw: pi, variant, wrong, equivalent: false }));
        }
        for (variant, wrong) in hmac_equivalent(pw) {
            wcases.push((fi, Wp { pw: pi, variant, wrong, equivalent: true }));
        }
    }
    par_for(wcases.len(), crate::util::ncpu(), |i| {
        let (fi, w) = &wcases[i];
        let (pname, pw) = &pool[w.pw];
        let io = if i % 2 == 0 { Io::plain() } else { Io::new(Sched::fixed(7), Sched::fixed(5)) };
        ctx.eval();
        let d = pass_decrypt_run(&files[*fi], &io, &w.wrong);
        let case = || json!({"password": hex(pw), "password_class": pname, "wrong_password": hex(&w.wrong), "variant": w.variant, "file": hex_short(&files[*fi], 80), "result": d.outcome.class(), "bytes_written": d.out.len()});
        if w.equivalent {
            if d.outcome.is_ok() {
                ctx.seen("hmac-equivalent password accepted");
                ctx.violation("C02:wrong-password-accepted:hmac-equivalent", case());
            } else {
                ctx.seen("hmac-equivalent password rejected");
            }
            return;
        }
        match &d.outcome {
            Outcome::Ok(_) => ctx.violation("C02:wrong-password-accepted", case()),
            Outcome::Panic(_) => ctx.violation(&format!("C02:wrong-password:{}", sig_class(&d.outcome)), case()),
            o => {
                if wrote_anything(&d) {
                    ctx.violation("C02:wrong-password-released-bytes", case());
                } else {
                    ctx.seen(&format!("wrong password -> {}", o.class()));
                    ctx.distinct(&format!("wrong|{}|{}", pname, w.variant));
                }
            }
        }
        if i % 37 == 0 {
            ctx.sample("wrong password rejected", 3, || case());
        }
        let _ = &pts;
    });
    // ---- through the real binary: near-miss passwords must be rejected, exact ones accepted ----
    {
        use crate::cli::{Cmd, Exit, Stdin, WorkDir};
        let wd = WorkDir::new("c02");
        let pws: Vec<String> = vec!["x".repeat(63), "y".repeat(64), "z".repeat(65), "\u{e9}".repeat(100), "correct horse".into(), "pw ".into(), " pw".into(), "tab\tend\t".into(), "\u{30d1}\u{30b9}\u{3000}".into(), "line\n".into(), "".into(), " ".into(), "UPPER".into()];
        let pt = Rng::fork(ctx.seed, "C02-cli").bytes(70_000);
        let wdp = &wd;
        par_for(pws.len(), crate::util::ncpu(), |i| {
            let w = &pws[i];
            let o = Cmd::new(&wdp.path, &["password", "encrypt", "--env-pass"]).pass(w).stdin(Stdin::Bytes(pt.clone())).run();
            ctx.eval();
            if o.exit != Exit::Code(0) {
                ctx.violation("C02:cli:password-encrypt-failed", json!({"password": w, "exit": o.exit.describe(), "stderr": o.stderr_s()}));
                return;
            }
            // the file must be keyed by exactly the password bytes given (reference decode)
            match refspec::decode_pass_file(&o.stdout, w.as_bytes()) {
                Ok(d) if d.body.complete() && d.body.plaintext() == pt => {}
                _ => {
                    ctx.violation("C02:cli:file-is-not-keyed-by-the-exact-password-given", json!({"password": w, "password_hex": hex(w.as_bytes())}));
                    return;
                }
            }
            let f = wdp.write(&format!("f{}.ktl", i), &o.stdout);
            let mut variants: Vec<String> = vec![format!("{} ", w), format!("{}\n", w), format!("{}\t", w), format!("{}\u{3000}", w), format!(" {}", w), w.trim_end().to_string(), w.trim().to_string(), w.to_uppercase(), w.to_lowercase(), format!("{}\r\n", w)];
            variants.retain(|v| v != w);
            variants.dedup();
            for v in variants {
                let outp = wdp.file(&format!("o{}.bin", i));
                let _ = std::fs::remove_file(&outp);
                let d = Cmd::new(&wdp.path, &["password", "decrypt", f.to_str().unwrap(), "-o", outp.to_str().unwrap(), "--env-pass"]).pass(&v).run();
                ctx.eval();
                let case = || json!({"password": w, "password_hex": hex(w.as_bytes()), "other_password_hex": hex(v.as_bytes()), "exit": d.exit.describe(), "stderr": d.stderr_s(), "output_created": outp.exists()});
                match &d.exit {
                    Exit::Code(1) if !outp.exists() => {
                        ctx.seen("cli: near-miss password rejected, nothing written");
                        ctx.distinct(&format!("cli-near|{}|{}", i, hex(v.as_bytes())));
                    }
                    Exit::Code(0) => ctx.violation("C02:cli:different-password-accepted", case()),
                    Exit::Code(1) => ctx.violation("C02:cli:different-password-released-output", case()),
                    Exit::Timeout => ctx.inconclusive("C02 cli: timeout"),
                    other => ctx.violation(&format!("C02:cli:abnormal-termination:{}", other.describe()), case()),
                }
            }
            // output paths that already hold longer content (left by an earlier run): both directions
            // must leave exactly the new result
            {
                let mut r = Rng::fork(ctx.seed, &format!("C02-cli-stale-{}", i));
                let small = r.bytes(if i % 2 == 0 { 10 } else { 66_000 });
                let pin = wdp.write(&format!("pin{}.bin", i), &small);
                let cto = wdp.write(&format!("stale-c{}.ktl", i), &r.bytes(small.len() + 36 + 32 * 3 + 50_000));
                let pto = wdp.write(&format!("stale-p{}.bin", i), &r.bytes(small.len() + 90_000));
                let e = Cmd::new(&wdp.path, &["password", "encrypt", pin.to_str().unwrap(), "-o", cto.to_str().unwrap(), "--env-pass"]).pass(w).run();
                let d = Cmd::new(&wdp.path, &["password", "decrypt", cto.to_str().unwrap(), "-o", pto.to_str().unwrap(), "--env-pass"]).pass(w).run();
                ctx.eval();
                let c = std::fs::read(&cto).unwrap_or_default();
                let got = std::fs::read(&pto).unwrap_or_default();
                let conforms = matches!(refspec::decode_pass_file(&c, w.as_bytes()), Ok(x) if x.body.complete() && x.body.plaintext() == small);
                if e.exit == Exit::Timeout || d.exit == Exit::Timeout {
                    ctx.inconclusive("C02 cli: timeout");
                } else if e.exit == Exit::Code(0) && d.exit == Exit::Code(0) && got == small && conforms {
                    ctx.seen("cli: round trip onto output paths that already hold longer content");
                    ctx.distinct(&format!("cli-stale|{}|{}", i, small.len()));
                } else {
                    ctx.violation("C02:cli:round-trip-onto-existing-output-paths-does-not-give-the-original-bytes", json!({"password": w, "len": small.len(), "encrypt_exit": e.exit.describe(), "decrypt_exit": d.exit.describe(), "stderr": format!("{} | {}", e.stderr_s(), d.stderr_s()), "ciphertext_file_len": c.len(), "ciphertext_conforms": conforms, "decrypted_len": got.len()}));
                }
            }
            // and the exact password works
            let d = Cmd::new(&wdp.path, &["password", "decrypt", f.to_str().unwrap(), "--env-pass"]).pass(w).run();
            ctx.eval();
            if d.exit == Exit::Code(0) && d.stdout == pt {
                ctx.seen("cli: exact password accepted");
            } else {
                ctx.violation("C02:cli:exact-password-rejected", json!({"password": w, "exit": d.exit.describe(), "stderr": d.stderr_s()}));
            }
        });
    }
    if !crate::lib_only() {
        // special plaintext content through the real binary, password mode, -o files
        {
            use crate::cli::{Cmd, Exit, WorkDir};
            let mut rng = Rng::fork(ctx.seed, "C02-cli-content");
            let fams = crate::util::content_families(&mut rng);
            par_for(fams.len(), crate::util::ncpu(), |j| {
                let (what, pt) = &fams[j];
                let wd = WorkDir::new("c02c");
                wd.write("plain.bin", pt);
                let e = Cmd::new(&wd.path, &["password", "encrypt", "plain.bin", "-o", "c.ktl", "--env-pass"]).pass("content pw").run();
                let d = Cmd::new(&wd.path, &["password", "decrypt", "c.ktl", "-o", "p.out", "--env-pass"]).pass("content pw").run();
                ctx.eval();
                let c = std::fs::read(wd.file("c.ktl")).unwrap_or_default();
                let got = std::fs::read(wd.file("p.out")).unwrap_or_default();
                let refok = matches!(refspec::decode_pass_file(&c, b"content pw"), Ok(x) if x.body.complete() && &x.body.plaintext() == pt);
                if e.exit == Exit::Code(0) && d.exit == Exit::Code(0) && &got == pt && refok {
                    ctx.seen("cli: round trip of special plaintext content");
                    ctx.distinct(&format!("cli-content|{}", what));
                } else if e.exit == Exit::Timeout || d.exit == Exit::Timeout {
                    ctx.inconclusive("C02 cli: timeout");
                } else {
                    ctx.violation("C02:cli:round-trip-of-special-content-fails", json!({"content": what, "encrypt": e.exit.describe(), "decrypt": d.exit.describe(), "plaintext_len": pt.len(), "decrypted_len": got.len(), "ciphertext_conforms": refok}));
                }
            });
            ctx.require("cli: round trip of special plaintext content", 8);
        }
        // long passwords (up to the 128 KiB an environment string can carry): the file is keyed by exactly the
        // bytes given; a password differing only in its last byte, or a proper prefix of it, is refused
        {
            use crate::cli::{Cmd, Exit, Stdin, WorkDir};
            let wd = WorkDir::new("c02l");
            let lens: Vec<usize> = ctx.tier.pick(vec![65, 1024, 1025, 4097, 70_000], vec![63, 64, 65, 255, 256, 257, 1023, 1024, 1025, 2049, 4095, 4096, 4097, 16385, 65535, 65536, 65537, 131_000]);
            let wdp = &wd;
            par_for(lens.len(), crate::util::ncpu(), |i| {
                let n = lens[i];
                let w: String = (0..n).map(|k| (b'a' + ((k * 11 + i + k / 26) % 26) as u8) as char).collect();
                let pt = Rng::fork(ctx.seed, &format!("C02-long-{}", i)).bytes(1000);
                let e = Cmd::new(&wdp.path, &["password", "encrypt", "--env-pass"]).pass(&w).stdin(Stdin::Bytes(pt.clone())).run();
                ctx.eval();
                if e.exit == Exit::Timeout {
                    ctx.inconclusive("C02 cli: timeout");
                    return;
                }
                if !matches!(refspec::decode_pass_file(&e.stdout, w.as_bytes()), Ok(d) if e.exit == Exit::Code(0) && d.body.complete() && d.body.plaintext() == pt) {
                    ctx.violation("C02:cli:file-is-not-keyed-by-the-exact-password-given:long-password", json!({"password_len": n, "exit": e.exit.describe(), "stderr": e.stderr_s()}));
                    return;
                }
                let f = wdp.write(&format!("long{}.ktl", i), &e.stdout);
                let mut changed = w.clone().into_bytes();
                changed[n - 1] = if changed[n - 1] == b'z' { b'y' } else { b'z' };
                for (what, v) in [("last byte changed", String::from_utf8(changed).unwrap()), ("last byte dropped", w[..n - 1].to_string()), ("cut to the previous power of two", w[..(n.next_power_of_two() / 2).min(n - 1)].to_string())] {
                    if refspec::hmac_norm(v.as_bytes()) == refspec::hmac_norm(w.as_bytes()) {
                        continue;
                    }
                    let d = Cmd::new(&wdp.path, &["password", "decrypt", f.to_str().unwrap(), "--env-pass"]).pass(&v).run();
                    ctx.eval();
                    if !(d.exit == Exit::Code(1) && d.stdout.is_empty()) {
                        ctx.violation("C02:cli:different-password-accepted:long-password", json!({"password_len": n, "offered": what, "exit": d.exit.describe(), "released_bytes": d.stdout.len()}));
                        return;
                    }
                }
                ctx.seen("cli: long password keys the file exactly; last-byte and prefix variants refused");
                ctx.distinct(&format!("cli-long|{}", n));
            });
            ctx.require("cli: long password keys the file exactly", 4);
        }
        // passwords that are not valid UTF-8 (legal in the environment): the tool may refuse them; if it uses them, the
        // file is keyed by exactly those bytes - never by a lossy rendering that other byte strings share - and another
        // invalid byte string (or the replacement-character rendering) does not open it
        {
            use crate::cli::{Cmd, Exit, Stdin, WorkDir};
            use std::os::unix::ffi::OsStringExt;
            let wd = WorkDir::new("c02n");
            let pairs: Vec<(Vec<u8>, Vec<u8>)> = vec![
                (b"s3cr\xe9t".to_vec(), b"s3cr\xe8t".to_vec()),
                (b"\xff\xfe-k".to_vec(), "\u{fffd}\u{fffd}-k".as_bytes().to_vec()),
                (b"tail\xc3".to_vec(), b"tail\xc2".to_vec()),
                (b"\x80".to_vec(), b"\x81".to_vec()),
                (b"mid\xf0\x9f\x94dle".to_vec(), b"mid\xf0\x9f\x95dle".to_vec()),
                (b"latin1 caf\xe9".to_vec(), "latin1 caf\u{e9}".as_bytes().to_vec()),
            ];
            for (i, (w, other)) in pairs.iter().enumerate() {
                let pt = Rng::fork(ctx.seed, &format!("C02-nonutf8-{}", i)).bytes(500);
                let raw = |b: &Vec<u8>| std::ffi::OsString::from_vec(b.clone());
                let e = Cmd::new(&wd.path, &["password", "encrypt", "--env-pass"]).env_os("KESTREL_PASSWORD", raw(w)).stdin(Stdin::Bytes(pt.clone())).run();
                ctx.eval();
                match &e.exit {
                    Exit::Timeout => {
                        ctx.inconclusive("C02 cli: timeout");
                        continue;
                    }
                    Exit::Code(1) if e.has_error_line() && e.stdout.is_empty() => {
                        ctx.seen("cli: non-UTF-8 password refused for encryption");
                        ctx.distinct(&format!("cli-nonutf8|{}|refused", i));
                    }
                    Exit::Code(0) => {
                        if !matches!(refspec::decode_pass_file(&e.stdout, w), Ok(d) if d.body.complete() && d.body.plaintext() == pt) {
                            ctx.violation("C02:cli:file-is-not-keyed-by-the-exact-password-given:non-utf8-password", json!({"password_hex": hex(w), "exit": e.exit.describe(), "stderr": e.stderr_s(), "note": "the reference cannot open the file with exactly the bytes that were in KESTREL_PASSWORD"}));
                            continue;
                        }
                        ctx.seen("cli: non-UTF-8 password used byte-exactly for encryption");
                        ctx.distinct(&format!("cli-nonutf8|{}|exact", i));
                    }
                    other => {
                        ctx.violation(&format!("C02:cli:non-utf8-password:{}", other.describe().replace(' ', "-")), json!({"password_hex": hex(w), "stderr": e.stderr_s()}));
                        continue;
                    }
                }
                // decryption side: a file the reference made under w; offered w (refused or exact) and the other string (never accepted)
                let f = refspec::encode_pass_file(w, &Rng::fork(ctx.seed, &format!("C02-nonutf8-salt-{}", i)).arr32(), &pt, &[pt.len()]);
                let fp = wd.write(&format!("n{}.ktl", i), &f);
                let d = Cmd::new(&wd.path, &["password", "decrypt", fp.to_str().unwrap(), "--env-pass"]).env_os("KESTREL_PASSWORD", raw(w)).run();
                ctx.eval();
                if !((d.exit == Exit::Code(0) && d.stdout == pt) || (d.exit == Exit::Code(1) && d.stdout.is_empty())) {
                    ctx.violation("C02:cli:non-utf8-password:decrypt-neither-refused-nor-exact", json!({"password_hex": hex(w), "exit": d.exit.describe(), "released_bytes": d.stdout.len(), "stderr": d.stderr_s()}));
                    continue;
                }
                let d2 = Cmd::new(&wd.path, &["password", "decrypt", fp.to_str().unwrap(), "--env-pass"]).env_os("KESTREL_PASSWORD", raw(other)).run();
                ctx.eval();
                if d2.exit == Exit::Code(0) || !d2.stdout.is_empty() {
                    ctx.violation("C02:cli:different-password-accepted:non-utf8-password", json!({"file_made_under_hex": hex(w), "offered_hex": hex(other), "exit": d2.exit.describe(), "released_bytes": d2.stdout.len()}));
                    continue;
                }
                // and the mirror image: a file the TOOL made under `other` (if it accepts it) must not open under w
                let e2 = Cmd::new(&wd.path, &["password", "encrypt", "--env-pass"]).env_os("KESTREL_PASSWORD", raw(other)).stdin(Stdin::Bytes(pt.clone())).run();
                ctx.eval();
                if e2.exit == Exit::Code(0) {
                    if refspec::decode_pass_file(&e2.stdout, w).map(|d| d.body.complete() || !d.body.chunks.is_empty()).unwrap_or(false) {
                        ctx.violation("C02:cli:different-password-accepted:non-utf8-password", json!({"file_made_by_the_tool_under_hex": hex(other), "opens_under_hex": hex(w)}));
                        continue;
                    }
                    let fp2 = wd.write(&format!("m{}.ktl", i), &e2.stdout);
                    let d3 = Cmd::new(&wd.path, &["password", "decrypt", fp2.to_str().unwrap(), "--env-pass"]).env_os("KESTREL_PASSWORD", raw(w)).run();
                    ctx.eval();
                    if d3.exit == Exit::Code(0) || !d3.stdout.is_empty() {
                        ctx.violation("C02:cli:different-password-accepted:non-utf8-password", json!({"file_made_by_the_tool_under_hex": hex(other), "offered_hex": hex(w), "exit": d3.exit.describe(), "released_bytes": d3.stdout.len()}));
                        continue;
                    }
                }
                ctx.seen("cli: non-UTF-8 passwords: refused or byte-exact, look-alikes never accepted");
            }
            ctx.require("cli: non-UTF-8 passwords: refused or byte-exact", 4);
        }
        crate::ttylanes::c02(ctx);
        ctx.require("tty: typed password round trip", 4);
    }
    ctx.require("cli: near-miss password rejected", 30);
    ctx.require("cli: round trip onto output paths that already hold longer content", 6);
    ctx.require("prod: chunks=", 20);
    ctx.require("wrong password -> ", 50);
}
