//! Shared round-trip workloads for C01 / C02: small-scope exhaustive chunk-loop round trips
//! and the schedule families used at production size.

use crate::ctx::Ctx;
use crate::ioscript::Sched;
use crate::kio::{chunks_decrypt_run, chunks_encrypt_run, Io, Outcome};
use crate::refspec;
use crate::util::{compositions, hex, hex_short, par_for, Rng};
use serde_json::json;

pub fn write_scheds(rng: &mut Rng) -> Vec<Sched> {
    vec![
        Sched::all(),
        Sched::fixed(1),
        Sched::list(vec![1, 2, 1, 2, 1, 2, 1, 2, 1, 2, 1, 2], 3),
        Sched::random(rng, 24, 7),
    ]
}

pub fn ct_read_scheds(rng: &mut Rng) -> Vec<Sched> {
    vec![
        Sched::all(),
        Sched::fixed(1),
        // straddles the 16-byte chunk header and the tag
        Sched::list(vec![3, 13, 5, 11, 7, 9, 15, 1, 17], 5),
        Sched::random(rng, 32, 19),
    ]
}

/// One small-scope round trip through the hooked chunk loops, judged against the reference.
/// Returns the number of chunks the encryptor produced (0 on failure).
#[allow(clippy::too_many_arguments)]
pub fn small_roundtrip(
    ctx: &Ctx,
    prop: &str,
    key: &[u8; 32],
    aad: &[u8],
    c: u32,
    pt: &[u8],
    enc_io: &Io,
    dec_io: &Io,
) -> usize {
    let case = || {
        json!({
            "plaintext": hex_short(pt, 64), "len": pt.len(), "chunk_size": c, "key": hex(key), "aad": hex(aad),
            "encrypt_io": enc_io.describe(), "decrypt_io": dec_io.describe(),
        })
    };
    ctx.eval();
    let e = chunks_encrypt_run(pt, enc_io, key, aad, c);
    if e.log.budget_hit() {
        ctx.violation(&format!("{}:small:encrypt:call-budget-exceeded", prop), case());
        return 0;
    }
    if !e.outcome.is_ok() {
        ctx.violation(&format!("{}:small:encrypt-failed:{}", prop, sig_class(&e.outcome)), case());
        return 0;
    }
    // tie the loop to the wire format: the reference must decode what was written
    let body = refspec::decode_body(&e.out, 0, key, aad, c as usize);
    if !body.complete() || body.plaintext() != pt {
        let mut d = case();
        d["ciphertext"] = json!(hex_short(&e.out, 256));
        d["reference_end"] = json!(format!("{:?}", body.end));
        ctx.violation(&format!("{}:small:reference-cannot-decode-output", prop), d);
        return 0;
    }
    let d = chunks_decrypt_run(&e.out, dec_io, key, aad, c);
    if d.log.budget_hit() {
        ctx.violation(&format!("{}:small:decrypt:call-budget-exceeded", prop), case());
        return 0;
    }
    match &d.outcome {
        Outcome::Ok(_) => {
            if d.out != pt {
                let mut v = case();
                v["got"] = json!(hex_short(&d.out, 64));
                ctx.violation(&format!("{}:small:roundtrip-bytes-differ", prop), v);
                return 0;
            }
        }
        o => {
            ctx.violation(&format!("{}:small:decrypt-failed:{}", prop, sig_class(o)), case());
            return 0;
        }
    }
    body.chunks.len()
}

/// Result class for signatures: drops free text so signatures are stable.
pub fn sig_class(o: &Outcome) -> String {
    match o {
        Outcome::Other(m) => format!("Other({})", m.chars().take(40).collect::<String>()),
        Outcome::Panic(p) => format!("panic({})", crate::kio::panic_site(p)),
        o => o.class(),
    }
}

/// Exhaustive small-scope block: all |P| <= max_len, c <= max_c, all compositions of |P| into
/// reads <= c, each with several write / ciphertext-read schedules.
pub fn small_scope_block(ctx: &Ctx, prop: &str, aad: &[u8], max_len: usize, max_c: u32) {
    let mut work = Vec::new();
    for c in 1..=max_c {
        for len in 0..=max_len {
            work.push((c, len));
        }
    }
    par_for(work.len(), crate::util::ncpu(), |i| {
        let (c, len) = work[i];
        let mut rng = Rng::fork(ctx.seed, &format!("{}-small-{}-{}", prop, c, len));
        let key = rng.arr32();
        let pt = rng.bytes(len);
        let comps = if len == 0 { vec![vec![]] } else { compositions(len, c as usize) };
        let ws = write_scheds(&mut rng);
        let crs = ct_read_scheds(&mut rng);
        let mut keys = Vec::new();
        for comp in &comps {
            for (wi, w) in ws.iter().enumerate() {
                // pair each write schedule with one decrypt-side schedule pair (rotating), and the
                // all-at-once encrypt sink with every ciphertext read schedule
                let dec_pairs: Vec<(usize, usize)> =
                    if wi == 0 { (0..crs.len()).map(|r| (r, r % ws.len())).collect() } else { vec![((wi + comp.len()) % crs.len(), wi)] };
                for (ri, dwi) in dec_pairs {
                    let mut enc_io = Io::new(Sched::list(comp.clone(), 1), w.clone());
                    let mut dec_io = Io::new(crs[ri].clone(), ws[dwi].clone());
                    // half of the sinks implement write_vectored themselves, with short counts across slices
                    enc_io.vectored = (wi + comp.len()) % 2 == 1;
                    dec_io.vectored = (ri + comp.len()) % 2 == 0;
                    let nchunks = small_roundtrip(ctx, prop, &key, aad, c, &pt, &enc_io, &dec_io);
                    if nchunks >= 2 || len == 0 || len % c as usize == 0 {
                        keys.push(format!("small|{}|{}|{:?}|w{}|r{}", len, c, comp, wi, ri));
                    }
                    if nchunks > 0 {
                        ctx.seen(&format!("small: chunks={}", nchunks.min(13)));
                    }
                }
            }
        }
        ctx.distinct_many(&keys);
        if len == max_len && c == max_c {
            ctx.sample("small-scope round trip", 2, || {
                json!({"len": len, "chunk_size": c, "plaintext": hex(&pt), "read_partition": comps.last(), "partitions_for_this_length": comps.len()})
            });
        }
    });
}

/// Long small-chunk run: the chunk counter crosses 2^16 at c = 1.
pub fn counter_crossing(ctx: &Ctx, prop: &str, aad: &[u8], len: usize) {
    let mut rng = Rng::fork(ctx.seed, &format!("{}-crossing", prop));
    let key = rng.arr32();
    let pt = rng.bytes(len);
    let n = small_roundtrip(ctx, prop, &key, aad, 1, &pt, &Io::plain(), &Io::plain());
    ctx.distinct(&format!("crossing|{}|{}", len, n));
    ctx.seen(&format!("small: counter reached {}", n.saturating_sub(1)));
    ctx.sample("counter crossing", 1, || json!({"len": len, "chunk_size": 1, "chunks": n}));
}

pub const PROD_LENGTHS: [usize; 10] = [0, 1, 2, 65535, 65536, 65537, 131071, 131072, 131073, 196608];

/// Read schedules at production size. `small` adds the one-byte schedule.
pub fn prod_read_scheds(rng: &mut Rng, len: usize) -> Vec<(String, Sched)> {
    let mut v = vec![
        ("all".to_string(), Sched::all()),
        ("4096".to_string(), Sched::fixed(4096)),
        ("65535,1,..".to_string(), Sched::list(vec![65535, 1, 65535, 1, 65535, 1], 65536)),
        ("65536,1,65536".to_string(), Sched::list(vec![65536, 1, 65536], 65536)),
        ("pipe-like".to_string(), Sched::random(rng, 64, 65536)),
        ("short-at-boundary".to_string(), Sched::list(vec![65536, 65535, 1, 65536, 3], 65536)),
        ("tiny-first".to_string(), Sched::list(vec![1, 65536, 2], 65536)),
    ];
    if len <= 3000 {
        v.push(("1".to_string(), Sched::fixed(1)));
    }
    v
}

pub fn prod_write_scheds(rng: &mut Rng) -> Vec<(String, Sched)> {
    vec![
        ("all".to_string(), Sched::all()),
        ("4093".to_string(), Sched::fixed(4093)),
        ("random".to_string(), Sched::random(rng, 48, 70000)),
        ("15,1,..".to_string(), Sched::list(vec![15, 1, 16, 17, 4, 128], 65536 + 16)),
    ]
}
