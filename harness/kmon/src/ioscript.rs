//! Scripted `Read` / `Write` objects that log every call on one logical clock and can
//! return short counts and injected faults. The log is the "history" the monitors judge.

use std::cell::RefCell;
use std::io::{self, ErrorKind, Read, Write};
use std::rc::Rc;

#[derive(Clone, Debug, PartialEq)]
pub enum Op {
    Read,
    Write,
    Flush,
}

#[derive(Clone, Debug, PartialEq)]
pub enum Res {
    /// bytes transferred
    N(usize),
    Err(ErrorKind),
    FlushOk,
    /// the call budget was exceeded (reported as unbounded work)
    Budget,
}

#[derive(Clone, Debug)]
pub struct Event {
    pub t: u64,
    pub op: Op,
    pub requested: usize,
    pub res: Res,
    /// reader position after the call (reads) / total bytes accepted by the sink (writes)
    pub pos_after: usize,
    /// for write events: the offset in the sink at which these bytes start
    pub at: usize,
}

#[derive(Default)]
pub struct LogInner {
    pub events: Vec<Event>,
    pub clock: u64,
    pub read_pos: usize,
    pub written: usize,
    pub budget_hit: bool,
}

#[derive(Clone, Default)]
pub struct Log(pub Rc<RefCell<LogInner>>);

impl Log {
    pub fn new() -> Log {
        Log::default()
    }
    pub fn events(&self) -> Vec<Event> {
        self.0.borrow().events.clone()
    }
    pub fn budget_hit(&self) -> bool {
        self.0.borrow().budget_hit
    }
    fn push(&self, op: Op, requested: usize, res: Res, pos_after: usize, at: usize) {
        let mut l = self.0.borrow_mut();
        let t = l.clock;
        l.clock += 1;
        l.events.push(Event { t, op, requested, res, pos_after, at });
    }
    pub fn count(&self, op: Op) -> usize {
        self.0.borrow().events.iter().filter(|e| e.op == op).count()
    }
    /// Compact shape of the trace: sequence of (op, requested, result) as a string.
    pub fn shape(&self) -> String {
        let l = self.0.borrow();
        let mut s = String::new();
        for e in &l.events {
            let c = match e.op {
                Op::Read => 'r',
                Op::Write => 'w',
                Op::Flush => 'f',
            };
            match &e.res {
                Res::N(n) => s.push_str(&format!("{}{}/{} ", c, n, e.requested)),
                Res::Err(k) => s.push_str(&format!("{}!{:?} ", c, k)),
                Res::FlushOk => s.push_str("f "),
                Res::Budget => s.push_str("BUDGET "),
            }
        }
        s
    }
}

/// How many bytes each successive call transfers at most. When exhausted, `rest` applies.
#[derive(Clone, Debug)]
pub struct Sched {
    pub sizes: Vec<usize>,
    pub rest: usize,
}

impl Sched {
    pub fn all() -> Sched {
        Sched { sizes: vec![], rest: usize::MAX }
    }
    pub fn fixed(n: usize) -> Sched {
        Sched { sizes: vec![], rest: n.max(1) }
    }
    pub fn list(sizes: Vec<usize>, rest: usize) -> Sched {
        Sched { sizes, rest: rest.max(1) }
    }
    pub fn random(rng: &mut crate::util::Rng, n: usize, max: usize) -> Sched {
        Sched { sizes: (0..n).map(|_| rng.range(1, max.max(1))).collect(), rest: rng.range(1, max.max(1)) }
    }
    fn at(&self, i: usize) -> usize {
        self.sizes.get(i).copied().unwrap_or(self.rest).max(1)
    }
    pub fn describe(&self) -> String {
        if self.sizes.is_empty() {
            if self.rest == usize::MAX {
                "all".into()
            } else {
                format!("fixed({})", self.rest)
            }
        } else {
            let head: Vec<String> = self.sizes.iter().take(12).map(|x| x.to_string()).collect();
            format!("[{}{}]+{}", head.join(","), if self.sizes.len() > 12 { ",.." } else { "" }, if self.rest == usize::MAX { "all".into() } else { self.rest.to_string() })
        }
    }
}

#[derive(Clone, Debug, PartialEq)]
pub enum Fault {
    Kind(ErrorKind),
    /// writer only: accept zero bytes (Ok(0))
    Zero,
}

pub struct ScriptedReader {
    pub data: Vec<u8>,
    pub pos: usize,
    pub sched: Sched,
    /// (index among read calls, fault). A transient fault (Interrupted) is delivered once.
    pub faults: Vec<(usize, Fault)>,
    pub calls: usize,
    pub budget: usize,
    pub log: Log,
}

impl ScriptedReader {
    pub fn new(data: &[u8], sched: Sched, log: &Log) -> ScriptedReader {
        ScriptedReader {
            data: data.to_vec(),
            pos: 0,
            sched,
            faults: vec![],
            calls: 0,
            budget: 4 * data.len() + 64,
            log: log.clone(),
        }
    }
    pub fn with_fault(mut self, call: usize, f: Fault) -> Self {
        self.faults.push((call, f));
        self
    }
}

impl Read for ScriptedReader {
    fn read(&mut self, buf: &mut [u8]) -> io::Result<usize> {
        let call = self.calls;
        self.calls += 1;
        if call >= self.budget {
            self.log.0.borrow_mut().budget_hit = true;
            self.log.push(Op::Read, buf.len(), Res::Budget, self.pos, 0);
            return Err(io::Error::new(ErrorKind::Other, "kmon: read call budget exceeded"));
        }
        if let Some((_, f)) = self.faults.iter().find(|(c, _)| *c == call) {
            if let Fault::Kind(k) = f {
                self.log.push(Op::Read, buf.len(), Res::Err(*k), self.pos, 0);
                return Err(io::Error::new(*k, "kmon: injected read fault"));
            }
        }
        let remaining = self.data.len() - self.pos;
        let n = if buf.is_empty() { 0 } else { self.sched.at(call).min(buf.len()).min(remaining) };
        buf[..n].copy_from_slice(&self.data[self.pos..self.pos + n]);
        self.pos += n;
        self.log.0.borrow_mut().read_pos = self.pos;
        self.log.push(Op::Read, buf.len(), Res::N(n), self.pos, 0);
        Ok(n)
    }
}

pub struct ScriptedWriter {
    pub out: Rc<RefCell<Vec<u8>>>,
    pub sched: Sched,
    /// (index among write calls, fault)
    pub faults: Vec<(usize, Fault)>,
    /// indices among flush calls that fail
    pub flush_faults: Vec<(usize, ErrorKind)>,
    pub wcalls: usize,
    pub fcalls: usize,
    pub budget: usize,
    pub log: Log,
    /// implement write_vectored natively (accepts a short count ACROSS the slices, like writev on a pipe)
    pub vectored: bool,
}

impl ScriptedWriter {
    pub fn new(sched: Sched, log: &Log) -> ScriptedWriter {
        ScriptedWriter {
            out: Rc::new(RefCell::new(Vec::new())),
            sched,
            faults: vec![],
            flush_faults: vec![],
            wcalls: 0,
            fcalls: 0,
            budget: 1 << 22,
            log: log.clone(),
            vectored: false,
        }
    }
    pub fn with_fault(mut self, call: usize, f: Fault) -> Self {
        self.faults.push((call, f));
        self
    }
    pub fn with_flush_fault(mut self, call: usize, k: ErrorKind) -> Self {
        self.flush_faults.push((call, k));
        self
    }
    pub fn sink(&self) -> Rc<RefCell<Vec<u8>>> {
        self.out.clone()
    }
}

impl Write for ScriptedWriter {
    fn write(&mut self, buf: &[u8]) -> io::Result<usize> {
        let call = self.wcalls;
        self.wcalls += 1;
        let at = self.out.borrow().len();
        if call >= self.budget {
            self.log.0.borrow_mut().budget_hit = true;
            self.log.push(Op::Write, buf.len(), Res::Budget, at, at);
            return Err(io::Error::new(ErrorKind::Other, "kmon: write call budget exceeded"));
        }
        if let Some((_, f)) = self.faults.iter().find(|(c, _)| *c == call) {
            match f {
                Fault::Kind(k) => {
                    self.log.push(Op::Write, buf.len(), Res::Err(*k), at, at);
                    return Err(io::Error::new(*k, "kmon: injected write fault"));
                }
                Fault::Zero => {
                    self.log.push(Op::Write, buf.len(), Res::N(0), at, at);
                    return Ok(0);
                }
            }
        }
        let n = if buf.is_empty() { 0 } else { self.sched.at(call).min(buf.len()) };
        self.out.borrow_mut().extend_from_slice(&buf[..n]);
        let total = at + n;
        self.log.0.borrow_mut().written = total;
        self.log.push(Op::Write, buf.len(), Res::N(n), total, at);
        Ok(n)
    }

    fn write_vectored(&mut self, bufs: &[io::IoSlice<'_>]) -> io::Result<usize> {
        if !self.vectored {
            // what std's default does: forward the first non-empty slice
            let b = bufs.iter().find(|b| !b.is_empty()).map(|b| &**b).unwrap_or(&[][..]);
            return self.write(b);
        }
        let call = self.wcalls;
        self.wcalls += 1;
        let at = self.out.borrow().len();
        let total: usize = bufs.iter().map(|b| b.len()).sum();
        if call >= self.budget {
            self.log.0.borrow_mut().budget_hit = true;
            self.log.push(Op::Write, total, Res::Budget, at, at);
            return Err(io::Error::new(ErrorKind::Other, "kmon: write call budget exceeded"));
        }
        if let Some((_, f)) = self.faults.iter().find(|(c, _)| *c == call) {
            match f {
                Fault::Kind(k) => {
                    self.log.push(Op::Write, total, Res::Err(*k), at, at);
                    return Err(io::Error::new(*k, "kmon: injected write fault"));
                }
                Fault::Zero => {
                    self.log.push(Op::Write, total, Res::N(0), at, at);
                    return Ok(0);
                }
            }
        }
        let mut left = if total == 0 { 0 } else { self.sched.at(call).min(total) };
        let n = left;
        for b in bufs {
            if left == 0 {
                break;
            }
            let k = left.min(b.len());
            self.out.borrow_mut().extend_from_slice(&b[..k]);
            left -= k;
        }
        let newlen = at + n;
        self.log.0.borrow_mut().written = newlen;
        self.log.push(Op::Write, total, Res::N(n), newlen, at);
        Ok(n)
    }

    fn flush(&mut self) -> io::Result<()> {
        let call = self.fcalls;
        self.fcalls += 1;
        let at = self.out.borrow().len();
        if let Some((_, k)) = self.flush_faults.iter().find(|(c, _)| *c == call) {
            self.log.push(Op::Flush, 0, Res::Err(*k), at, at);
            return Err(io::Error::new(*k, "kmon: injected flush fault"));
        }
        self.log.push(Op::Flush, 0, Res::FlushOk, at, at);
        Ok(())
    }
}

/// A reader that generates `len` bytes of a cheap deterministic pattern without a backing buffer.
pub struct GenReader {
    pub len: u64,
    pub pos: u64,
    pub max_read: usize,
    pub consumed: Rc<std::cell::Cell<u64>>,
}

/// `max_read` value that makes a reader return a different, position-dependent size on every call
/// (128 ..= 65536 bytes, thousands of distinct sizes over a long stream)
pub const VARIED_READS: usize = usize::MAX - 1;

pub fn varied_size(pos: u64) -> usize {
    128 + ((pos / 7).wrapping_mul(2_654_435_761) % 65_409) as usize
}

impl GenReader {
    pub fn byte_at(i: u64) -> u8 {
        (i.wrapping_mul(0x9E37_79B9_7F4A_7C15) >> 56) as u8 ^ (i as u8)
    }
}

impl Read for GenReader {
    fn read(&mut self, buf: &mut [u8]) -> io::Result<usize> {
        let cap = if self.max_read == VARIED_READS { varied_size(self.pos) } else { self.max_read };
        let n = (buf.len() as u64).min(self.len - self.pos).min(cap as u64) as usize;
        // fill quickly: pattern repeats per 8 bytes from position
        for (i, b) in buf[..n].iter_mut().enumerate() {
            *b = GenReader::byte_at(self.pos + i as u64);
        }
        self.pos += n as u64;
        self.consumed.set(self.pos);
        Ok(n)
    }
}
