//! C11 - any file size is streamed: constant memory, incremental output.
//! Monitors: (a) per-thread counting allocator around calls whose source is a generator
//! (no backing buffer) and whose sink checks and discards; (b) a logical lag monitor: when
//! the first byte of output chunk i is written, how much input had been consumed; (c) the
//! real binary's ru_maxrss for small and large inputs.

use crate::allocmon;
use crate::cli::{Cmd, Exit, Ident, Stdin, Stdout, WorkDir};
use crate::ctx::{Ctx, Tier};
use crate::ioscript::GenReader;
use crate::kio::*;
use crate::refspec;
use crate::util::{hex, Rng};
use kestrel_crypto::decrypt::{key_decrypt, pass_decrypt, verif_decrypt_chunks};
use kestrel_crypto::encrypt::{key_encrypt, pass_encrypt, verif_encrypt_chunks};
use kestrel_crypto::{AsymFileFormat, PassFileFormat};
use serde_json::json;
use std::io::{Read, Write};
use std::sync::atomic::{AtomicU64, Ordering};
use std::sync::{Arc, Condvar, Mutex};

const CHUNK: u64 = 65536;

/// Fixed-capacity in-memory pipe (allocated before any measurement starts).
struct Ring {
    buf: Mutex<(Vec<u8>, usize, usize, bool)>, // storage, head, len, closed
    cv: Condvar,
}

impl Ring {
    fn new(cap: usize) -> Arc<Ring> {
        Arc::new(Ring { buf: Mutex::new((vec![0u8; cap], 0, 0, false)), cv: Condvar::new() })
    }
}

struct RingWriter(Arc<Ring>);
struct RingReader {
    ring: Arc<Ring>,
    consumed: Arc<AtomicU64>,
    max_read: usize,
}

impl Write for RingWriter {
    fn write(&mut self, data: &[u8]) -> std::io::Result<usize> {
        let mut g = self.0.buf.lock().unwrap();
        loop {
            let cap = g.0.len();
            if g.2 < cap {
                let n = data.len().min(cap - g.2);
                let start = (g.1 + g.2) % cap;
                let first = n.min(cap - start);
                g.0[start..start + first].copy_from_slice(&data[..first]);
                g.0[..n - first].copy_from_slice(&data[first..n]);
                g.2 += n;
                self.0.cv.notify_all();
                return Ok(n);
            }
            g = self.0.cv.wait(g).unwrap();
        }
    }
    fn flush(&mut self) -> std::io::Result<()> {
        Ok(())
    }
}

impl Drop for RingWriter {
    fn drop(&mut self) {
        self.0.buf.lock().unwrap().3 = true;
        self.0.cv.notify_all();
    }
}

impl Read for RingReader {
    fn read(&mut self, out: &mut [u8]) -> std::io::Result<usize> {
        let mut g = self.ring.buf.lock().unwrap();
        loop {
            if g.2 > 0 {
                let cap = g.0.len();
                let cap_now = if self.max_read == crate::ioscript::VARIED_READS { crate::ioscript::varied_size(self.consumed.load(Ordering::SeqCst)) } else { self.max_read };
                let n = out.len().min(g.2).min(cap_now);
                let start = g.1;
                let first = n.min(cap - start);
                out[..first].copy_from_slice(&g.0[start..start + first]);
                out[first..n].copy_from_slice(&g.0[..n - first]);
                g.1 = (g.1 + n) % cap;
                g.2 -= n;
                self.consumed.fetch_add(n as u64, Ordering::SeqCst);
                self.ring.cv.notify_all();
                return Ok(n);
            }
            if g.3 {
                return Ok(0);
            }
            g = self.ring.cv.wait(g).unwrap();
        }
    }
}

/// Record boundaries of the ciphertext stream as the encryptor wrote them (it may cut the plaintext into
/// chunks of any size): a fixed-size table written by the encrypt-side sink and read by the decrypt-side
/// sink, allocated before any measurement starts. Entry k % CAP = (k, end of plaintext chunk k, end of
/// ciphertext record k in the stream).
const TABLE_CAP: usize = 1 << 15;
type Table = Arc<Mutex<Vec<(u64, u64, u64)>>>;

/// Sink for ciphertext produced by the encryptor: forwards to the ring, parses the record headers it
/// forwards, and runs the lag monitor: when the first byte of record k is written, how far beyond the end
/// of plaintext chunk k the input had been consumed.
struct EncSink {
    ring: RingWriter,
    written: u64,
    header: u64,
    consumed: std::rc::Rc<std::cell::Cell<u64>>,
    worst_lag: i64,
    table: Table,
    hdr: [u8; 16],
    hdr_fill: usize,
    body_left: u64,
    consumed_at_record_start: u64,
    record: u64,
    pt_end: u64,
}

impl Write for EncSink {
    fn write(&mut self, data: &[u8]) -> std::io::Result<usize> {
        let n = self.ring.write(data)?;
        for &b in &data[..n] {
            let pos = self.written;
            self.written += 1;
            if pos < self.header {
                continue;
            }
            if self.body_left > 0 {
                self.body_left -= 1;
                continue;
            }
            if self.hdr_fill == 0 {
                self.consumed_at_record_start = self.consumed.get();
            }
            self.hdr[self.hdr_fill] = b;
            self.hdr_fill += 1;
            if self.hdr_fill == 16 {
                self.hdr_fill = 0;
                let len = u32::from_be_bytes([self.hdr[12], self.hdr[13], self.hdr[14], self.hdr[15]]) as u64;
                self.body_left = len + 16;
                self.pt_end += len;
                let lag = self.consumed_at_record_start as i64 - self.pt_end as i64;
                self.worst_lag = self.worst_lag.max(lag);
                let ct_end = self.written + self.body_left;
                self.table.lock().unwrap()[(self.record as usize) % TABLE_CAP] = (self.record + 1, self.pt_end, ct_end);
                self.record += 1;
            }
        }
        Ok(n)
    }
    fn flush(&mut self) -> std::io::Result<()> {
        Ok(())
    }
}

/// Sink for plaintext produced by the decryptor: checks the pattern, discards, lag monitor: when the
/// first plaintext byte of record k is written, how far beyond the end of ciphertext record k the
/// ciphertext had been consumed.
struct DecSink {
    written: u64,
    consumed: Arc<AtomicU64>,
    worst_lag: i64,
    /// the largest number of COMPLETE further records of the ciphertext that had been consumed when the first byte of a
    /// record's plaintext was written ("each chunk is written before more than two further chunks of input have been consumed")
    worst_chunk_lag: i64,
    table: Table,
    record: u64,
    record_pt_start: u64,
    judged: u64,
    unjudged: u64,
    mismatch: bool,
}

impl Write for DecSink {
    fn write(&mut self, data: &[u8]) -> std::io::Result<usize> {
        if !data.is_empty() {
            // find the record that contains plaintext position `written`
            loop {
                let e = self.table.lock().unwrap()[(self.record as usize) % TABLE_CAP];
                if e.0 != self.record + 1 {
                    self.unjudged += 1;
                    break;
                }
                if e.1 <= self.written {
                    // record lies wholly before this position (or is empty): next
                    self.record += 1;
                    self.record_pt_start = e.1;
                    continue;
                }
                if self.written == self.record_pt_start {
                    let consumed = self.consumed.load(Ordering::SeqCst);
                    let lag = consumed as i64 - e.2 as i64;
                    self.worst_lag = self.worst_lag.max(lag);
                    // count the complete further records already consumed (their boundaries are in the table: bytes that
                    // were consumed have been produced)
                    let mut further = 0i64;
                    let t = self.table.lock().unwrap();
                    let mut j = self.record + 1;
                    while further < 4096 {
                        let n = t[(j as usize) % TABLE_CAP];
                        if n.0 != j + 1 || n.2 > consumed {
                            break;
                        }
                        further += 1;
                        j += 1;
                    }
                    drop(t);
                    self.worst_chunk_lag = self.worst_chunk_lag.max(further);
                    self.judged += 1;
                }
                break;
            }
        }
        for (i, b) in data.iter().enumerate() {
            if *b != GenReader::byte_at(self.written + i as u64) {
                self.mismatch = true;
            }
        }
        self.written += data.len() as u64;
        Ok(data.len())
    }
    fn flush(&mut self) -> std::io::Result<()> {
        Ok(())
    }
}

#[derive(Debug, Clone)]
struct StreamReading {
    chunks: u64,
    enc: allocmon::Reading,
    dec: allocmon::Reading,
    enc_lag: i64,
    dec_lag: i64,
    dec_chunk_lag: i64,
    ok: bool,
    detail: String,
    records: u64,
    unjudged: u64,
}

#[derive(Clone, Copy, PartialEq, Debug)]
enum Mode {
    Key,
    Pass,
    /// hooked chunk loops with this chunk size
    Small(u32),
}

/// Encrypt `len` generated bytes in one thread and decrypt the stream in another, through a
/// fixed ring buffer; each side measured by the thread-scoped allocator counters.
fn stream(mode: Mode, len: u64, max_read: usize, seed: u64) -> StreamReading {
    let mut rng = Rng::new(seed ^ len);
    let s = rng.arr32();
    let r = rng.arr32();
    let (s_pub, r_pub) = (refspec::pubkey_of(&s), refspec::pubkey_of(&r));
    let key = rng.arr32();
    let salt = rng.arr32();
    let (chunk, header) = match mode {
        Mode::Key => (CHUNK, 132u64),
        Mode::Pass => (CHUNK, 36u64),
        Mode::Small(c) => (c as u64, 0u64),
    };
    let ring = Ring::new(512 * 1024);
    let table: Table = Arc::new(Mutex::new(vec![(0u64, 0u64, 0u64); TABLE_CAP]));
    let table2 = table.clone();
    let dec_consumed = Arc::new(AtomicU64::new(0));
    let ring2 = ring.clone();
    let dc = dec_consumed.clone();
    let dec_thread = std::thread::spawn(move || {
        let mut reader = RingReader { ring: ring2, consumed: dc.clone(), max_read };
        let mut sink = DecSink { written: 0, consumed: dc, worst_lag: i64::MIN, worst_chunk_lag: 0, table: table2, record: 0, record_pt_start: 0, judged: 0, unjudged: 0, mismatch: false };
        allocmon::begin();
        let res: Result<(), String> = match mode {
            Mode::Key => key_decrypt(&mut reader, &mut sink, &sk(&r), &pk(&r_pub), AsymFileFormat::V1).map(|_| ()).map_err(|e| e.to_string()),
            Mode::Pass => pass_decrypt(&mut reader, &mut sink, b"stream-pw", PassFileFormat::V1).map_err(|e| e.to_string()),
            Mode::Small(c) => verif_decrypt_chunks(&mut reader, &mut sink, &key, &[], c).map_err(|e| e.to_string()),
        };
        let m = allocmon::end();
        // drain so the writer never blocks for ever if decryption stopped early
        let mut junk = [0u8; 4096];
        while let Ok(n) = reader.read(&mut junk) {
            if n == 0 {
                break;
            }
        }
        (m, sink.worst_lag, sink.written, sink.mismatch, res, sink.judged, sink.unjudged, sink.worst_chunk_lag)
    });
    let consumed = std::rc::Rc::new(std::cell::Cell::new(0u64));
    let mut src = GenReader { len, pos: 0, max_read, consumed: consumed.clone() };
    let mut sink = EncSink { ring: RingWriter(ring), written: 0, header, consumed: consumed.clone(), worst_lag: i64::MIN, table, hdr: [0; 16], hdr_fill: 0, body_left: 0, consumed_at_record_start: 0, record: 0, pt_end: 0 };
    allocmon::begin();
    let eres: Result<(), String> = match mode {
        Mode::Key => key_encrypt(&mut src, &mut sink, &sk(&s), &pk(&s_pub), &pk(&r_pub), None, None, None, AsymFileFormat::V1).map_err(|e| e.to_string()),
        Mode::Pass => pass_encrypt(&mut src, &mut sink, b"stream-pw", salt, PassFileFormat::V1).map_err(|e| e.to_string()),
        Mode::Small(c) => verif_encrypt_chunks(&mut src, &mut sink, &key, &[], c).map_err(|e| e.to_string()),
    };
    let em = allocmon::end();
    let enc_lag = sink.worst_lag;
    let sink_records = sink.record;
    drop(sink); // closes the ring
    let records = sink_records;
    let (dm, dec_lag, dec_written, mismatch, dres, judged, unjudged, dec_chunk_lag) = dec_thread.join().expect("decrypt thread");
    let ok = eres.is_ok() && dres.is_ok() && dec_written == len && !mismatch;
    let detail = format!("encrypt={:?} decrypt={:?} decrypted_bytes={} pattern_mismatch={} ciphertext_records={} records_judged_on_the_decrypt_side={}", eres, dres, dec_written, mismatch, records, judged);
    StreamReading { chunks: (len + chunk - 1) / chunk.max(1), enc: em, dec: dm, enc_lag, dec_lag, dec_chunk_lag, ok, detail, records, unjudged }
}

fn in_process(ctx: &Ctx) {
    let sizes: Vec<u64> = ctx.tier.pick(vec![3, 16, 256, 2048], vec![3, 16, 256, 4096, 65_600]);
    for mode in [Mode::Key, Mode::Pass] {
        let mut base: Option<StreamReading> = None;
        for &n in &sizes {
            // not an exact multiple: the last chunk is short; reads are capped to provoke short chunks on one lane
            let len = n * CHUNK - 17;
            for max_read in [usize::MAX, 40_000, crate::ioscript::VARIED_READS, 1000, 7] {
                if (max_read == 40_000 && n > 256) || (max_read == 1000 && n > 16) || (max_read == 7 && n > 3) {
                    continue;
                }
                if max_read == crate::ioscript::VARIED_READS && n > 4096 {
                    continue;
                }
                let t0 = std::time::Instant::now();
                let rd = stream(mode, len, max_read, ctx.seed);
                ctx.eval();
                let case = || json!({"mode": format!("{:?}", mode), "input_bytes": len, "chunks": n, "max_read": if max_read == usize::MAX { json!("unlimited") } else if max_read == crate::ioscript::VARIED_READS { json!("a different size on every call, 128..=65536") } else { json!(max_read) },
                    "retained_after_the_call": {"encrypt": rd.enc.live_at_end, "decrypt": rd.dec.live_at_end},
                    "encrypt": {"peak_live": rd.enc.peak_live, "largest_block": rd.enc.largest_block, "allocations": rd.enc.allocations},
                    "decrypt": {"peak_live": rd.dec.peak_live, "largest_block": rd.dec.largest_block, "allocations": rd.dec.allocations},
                    "encrypt_lag_bytes": rd.enc_lag, "decrypt_lag_bytes": rd.dec_lag, "decrypt_lag_in_further_records": rd.dec_chunk_lag, "seconds": t0.elapsed().as_secs_f64(), "detail": rd.detail});
                if !rd.ok {
                    ctx.violation(&format!("C11:{:?}:stream-round-trip-failed", mode), case());
                    continue;
                }
                if rd.unjudged > 0 {
                    ctx.inconclusive(&format!("C11: the lag monitor lost track of {} record boundaries", rd.unjudged));
                    continue;
                }
                ctx.seen_n("ciphertext records whose write/consume order was judged", rd.records);
                if base.is_none() {
                    base = Some(rd.clone());
                }
                let b = base.as_ref().unwrap();
                let slack = CHUNK as isize + 4096;
                if rd.enc.peak_live > b.enc.peak_live + slack || rd.enc.largest_block > b.enc.largest_block + slack as usize {
                    ctx.violation(&format!("C11:{:?}:encrypt-memory-grows-with-input", mode), case());
                    continue;
                }
                if rd.dec.peak_live > b.dec.peak_live + slack || rd.dec.largest_block > b.dec.largest_block + slack as usize {
                    ctx.violation(&format!("C11:{:?}:decrypt-memory-grows-with-input", mode), case());
                    continue;
                }
                if rd.enc.live_at_end > b.enc.live_at_end + slack || rd.dec.live_at_end > b.dec.live_at_end + slack {
                    ctx.violation(&format!("C11:{:?}:memory-still-held-after-the-call-grows-with-input", mode), case());
                    continue;
                }
                if max_read == crate::ioscript::VARIED_READS && n >= 256 {
                    ctx.seen("stream read in thousands of distinct sizes: peaks flat, nothing retained");
                }
                // lag: each output chunk is written before more than two further chunks of input were consumed
                let limit = 2 * CHUNK as i64 + 132 + 64;
                if rd.enc_lag > limit {
                    ctx.violation(&format!("C11:{:?}:encrypt-output-lags-more-than-two-chunks", mode), case());
                    continue;
                }
                if rd.dec_lag > limit {
                    ctx.violation(&format!("C11:{:?}:decrypt-output-lags-more-than-two-chunks", mode), case());
                    continue;
                }
                // ... and in units of the stream's own records (a stream of short chunks fits many records into 2 x 64 KiB)
                if rd.dec_chunk_lag > 2 {
                    let mut v = case();
                    v["complete_further_records_consumed_before_a_chunk_was_written"] = json!(rd.dec_chunk_lag);
                    ctx.violation(&format!("C11:{:?}:decrypt-consumes-more-than-two-further-chunks-before-writing-one", mode), v);
                    continue;
                }
                ctx.seen(&format!("{:?}: {} chunks streamed, peaks flat (enc {} B, dec {} B), lag enc {} dec {}", mode, n, rd.enc.peak_live, rd.dec.peak_live, rd.enc_lag, rd.dec_lag));
                ctx.seen("streams within memory and lag bounds");
                ctx.distinct(&format!("{:?}|{}|{}", mode, n, max_read));
                ctx.sample("in-process stream", 4, || case());
            }
        }
    }
    // small scope: chunk size 1, up to 10^6 chunks (counter far beyond 2^16 cheaply)
    let mut base: Option<StreamReading> = None;
    for n in ctx.tier.pick(vec![3u64, 1000, 200_000], vec![3u64, 1000, 100_000, 1_000_000]) {
        let rd = stream(Mode::Small(1), n, usize::MAX, ctx.seed);
        ctx.eval();
        let case = || json!({"mode": "chunk loops, chunk size 1", "chunks": n, "encrypt_peak": rd.enc.peak_live, "decrypt_peak": rd.dec.peak_live, "encrypt_lag": rd.enc_lag, "decrypt_lag": rd.dec_lag, "detail": rd.detail});
        if !rd.ok {
            ctx.violation("C11:small:stream-round-trip-failed", case());
            continue;
        }
        if rd.unjudged > 0 {
            ctx.inconclusive(&format!("C11: the lag monitor lost track of {} record boundaries", rd.unjudged));
            continue;
        }
        if base.is_none() {
            base = Some(rd.clone());
        }
        let b = base.as_ref().unwrap();
        if rd.enc.peak_live > b.enc.peak_live + 256 || rd.dec.peak_live > b.dec.peak_live + 256 {
            ctx.violation("C11:small:memory-grows-with-chunk-count", case());
        } else if rd.enc_lag > 2 + 2 || rd.dec_lag > 2 * 33 + 2 || rd.dec_chunk_lag > 2 {
            ctx.violation("C11:small:output-lags-more-than-two-chunks", case());
        } else {
            ctx.seen(&format!("small scope: {} one-byte chunks streamed, peaks flat", n));
            ctx.seen("streams within memory and lag bounds");
            ctx.distinct(&format!("small|{}", n));
        }
    }
}


/// A byte source made of a fixed head (a small file built by the specification) followed by `tail` generated bytes
/// (no backing buffer), counting what was consumed.
struct HeadTailReader {
    head: Vec<u8>,
    tail: u64,
    pos: u64,
    /// 0 = zero bytes, 1 = the generator pattern, 2 = the head repeated (looks like further records)
    tail_kind: u8,
}

impl Read for HeadTailReader {
    fn read(&mut self, buf: &mut [u8]) -> std::io::Result<usize> {
        let total = self.head.len() as u64 + self.tail;
        let n = (buf.len() as u64).min(total - self.pos) as usize;
        for (i, b) in buf[..n].iter_mut().enumerate() {
            let p = self.pos + i as u64;
            *b = if p < self.head.len() as u64 {
                self.head[p as usize]
            } else {
                let q = p - self.head.len() as u64;
                match self.tail_kind {
                    0 => 0,
                    1 => GenReader::byte_at(q),
                    _ => self.head[(q % self.head.len() as u64) as usize],
                }
            };
        }
        self.pos += n as u64;
        Ok(n)
    }
}

struct CountSink(u64);
impl Write for CountSink {
    fn write(&mut self, d: &[u8]) -> std::io::Result<usize> {
        self.0 += d.len() as u64;
        Ok(d.len())
    }
    fn flush(&mut self) -> std::io::Result<()> {
        Ok(())
    }
}

/// "Input length" also means the length of what FOLLOWS a file or stands in for one: a complete authentic file
/// followed by a long tail, a file whose last record is not marked final followed by a long tail, and a stream
/// that is not a file at all. Peak memory of the decryptor must not depend on the length of that tail.
fn hostile_lengths(ctx: &Ctx) {
    let mut rng = Rng::fork(ctx.seed, "C11-tail");
    let (s, r) = (rng.arr32(), rng.arr32());
    let (s_pub, r_pub) = (refspec::pubkey_of(&s), refspec::pubkey_of(&r));
    let pt = rng.bytes(3 * 65536 + 11);
    let chunking = refspec::natural_chunking(pt.len(), 65536);
    let kf = refspec::encode_key_file(&s, &s_pub, &r_pub, &rng.arr32(), &rng.arr32(), &pt, &chunking).unwrap();
    let pf = refspec::encode_pass_file(b"tail-pw", &rng.arr32(), &pt, &chunking);
    // the same files cut before their final record: the stream goes on although no final record has been seen
    let kf_open = kf[..132 + 3 * 65568].to_vec();
    let pf_open = pf[..36 + 3 * 65568].to_vec();
    let mut bounds: std::collections::HashMap<String, allocmon::Reading> = std::collections::HashMap::new();
    let tails: Vec<u64> = ctx.tier.pick(vec![0u64, 1, 65_536, 1 << 20, 24 << 20], vec![0u64, 1, 15, 65_536, 1 << 20, 64 << 20, 512 << 20]);
    for (mode, what, head) in [
        (Mode::Key, "complete key-mode file followed by a tail", &kf),
        (Mode::Pass, "complete password file followed by a tail", &pf),
        (Mode::Key, "key-mode file without its final record followed by a tail", &kf_open),
        (Mode::Pass, "password file without its final record followed by a tail", &pf_open),
        (Mode::Key, "magic only followed by a tail", &kf[..4].to_vec()),
        (Mode::Pass, "magic only followed by a tail", &pf[..4].to_vec()),
    ] {
        for tail_kind in [0u8, 1, 2] {
            // the bound is the mode's constant: the reading for the complete authentic file with nothing after it
            // (first input of each mode, tail 0) - a rejected stream may need less, never more
            let mut base: Option<allocmon::Reading> = if what.starts_with("complete") { None } else { bounds.get(&format!("{:?}", mode)).copied() };
            for &tail in &tails {
                if tail_kind != 1 && tail > (1 << 20) && ctx.tier == Tier::Quick {
                    continue;
                }
                let head2 = head.clone();
                let (r2, r_pub2) = (r, r_pub);
                let h = std::thread::spawn(move || {
                    let mut src = HeadTailReader { head: head2, tail, pos: 0, tail_kind };
                    let mut sink = CountSink(0);
                    allocmon::begin();
                    let res: Result<(), String> = match mode {
                        Mode::Key => key_decrypt(&mut src, &mut sink, &sk(&r2), &pk(&r_pub2), AsymFileFormat::V1).map(|_| ()).map_err(|e| e.to_string()),
                        _ => pass_decrypt(&mut src, &mut sink, b"tail-pw", PassFileFormat::V1).map_err(|e| e.to_string()),
                    };
                    let m = allocmon::end();
                    (m, res, src.pos, sink.0)
                });
                let (m, res, consumed, released) = match h.join() {
                    Ok(x) => x,
                    Err(_) => {
                        ctx.violation("C11:hostile-length:decryptor-panicked", json!({"input": what, "tail_bytes": tail}));
                        continue;
                    }
                };
                ctx.eval();
                if base.is_none() {
                    base = Some(m);
                    bounds.insert(format!("{:?}", mode), m);
                }
                let case = || json!({"input": what, "tail_bytes": tail, "tail_content": (["zeros", "pattern", "the head repeated"][tail_kind as usize]), "result": format!("{:?}", res), "input_consumed": consumed, "plaintext_released": released,
                    "peak_live": m.peak_live, "largest_block": m.largest_block, "allocations": m.allocations, "bound_peak_live_(complete_file_nothing_after_it)": base.as_ref().map(|b| b.peak_live)});
                let b = base.as_ref().unwrap();
                let slack = CHUNK as isize + 4096;
                if m.peak_live > b.peak_live + slack || m.largest_block > b.largest_block + slack as usize {
                    ctx.violation(&format!("C11:{:?}:decrypt-memory-grows-with-the-length-of-what-follows-the-file", mode), case());
                    continue;
                }
                ctx.seen("hostile lengths: decryptor's peak memory independent of the tail length");
                ctx.distinct(&format!("tail|{}|{}|{}", what, tail_kind, tail));
                if tail >= (1 << 20) {
                    ctx.sample("stream with a long tail", 2, || case());
                }
            }
        }
    }
}

fn cli_rss(ctx: &Ctx) {
    let mut rng = Rng::fork(ctx.seed, "C11-cli");
    let alice = Ident::new("alice", "apw", &mut rng);
    let bob = Ident::new("bob", "bpw", &mut rng);
    let wd = WorkDir::new("c11");
    wd.write("kr.txt", crate::cli::keyring_text(&[(&alice, true), (&bob, true)]).as_bytes());
    let small: u64 = 1 << 20;
    let large: u64 = ctx.tier.pick(256u64 << 20, 1u64 << 30);
    let mut results = serde_json::Map::new();
    for (mode, enc_args, dec_args, epw, dpw) in [
        ("password, input named as /dev/stdin", vec!["password", "encrypt", "/dev/stdin", "--env-pass"], vec!["password", "decrypt", "/dev/stdin", "--env-pass"], "pw", "pw"),
        ("password", vec!["password", "encrypt", "--env-pass"], vec!["password", "decrypt", "--env-pass"], "pw", "pw"),
        ("key", vec!["encrypt", "-t", "bob", "-f", "alice", "-k", "kr.txt", "--env-pass"], vec!["decrypt", "-t", "bob", "-k", "kr.txt", "--env-pass"], "apw", "bpw"),
    ] {
        let mut rss = Vec::new();
        let mut failed = false;
        for (label, n) in [("small", small), ("large", large)] {
            // the path-named lane keeps the ciphertext in this process to feed it through a pipe: 64 MiB is plenty to show growth
            let n = if mode.contains("/dev/stdin") && label == "large" { 64u64 << 20 } else { n };
            let ct = wd.file(&format!("{}-{}.ktl", mode.replace(|c: char| !c.is_ascii_alphanumeric(), "_"), label));
            // ru_maxrss of a child spawned by this monitor is polluted by the monitor's own high-water mark
            // (the kernel records the old mm's hiwater at exec); GNU time(1) is a tiny intermediate parent
            // whose wait4 reading of the real binary is clean.
            let kbin = crate::cli::kestrel_bin().to_string_lossy().into_owned();
            let timed = |args: &Vec<&str>, rssfile: &str| -> Vec<String> {
                let mut v: Vec<String> = vec!["-f".into(), "%M".into(), "-o".into(), rssfile.to_string(), kbin.clone()];
                v.extend(args.iter().map(|a| a.to_string()));
                v
            };
            let read_rss = |p: &std::path::Path| -> i64 { std::fs::read_to_string(p).ok().and_then(|t| t.lines().last().and_then(|l| l.trim().parse().ok())).unwrap_or(-1) };
            let (erss, drss) = (wd.file("enc.rss"), wd.file("dec.rss"));
            let ea = timed(&enc_args, &erss.to_string_lossy());
            let ear: Vec<&str> = ea.iter().map(|x| x.as_str()).collect();
            let mut e = Cmd::new(&wd.path, &ear).bin("/usr/bin/time".into()).pass(epw).stdin(Stdin::Zeros(n)).stdout(Stdout::File(ct.clone()));
            e.timeout = std::time::Duration::from_secs(900);
            let mut eo = e.run();
            let da = timed(&dec_args, &drss.to_string_lossy());
            let dar: Vec<&str> = da.iter().map(|x| x.as_str()).collect();
            // decrypt reads the ciphertext through a pipe as well when the input is named by path (a FIFO-like source)
            let dec_stdin = if mode.contains("/dev/stdin") { Stdin::Bytes(std::fs::read(&ct).unwrap_or_default()) } else { Stdin::File(ct.clone()) };
            let mut d = Cmd::new(&wd.path, &dar).bin("/usr/bin/time".into()).pass(dpw).stdin(dec_stdin).stdout(Stdout::Null);
            d.timeout = std::time::Duration::from_secs(900);
            let mut dout = d.run();
            eo.maxrss_kb = read_rss(&erss);
            dout.maxrss_kb = read_rss(&drss);
            if eo.maxrss_kb <= 0 || dout.maxrss_kb <= 0 {
                ctx.inconclusive("C11 cli: could not read the max RSS reported by time(1)");
                failed = true;
                break;
            }
            let ct_len = std::fs::metadata(&ct).map(|m| m.len()).unwrap_or(0);
            let _ = std::fs::remove_file(&ct);
            ctx.eval();
            if eo.exit == Exit::Timeout || dout.exit == Exit::Timeout {
                ctx.inconclusive("C11 cli: watchdog fired on a large stream");
                failed = true;
                break;
            }
            if eo.exit != Exit::Code(0) || dout.exit != Exit::Code(0) {
                ctx.violation(&format!("C11:cli:{}:large-stream-failed", mode), json!({"bytes": n, "encrypt": eo.exit.describe(), "encrypt_stderr": eo.stderr_s(), "decrypt": dout.exit.describe(), "decrypt_stderr": dout.stderr_s()}));
                failed = true;
                break;
            }
            rss.push((label, n, eo.maxrss_kb, dout.maxrss_kb, ct_len, eo.wall.as_secs_f64(), dout.wall.as_secs_f64()));
        }
        if failed || rss.len() < 2 {
            continue;
        }
        let case = || json!({"mode": mode, "readings": rss.iter().map(|r| json!({"input": r.0, "bytes": r.1, "encrypt_maxrss_kb": r.2, "decrypt_maxrss_kb": r.3, "ciphertext_bytes": r.4, "encrypt_s": r.5, "decrypt_s": r.6})).collect::<Vec<_>>()});
        results.insert(mode.to_string(), case());
        let (s, l) = (&rss[0], &rss[1]);
        if l.2 > s.2 + 4096 {
            ctx.violation(&format!("C11:cli:{}:encrypt-rss-grows-with-input", mode), case());
        } else if l.3 > s.3 + 4096 {
            ctx.violation(&format!("C11:cli:{}:decrypt-rss-grows-with-input", mode), case());
        } else {
            ctx.seen(&format!("cli {}: max RSS flat between 1 MiB and {} MiB", mode, large >> 20));
            ctx.distinct(&format!("cli|{}|enc", mode));
            ctx.distinct(&format!("cli|{}|dec", mode));
        }
    }
    ctx.note("cli_max_rss", serde_json::Value::Object(results));
    // incremental output through pipes: informational; a timeout here is never a verdict
    let _ = hex(&[]);
}

/// Incremental output of the real binary, observed without timing: the tool reads a large REGULAR FILE
/// and writes to a stdout pipe that nobody reads. Once it is blocked on that pipe (state 'S', input offset
/// unchanged across two looks), the offset of its input descriptor (/proc/PID/fdinfo) says how much input it
/// had consumed while at most one pipe-full (64 KiB) of output existed.
fn cli_stalled_stdout(ctx: &Ctx) {
    use std::process::{Command, Stdio};
    let mut rng = Rng::fork(ctx.seed, "C11-stall");
    let alice = Ident::new("alice", "apw", &mut rng);
    let bob = Ident::new("bob", "bpw", &mut rng);
    let wd = WorkDir::new("c11s");
    wd.write("kr.txt", crate::cli::keyring_text(&[(&alice, true), (&bob, true)]).as_bytes());
    let n: usize = ctx.tier.pick(64 << 20, 256 << 20);
    let pt: Vec<u8> = (0..n).map(|i| GenReader::byte_at(i as u64)).collect();
    let chunking = refspec::natural_chunking(n, 65536);
    wd.write("big.bin", &pt);
    wd.write("big-k.ktl", &refspec::encode_key_file(&alice.sk, &alice.pk, &bob.pk, &rng.arr32(), &rng.arr32(), &pt, &chunking).unwrap());
    wd.write("big-p.ktl", &refspec::encode_pass_file(b"ppw", &rng.arr32(), &pt, &chunking));
    let rec = 65536u64 + 32;
    // (what, argv, password, input file, bound on input consumed while blocked on the first pipe-full of output)
    let cases: Vec<(&str, Vec<&str>, &str, &str, u64)> = vec![
        ("key decrypt, FILE -> stdout", vec!["decrypt", "big-k.ktl", "-t", "bob", "-k", "kr.txt", "--env-pass"], "bpw", "big-k.ktl", 132 + 4 * rec + 8192),
        ("password decrypt, FILE -> stdout", vec!["password", "decrypt", "big-p.ktl", "--env-pass"], "ppw", "big-p.ktl", 36 + 4 * rec + 8192),
        ("key encrypt, FILE -> stdout", vec!["encrypt", "big.bin", "-t", "bob", "-f", "alice", "-k", "kr.txt", "--env-pass"], "apw", "big.bin", 3 * 65536 + 8192),
        ("password encrypt, FILE -> stdout", vec!["password", "encrypt", "big.bin", "--env-pass"], "ppw", "big.bin", 3 * 65536 + 8192),
    ];
    for (what, args, pw, input, bound) in cases {
        let mut c = Command::new("/usr/bin/setsid");
        c.arg("-w").arg(crate::cli::kestrel_bin()).args(&args).env_clear().env("KESTREL_PASSWORD", pw).current_dir(&wd.path).stdin(Stdio::null()).stdout(Stdio::piped()).stderr(Stdio::piped());
        let mut child = match c.spawn() {
            Ok(ch) => ch,
            Err(e) => {
                ctx.inconclusive(&format!("C11 stall lane: spawn failed: {}", e));
                continue;
            }
        };
        let want = std::fs::canonicalize(wd.file(input)).unwrap_or_else(|_| wd.file(input));
        let pid = child.id();
        // the process that holds the input open: the child itself or (if the launcher forked) one of its children
        let find = |pid: u32| -> Option<(u32, String)> {
            let mut pids = vec![pid];
            if let Ok(t) = std::fs::read_to_string(format!("/proc/{}/task/{}/children", pid, pid)) {
                pids.extend(t.split_whitespace().filter_map(|x| x.parse::<u32>().ok()));
            }
            for p in pids {
                if let Ok(rd) = std::fs::read_dir(format!("/proc/{}/fd", p)) {
                    for e in rd.flatten() {
                        if std::fs::read_link(e.path()).map(|l| l == want).unwrap_or(false) {
                            return Some((p, e.file_name().to_string_lossy().into_owned()));
                        }
                    }
                }
            }
            None
        };
        let pos_of = |p: u32, fd: &str| -> Option<u64> { std::fs::read_to_string(format!("/proc/{}/fdinfo/{}", p, fd)).ok()?.lines().find_map(|l| l.strip_prefix("pos:").and_then(|v| v.trim().parse().ok())) };
        let state_of = |p: u32| -> Option<char> { std::fs::read_to_string(format!("/proc/{}/stat", p)).ok().and_then(|t| t.rsplit(") ").next().and_then(|r| r.chars().next())) };
        let t0 = std::time::Instant::now();
        let mut reading: Option<u64> = None;
        let mut last: Option<(u64, std::time::Instant)> = None;
        let mut max_pos = 0u64;
        let mut looks = 0u64;
        let mut holder: Option<(u32, String)> = None;
        while t0.elapsed() < std::time::Duration::from_secs(20) {
            std::thread::sleep(std::time::Duration::from_micros(500));
            if holder.is_none() {
                holder = find(pid);
            }
            if let Some((p, fd)) = &holder {
                match pos_of(*p, fd) {
                    Some(pos) => {
                        looks += 1;
                        // the largest offset ever seen counts (a tool may run ahead and seek back)
                        max_pos = max_pos.max(pos);
                        // blocked = sleeping, has consumed something, offset unchanged for 300 ms
                        match last {
                            Some((lp, since)) if lp == pos => {
                                if pos > 0 && since.elapsed() > std::time::Duration::from_millis(300) && state_of(*p) == Some('S') {
                                    reading = Some(max_pos);
                                    break;
                                }
                            }
                            _ => last = Some((pos, std::time::Instant::now())),
                        }
                    }
                    None => holder = None,
                }
            }
            if holder.is_none() && child.try_wait().map(|s| s.is_some()).unwrap_or(true) {
                break;
            }
        }
        let _ = looks;
        // release the child: drain its output, then collect it
        let mut out = child.stdout.take().unwrap();
        let mut err = child.stderr.take().unwrap();
        let et = std::thread::spawn(move || {
            let mut v = Vec::new();
            let _ = err.read_to_end(&mut v);
            v
        });
        let mut total = 0u64;
        let mut buf = vec![0u8; 1 << 20];
        while let Ok(k) = out.read(&mut buf) {
            if k == 0 {
                break;
            }
            total += k as u64;
        }
        let status = child.wait();
        let ok_exit = status.as_ref().map(|s| s.success()).unwrap_or(false);
        let stderr = String::from_utf8_lossy(&et.join().unwrap_or_default()).into_owned();
        ctx.eval();
        let case = || json!({"case": what, "argv": args, "input_bytes": std::fs::metadata(&want).map(|m| m.len()).unwrap_or(0), "largest_input_offset_seen_up_to_the_moment_it_blocked_on_the_first_pipe_full_of_output": reading, "offset_samples_taken": looks, "bound": bound, "output_bytes_after_release": total, "exit": format!("{:?}", status), "stderr": stderr});
        match reading {
            None => ctx.inconclusive(&format!("C11 stall lane ({}): the child was never seen blocked on its output with the input open", what)),
            Some(pos) if pos > bound => ctx.violation(&format!("C11:cli:{}:input-consumed-far-ahead-of-the-output", what.split(',').next().unwrap_or("").replace(' ', "-")), case()),
            Some(pos) => {
                if !ok_exit {
                    ctx.violation(&format!("C11:cli:{}:large-stream-failed", what), case());
                } else {
                    ctx.seen(&format!("cli {}: blocked on a full stdout pipe after consuming {} bytes of a {} MiB file", what, pos, n >> 20));
                    ctx.seen("cli: input offset while stdout is stalled stays within two chunks of the output");
                    ctx.distinct(&format!("stall|{}", what));
                    ctx.sample("stalled stdout", 2, || case());
                }
            }
        }
    }
}


/// Incremental output of the real binary when the INPUT trickles in: pieces of a few hundred bytes are written to the
/// tool's stdin one at a time; after each piece the monitor waits until the tool has taken it and is blocked in
/// read(0) again (pipe empty, process asleep in the read system call - a state, not a deadline) and then counts what
/// has come out of its stdout so far. When pieces 0..k have been consumed, everything belonging to chunks 0..k-3
/// must already have been written ("before more than two further chunks of input have been consumed").
fn cli_trickled_input(ctx: &Ctx) {
    use std::io::Write as _;
    use std::os::unix::io::AsRawFd;
    use std::process::{Command, Stdio};
    let mut rng = Rng::fork(ctx.seed, "C11-trickle");
    let alice = Ident::new("alice", "apw", &mut rng);
    let bob = Ident::new("bob", "bpw", &mut rng);
    let wd = WorkDir::new("c11t");
    wd.write("kr.txt", crate::cli::keyring_text(&[(&alice, true), (&bob, true)]).as_bytes());
    let piece = ctx.tier.pick(700usize, 333);
    let npieces = ctx.tier.pick(10usize, 40);
    let pt = rng.bytes(piece * npieces);
    let chunking = vec![piece; npieces];
    let kf = refspec::encode_key_file(&alice.sk, &alice.pk, &bob.pk, &rng.arr32(), &rng.arr32(), &pt, &chunking).unwrap();
    let pf = refspec::encode_pass_file(b"ppw", &rng.arr32(), &pt, &chunking);
    let rec = piece + 32;
    let split = |bytes: &Vec<u8>, first: usize, each: usize| -> Vec<Vec<u8>> {
        let mut v = vec![bytes[..first].to_vec()];
        let mut off = first;
        while off < bytes.len() {
            let e = (off + each).min(bytes.len());
            v.push(bytes[off..e].to_vec());
            off = e;
        }
        v
    };
    // (what, argv, password, pieces fed, bytes that must be out once chunks 0..=j are due: base + (j+1)*per)
    let cases: Vec<(&str, Vec<&str>, &str, Vec<Vec<u8>>, usize, usize)> = vec![
        ("key encrypt", vec!["encrypt", "-t", "bob", "-f", "alice", "-k", "kr.txt", "--env-pass"], "apw", split(&pt, piece, piece), 132, rec),
        ("password encrypt", vec!["password", "encrypt", "--env-pass"], "ppw", split(&pt, piece, piece), 36, rec),
        ("key decrypt", vec!["decrypt", "-t", "bob", "-k", "kr.txt", "--env-pass"], "bpw", split(&kf, 132 + rec, rec), 0, piece),
        ("password decrypt", vec!["password", "decrypt", "--env-pass"], "ppw", split(&pf, 36 + rec, rec), 0, piece),
    ];
    let fionread = |fd: i32| -> i64 {
        let mut n: libc::c_int = 0;
        if unsafe { libc::ioctl(fd, libc::FIONREAD, &mut n) } == 0 {
            n as i64
        } else {
            -1
        }
    };
    for (what, args, pw, pieces, base, per) in cases {
        let mut c = Command::new("/usr/bin/setsid");
        c.arg("-w").arg(crate::cli::kestrel_bin()).args(&args).env_clear().env("KESTREL_PASSWORD", pw).current_dir(&wd.path).stdin(Stdio::piped()).stdout(Stdio::piped()).stderr(Stdio::piped());
        let mut child = match c.spawn() {
            Ok(ch) => ch,
            Err(e) => {
                ctx.inconclusive(&format!("C11 trickle lane: spawn failed: {}", e));
                continue;
            }
        };
        let pid = child.id();
        let mut stdin = child.stdin.take().unwrap();
        let mut out = child.stdout.take().unwrap();
        let mut err = child.stderr.take().unwrap();
        let out_fd = out.as_raw_fd();
        let produced = Arc::new(AtomicU64::new(0));
        let produced2 = produced.clone();
        let ot = std::thread::spawn(move || {
            let mut buf = vec![0u8; 1 << 16];
            while let Ok(k) = out.read(&mut buf) {
                if k == 0 {
                    break;
                }
                produced2.fetch_add(k as u64, Ordering::SeqCst);
            }
        });
        let et = std::thread::spawn(move || {
            let mut v = Vec::new();
            let _ = err.read_to_end(&mut v);
            v
        });
        // the kestrel process itself (the launcher may have forked)
        let tool_pid = || -> Option<u32> {
            let mut pids = vec![pid];
            if let Ok(t) = std::fs::read_to_string(format!("/proc/{}/task/{}/children", pid, pid)) {
                pids.extend(t.split_whitespace().filter_map(|x| x.parse::<u32>().ok()));
            }
            pids.into_iter().find(|p| std::fs::read_link(format!("/proc/{}/exe", p)).map(|l| l.file_name().map(|n| n == "kestrel").unwrap_or(false)).unwrap_or(false))
        };
        let blocked_in_read0 = |p: u32| -> bool {
            // "0 0x0 ..." = system call 0 (read) on descriptor 0, process not running
            std::fs::read_to_string(format!("/proc/{}/syscall", p)).map(|t| t.starts_with("0 0x0 ")).unwrap_or(false)
        };
        let in_fd = stdin.as_raw_fd();
        let mut verdict: Option<(usize, u64, u64)> = None; // (pieces consumed, bytes out, bytes required)
        let mut observations: Vec<(usize, u64, u64)> = Vec::new();
        let mut lost = false;
        for (k, pc) in pieces.iter().enumerate() {
            if stdin.write_all(pc).is_err() || stdin.flush().is_err() {
                lost = true;
                break;
            }
            // wait for the state "piece taken, tool asleep in read(0), its output drained by us"
            let t0 = std::time::Instant::now();
            let mut settled = false;
            while t0.elapsed() < std::time::Duration::from_secs(15) {
                std::thread::sleep(std::time::Duration::from_millis(2));
                if fionread(in_fd) != 0 {
                    continue;
                }
                match tool_pid() {
                    Some(p) if blocked_in_read0(p) => {
                        if fionread(out_fd) == 0 {
                            // look twice: the state must be stable
                            std::thread::sleep(std::time::Duration::from_millis(5));
                            if fionread(in_fd) == 0 && blocked_in_read0(p) && fionread(out_fd) == 0 {
                                settled = true;
                                break;
                            }
                        }
                    }
                    _ => {}
                }
                if child.try_wait().map(|s| s.is_some()).unwrap_or(true) {
                    break;
                }
            }
            if !settled {
                lost = true;
                break;
            }
            let have = produced.load(Ordering::SeqCst);
            let required = if k >= 3 { (base + (k - 2) * per) as u64 } else { 0 };
            observations.push((k + 1, have, required));
            if have < required && verdict.is_none() {
                verdict = Some((k + 1, have, required));
            }
        }
        drop(stdin);
        let status = child.wait();
        let _ = ot.join();
        let stderr = String::from_utf8_lossy(&et.join().unwrap_or_default()).into_owned();
        ctx.eval();
        let case = || json!({"case": what, "argv": args, "piece_bytes": piece, "pieces": pieces.len(), "observations_(pieces_consumed, bytes_out, bytes_required)": observations, "exit": format!("{:?}", status), "stderr": stderr});
        if let Some((k, have, need)) = verdict {
            let mut v = case();
            v["first_shortfall"] = json!({"pieces_consumed": k, "bytes_out": have, "bytes_required": need});
            ctx.violation(&format!("C11:cli:{}:output-withheld-while-input-trickles-in", what.replace(' ', "-")), v);
        } else if lost || observations.len() < 5 {
            ctx.inconclusive(&format!("C11 trickle lane ({}): the tool was not seen settled in read(0) after every piece ({} observations)", what, observations.len()));
        } else {
            ctx.seen(&format!("cli {}: output kept within two chunks of a trickling input at each of {} settled states", what, observations.len()));
            ctx.seen("cli: output follows a trickling input within two chunks");
            ctx.distinct(&format!("trickle|{}", what));
            ctx.sample("trickled input", 1, || case());
        }
    }
}

pub fn run(ctx: &Ctx) {
    ctx.rule(
        "each execution streams n chunks from a generator (no backing buffer) through the real encryptor in one thread into a fixed ring buffer and through the real decryptor in \
         another; per-thread allocator counters give peak live bytes and largest block of each side; readings for n in {16, 256, 2048/4096, 65600} must stay within one chunk of the reading \
         for n = 3; the lag monitor records, at the first write of output chunk i, how far the input had been consumed (must be <= 2 chunks + header beyond chunk i); same at chunk size 1 \
         up to 10^6 chunks; the real binary's ru_maxrss (wait4) for 1 MiB vs 256 MiB / 1 GiB inputs must be flat; decrypting a complete file, a file lacking its final record, or a bare magic, each followed by a generated tail of 0 B .. 24 MiB (thorough 512 MiB) of zeros / pattern / repeated records, must peak at the same memory whatever the tail length. distinct_nontrivial counts distinct (mode, size, read cap) streams and CLI lanes",
    );
    ctx.assume("sizes above ~4 GiB are not driven");
    ctx.assume("harness allocations on the measured threads are constant-size (ring buffer pre-allocated, generator and sinks allocation-free)");
    in_process(ctx);
    hostile_lengths(ctx);
    cli_rss(ctx);
    cli_stalled_stdout(ctx);
    cli_trickled_input(ctx);
    ctx.require("cli: input offset while stdout is stalled stays within two chunks of the output", 3);
    ctx.require("streams within memory and lag bounds", 8);
    ctx.require("cli: output follows a trickling input within two chunks", 3);
    ctx.require("hostile lengths: decryptor's peak memory independent of the tail length", 40);
    ctx.require("stream read in thousands of distinct sizes", 2);
    ctx.require("cli ", 3);
    let _ = Tier::Quick;
}
