//! Executable specification, written from docs/file-format.txt, the Noise specification
//! (rev 34, pattern X) and RFC 8439 / 7748 / 5869 / 7914 on top of OpenSSL primitives.
//! It does not call into kestrel-crypto.

use crate::ossl;
use crate::util::{b64, unb64, unhex, unhex32};
use crate::x25519_ref::{base_point, x25519_raw};

pub const KEY_MAGIC: [u8; 4] = [0x65, 0x67, 0x6b, 0x10];
pub const PASS_MAGIC: [u8; 4] = [0x65, 0x67, 0x6b, 0x20];
pub const SK_MAGIC: [u8; 4] = [0x65, 0x67, 0x6b, 0x30];
pub const CHUNK: usize = 65536;
pub const PROTOCOL: &[u8] = b"Noise_X_25519_ChaChaPoly_SHA256";

pub fn noise_nonce(n: u64) -> [u8; 12] {
    let mut out = [0u8; 12];
    out[4..].copy_from_slice(&n.to_le_bytes());
    out
}

pub fn pubkey_of(sk: &[u8; 32]) -> [u8; 32] {
    x25519_raw(sk, &base_point())
}

// ---------------------------------------------------------------------------------------
// Noise symmetric state

#[derive(Clone)]
pub struct Sym {
    pub ck: [u8; 32],
    pub h: [u8; 32],
    pub k: Option<[u8; 32]>,
    pub n: u64,
}

impl Sym {
    pub fn new(protocol: &[u8]) -> Sym {
        let mut h = [0u8; 32];
        if protocol.len() <= 32 {
            h[..protocol.len()].copy_from_slice(protocol);
        } else {
            h = ossl::sha256(protocol);
        }
        Sym { ck: h, h, k: None, n: 0 }
    }
    pub fn mix_hash(&mut self, data: &[u8]) {
        let mut v = self.h.to_vec();
        v.extend_from_slice(data);
        self.h = ossl::sha256(&v);
    }
    pub fn mix_key(&mut self, ikm: &[u8]) {
        // HKDF(ck, ikm, 2) of the Noise spec == RFC 5869 with salt=ck, info="" and 64 output bytes
        let okm = ossl::hkdf_sha256(&self.ck, ikm, &[], 64);
        self.ck.copy_from_slice(&okm[..32]);
        let mut k = [0u8; 32];
        k.copy_from_slice(&okm[32..]);
        self.k = Some(k);
        self.n = 0;
    }
    pub fn encrypt_and_hash(&mut self, pt: &[u8]) -> Vec<u8> {
        let ct = match self.k {
            Some(k) => {
                let c = ossl::aead_seal(&k, &noise_nonce(self.n), &self.h, pt);
                self.n += 1;
                c
            }
            None => pt.to_vec(),
        };
        self.mix_hash(&ct);
        ct
    }
    pub fn decrypt_and_hash(&mut self, ct: &[u8]) -> Option<Vec<u8>> {
        let pt = match self.k {
            Some(k) => {
                let p = ossl::aead_open(&k, &noise_nonce(self.n), &self.h, ct)?;
                self.n += 1;
                p
            }
            None => ct.to_vec(),
        };
        self.mix_hash(ct);
        Some(pt)
    }
}

/// Where a DH value mixed into the chaining key comes from (honest, or a forger's choice).
#[derive(Clone, Debug)]
pub enum Dh {
    /// raw X25519(private, public); an all-zero result is mixed as is
    Compute([u8; 32], [u8; 32]),
    Value([u8; 32]),
    /// input keying material of any length (empty, short, long): what a decryptor that substitutes "something"
    /// for a refused Diffie-Hellman might feed to MixKey
    Bytes(Vec<u8>),
    Omit,
}

impl Dh {
    fn get(&self) -> Option<Vec<u8>> {
        match self {
            Dh::Compute(k, u) => Some(x25519_raw(k, u).to_vec()),
            Dh::Value(v) => Some(v.to_vec()),
            Dh::Bytes(b) => Some(b.clone()),
            Dh::Omit => None,
        }
    }
}

/// A fully general Noise-X initiator message builder. The honest writer is one instance of it.
pub struct WriteSpec {
    pub prologue: Vec<u8>,
    /// the key mixed into h as "recipient static key"
    pub rs_mixed: [u8; 32],
    /// bytes sent (and hashed) as the ephemeral public key
    pub e_pub: [u8; 32],
    pub es: Dh,
    /// bytes encrypted as the sender static public key
    pub s_claimed: [u8; 32],
    pub ss: Dh,
    pub payload: Vec<u8>,
}

pub struct Written {
    pub message: Vec<u8>,
    pub h: [u8; 32],
}

pub fn noise_x_write_general(w: &WriteSpec) -> Written {
    let mut st = Sym::new(PROTOCOL);
    st.mix_hash(&w.prologue);
    st.mix_hash(&w.rs_mixed);
    let mut msg = Vec::new();
    // e
    msg.extend_from_slice(&w.e_pub);
    st.mix_hash(&w.e_pub);
    // es
    if let Some(v) = w.es.get() {
        st.mix_key(&v);
    }
    // s
    let enc_s = st.encrypt_and_hash(&w.s_claimed);
    msg.extend_from_slice(&enc_s);
    // ss
    if let Some(v) = w.ss.get() {
        st.mix_key(&v);
    }
    let enc_p = st.encrypt_and_hash(&w.payload);
    msg.extend_from_slice(&enc_p);
    Written { message: msg, h: st.h }
}

/// Honest Noise_X_25519_ChaChaPoly_SHA256 initiator message. None if a DH output is all zero.
pub fn noise_x_write(
    prologue: &[u8],
    s_priv: &[u8; 32],
    s_pub: &[u8; 32],
    rs: &[u8; 32],
    e_priv: &[u8; 32],
    payload: &[u8],
) -> Option<Written> {
    let es = x25519_raw(e_priv, rs);
    let ss = x25519_raw(s_priv, rs);
    if es == [0u8; 32] || ss == [0u8; 32] {
        return None;
    }
    Some(noise_x_write_general(&WriteSpec {
        prologue: prologue.to_vec(),
        rs_mixed: *rs,
        e_pub: pubkey_of(e_priv),
        es: Dh::Value(es),
        s_claimed: *s_pub,
        ss: Dh::Value(ss),
        payload: payload.to_vec(),
    }))
}

#[derive(Debug, Clone)]
pub struct NoiseRead {
    pub payload: Vec<u8>,
    pub sender: [u8; 32],
    pub h: [u8; 32],
}

/// Responder side of Noise X. Err(reason) if the message must be rejected.
pub fn noise_x_read(prologue: &[u8], r_priv: &[u8; 32], r_pub: &[u8; 32], msg: &[u8]) -> Result<NoiseRead, &'static str> {
    if msg.len() < 32 + 48 + 16 {
        return Err("short");
    }
    let mut st = Sym::new(PROTOCOL);
    st.mix_hash(prologue);
    st.mix_hash(r_pub);
    let re: [u8; 32] = msg[..32].try_into().unwrap();
    st.mix_hash(&re);
    let es = x25519_raw(r_priv, &re);
    if es == [0u8; 32] {
        return Err("es all zero");
    }
    st.mix_key(&es);
    let rs = st.decrypt_and_hash(&msg[32..80]).ok_or("enc(s) does not authenticate")?;
    let rs: [u8; 32] = rs.try_into().unwrap();
    let ss = x25519_raw(r_priv, &rs);
    if ss == [0u8; 32] {
        return Err("ss all zero");
    }
    st.mix_key(&ss);
    let payload = st.decrypt_and_hash(&msg[80..]).ok_or("enc(payload) does not authenticate")?;
    Ok(NoiseRead { payload, sender: rs, h: st.h })
}

// ---------------------------------------------------------------------------------------
// Chunked body

#[derive(Debug, Clone)]
pub struct Chunk {
    /// offsets of the record inside the *whole* presented byte string
    pub start: usize,
    pub end: usize,
    pub counter_field: u64,
    pub last: u32,
    pub len: u32,
    pub plaintext: Vec<u8>,
}

#[derive(Debug, Clone, PartialEq)]
pub enum BodyEnd {
    /// a verified chunk with last == 1 followed immediately by end of input
    Complete,
    /// fewer than 16 header bytes remained (includes: clean EOF where a chunk was expected)
    TruncatedHeader,
    LenTooLarge,
    TruncatedRecord,
    AuthFail,
    /// a verified final chunk followed by more bytes
    TrailingData,
}

#[derive(Debug, Clone)]
pub struct Body {
    /// chunks that verified, in order, up to the first problem (a final chunk followed by
    /// trailing data is included: it did verify)
    pub chunks: Vec<Chunk>,
    pub end: BodyEnd,
}

impl Body {
    pub fn plaintext(&self) -> Vec<u8> {
        let mut v = Vec::new();
        for c in &self.chunks {
            v.extend_from_slice(&c.plaintext);
        }
        v
    }
    pub fn complete(&self) -> bool {
        self.end == BodyEnd::Complete
    }
}

/// Decode the chunk records in `data[body_off..]` under `key`; AAD = aad_prefix || last || len,
/// nonce = position index of the chunk (the counter field in the file is advisory).
pub fn decode_body(data: &[u8], body_off: usize, key: &[u8; 32], aad_prefix: &[u8], chunk_size: usize) -> Body {
    let mut chunks = Vec::new();
    let mut pos = body_off;
    let mut idx: u64 = 0;
    loop {
        if data.len() < pos + 16 {
            return Body { chunks, end: BodyEnd::TruncatedHeader };
        }
        let hdr = &data[pos..pos + 16];
        let counter_field = u64::from_be_bytes(hdr[..8].try_into().unwrap());
        let last = u32::from_be_bytes(hdr[8..12].try_into().unwrap());
        let len = u32::from_be_bytes(hdr[12..16].try_into().unwrap());
        if len as usize > chunk_size {
            return Body { chunks, end: BodyEnd::LenTooLarge };
        }
        let rec_end = pos + 16 + len as usize + 16;
        if data.len() < rec_end {
            return Body { chunks, end: BodyEnd::TruncatedRecord };
        }
        let mut aad = aad_prefix.to_vec();
        aad.extend_from_slice(&hdr[8..16]);
        let pt = match ossl::aead_open(key, &noise_nonce(idx), &aad, &data[pos + 16..rec_end]) {
            Some(p) => p,
            None => return Body { chunks, end: BodyEnd::AuthFail },
        };
        chunks.push(Chunk { start: pos, end: rec_end, counter_field, last, len, plaintext: pt });
        pos = rec_end;
        if last == 1 {
            let end = if pos == data.len() { BodyEnd::Complete } else { BodyEnd::TrailingData };
            return Body { chunks, end };
        }
        idx += 1;
    }
}

/// Encode `pt` as chunk records with the given chunk sizes (must sum to |pt|; the last one
/// is flagged final). An empty plaintext is the chunking [0].
pub fn encode_body(pt: &[u8], chunking: &[usize], key: &[u8; 32], aad_prefix: &[u8]) -> Vec<u8> {
    assert_eq!(chunking.iter().sum::<usize>(), pt.len());
    assert!(!chunking.is_empty());
    let mut out = Vec::with_capacity(pt.len() + 32 * chunking.len());
    let mut off = 0;
    for (i, &sz) in chunking.iter().enumerate() {
        let last: u32 = if i + 1 == chunking.len() { 1 } else { 0 };
        out.extend_from_slice(&(i as u64).to_be_bytes());
        out.extend_from_slice(&last.to_be_bytes());
        out.extend_from_slice(&(sz as u32).to_be_bytes());
        let mut aad = aad_prefix.to_vec();
        aad.extend_from_slice(&last.to_be_bytes());
        aad.extend_from_slice(&(sz as u32).to_be_bytes());
        out.extend_from_slice(&ossl::aead_seal(key, &noise_nonce(i as u64), &aad, &pt[off..off + sz]));
        off += sz;
    }
    out
}

/// One record sealed with an arbitrary index / flag (used by the edit operators).
pub fn seal_record(key: &[u8; 32], aad_prefix: &[u8], index: u64, last: u32, pt: &[u8]) -> Vec<u8> {
    let mut out = Vec::new();
    out.extend_from_slice(&index.to_be_bytes());
    out.extend_from_slice(&last.to_be_bytes());
    out.extend_from_slice(&(pt.len() as u32).to_be_bytes());
    let mut aad = aad_prefix.to_vec();
    aad.extend_from_slice(&last.to_be_bytes());
    aad.extend_from_slice(&(pt.len() as u32).to_be_bytes());
    out.extend_from_slice(&ossl::aead_seal(key, &noise_nonce(index), &aad, pt));
    out
}

/// The chunking an encryptor that fills every chunk produces.
pub fn natural_chunking(len: usize, chunk: usize) -> Vec<usize> {
    if len == 0 {
        return vec![0];
    }
    let mut v = vec![chunk; len / chunk];
    if len % chunk != 0 {
        v.push(len % chunk);
    }
    v
}

// ---------------------------------------------------------------------------------------
// Key-mode files

pub fn file_key(payload_key: &[u8], h: &[u8; 32]) -> [u8; 32] {
    ossl::hkdf_sha256(&[], payload_key, h, 32).try_into().unwrap()
}

/// A key-mode file per the documented format. None if a DH result is all zero.
pub fn encode_key_file(
    s_priv: &[u8; 32],
    s_pub: &[u8; 32],
    r_pub: &[u8; 32],
    e_priv: &[u8; 32],
    payload_key: &[u8; 32],
    pt: &[u8],
    chunking: &[usize],
) -> Option<Vec<u8>> {
    let w = noise_x_write(&KEY_MAGIC, s_priv, s_pub, r_pub, e_priv, payload_key)?;
    let fk = file_key(payload_key, &w.h);
    let mut out = KEY_MAGIC.to_vec();
    out.extend_from_slice(&w.message);
    out.extend_from_slice(&encode_body(pt, chunking, &fk, &[]));
    Some(out)
}

#[derive(Debug, Clone)]
pub struct KeyFile {
    pub sender: [u8; 32],
    pub payload_key: [u8; 32],
    pub file_key: [u8; 32],
    pub h: [u8; 32],
    pub body: Body,
}

pub fn decode_key_file(data: &[u8], r_priv: &[u8; 32], r_pub: &[u8; 32]) -> Result<KeyFile, &'static str> {
    if data.len() < 4 {
        return Err("short magic");
    }
    if data[..4] != KEY_MAGIC {
        return Err("wrong magic");
    }
    if data.len() < 132 {
        return Err("short handshake");
    }
    let nr = noise_x_read(&KEY_MAGIC, r_priv, r_pub, &data[4..132])?;
    if nr.payload.len() != 32 {
        return Err("payload length");
    }
    let payload_key: [u8; 32] = nr.payload.clone().try_into().unwrap();
    let fk = file_key(&payload_key, &nr.h);
    let body = decode_body(data, 132, &fk, &[], CHUNK);
    Ok(KeyFile { sender: nr.sender, payload_key, file_key: fk, h: nr.h, body })
}

// ---------------------------------------------------------------------------------------
// Password-mode files

pub fn pass_key(password: &[u8], salt: &[u8]) -> [u8; 32] {
    ossl::scrypt(password, salt, 32768, 8, 1, 32).expect("openssl scrypt").try_into().unwrap()
}

pub fn encode_pass_file_with_key(key: &[u8; 32], salt: &[u8; 32], pt: &[u8], chunking: &[usize]) -> Vec<u8> {
    let mut out = PASS_MAGIC.to_vec();
    out.extend_from_slice(salt);
    out.extend_from_slice(&encode_body(pt, chunking, key, &PASS_MAGIC));
    out
}

pub fn encode_pass_file(password: &[u8], salt: &[u8; 32], pt: &[u8], chunking: &[usize]) -> Vec<u8> {
    encode_pass_file_with_key(&pass_key(password, salt), salt, pt, chunking)
}

#[derive(Debug, Clone)]
pub struct PassFile {
    pub salt: [u8; 32],
    pub key: [u8; 32],
    pub body: Body,
}

pub fn decode_pass_file_with_key(data: &[u8], key_of_salt: &dyn Fn(&[u8; 32]) -> [u8; 32]) -> Result<PassFile, &'static str> {
    if data.len() < 4 {
        return Err("short magic");
    }
    if data[..4] != PASS_MAGIC {
        return Err("wrong magic");
    }
    if data.len() < 36 {
        return Err("short salt");
    }
    let salt: [u8; 32] = data[4..36].try_into().unwrap();
    let key = key_of_salt(&salt);
    let body = decode_body(data, 36, &key, &PASS_MAGIC, CHUNK);
    Ok(PassFile { salt, key, body })
}

pub fn decode_pass_file(data: &[u8], password: &[u8]) -> Result<PassFile, &'static str> {
    decode_pass_file_with_key(data, &|salt| pass_key(password, salt))
}

/// scrypt only sees the password as an HMAC-SHA256 key: two passwords with the same
/// normalised HMAC key derive the same scrypt output (RFC 2104: keys are zero-padded to the
/// 64-byte block, longer keys are hashed first).
pub fn hmac_norm(pw: &[u8]) -> [u8; 64] {
    let mut out = [0u8; 64];
    if pw.len() <= 64 {
        out[..pw.len()].copy_from_slice(pw);
    } else {
        out[..32].copy_from_slice(&ossl::sha256(pw));
    }
    out
}

// ---------------------------------------------------------------------------------------
// Locked private keys and encoded public keys

pub fn lock_sk(sk: &[u8; 32], password: &[u8], salt: &[u8; 32]) -> String {
    let key = pass_key(password, salt);
    let mut blob = SK_MAGIC.to_vec();
    blob.extend_from_slice(salt);
    blob.extend_from_slice(&ossl::aead_seal(&key, &[0u8; 12], &SK_MAGIC, sk));
    b64(&blob)
}


/// A conforming locked key (with its private key) whose 84-byte blob ENDS in `zeros` zero bytes: found by trying
/// private keys under one derived key (one scrypt call), since the last blob bytes are the AEAD tag.
pub fn lock_sk_with_zero_tail(password: &[u8], salt: &[u8; 32], zeros: usize, mut next: impl FnMut() -> [u8; 32]) -> Option<(String, [u8; 32])> {
    let key = pass_key(password, salt);
    for _ in 0..40_000_000u32 {
        let sk = next();
        let ct = ossl::aead_seal(&key, &[0u8; 12], &SK_MAGIC, &sk);
        if ct[ct.len() - zeros..].iter().all(|b| *b == 0) {
            let mut blob = SK_MAGIC.to_vec();
            blob.extend_from_slice(salt);
            blob.extend_from_slice(&ct);
            return Some((b64(&blob), sk));
        }
    }
    None
}

pub fn unlock_blob(blob: &[u8], password: &[u8]) -> Result<[u8; 32], &'static str> {
    if blob.len() != 84 {
        return Err("length");
    }
    if blob[..4] != SK_MAGIC {
        return Err("version");
    }
    let key = pass_key(password, &blob[4..36]);
    let pt = ossl::aead_open(&key, &[0u8; 12], &SK_MAGIC, &blob[36..]).ok_or("auth")?;
    Ok(pt.try_into().unwrap())
}

pub fn unlock_sk(s: &str, password: &[u8]) -> Result<[u8; 32], &'static str> {
    let blob = unb64(s).ok_or("base64")?;
    unlock_blob(&blob, password)
}

pub fn encode_pk(pk: &[u8; 32]) -> String {
    let mut blob = pk.to_vec();
    blob.extend_from_slice(&ossl::sha256(pk)[..4]);
    b64(&blob)
}

pub fn decode_pk(s: &str) -> Option<[u8; 32]> {
    let blob = unb64(s)?;
    if blob.len() != 36 {
        return None;
    }
    if blob[32..] != ossl::sha256(&blob[..32])[..4] {
        return None;
    }
    Some(blob[..32].try_into().unwrap())
}

// ---------------------------------------------------------------------------------------
// Self-test of the oracle. A failure here makes the whole run inconclusive.

pub fn selftest() -> Result<(), String> {
    let eq = |name: &str, got: &[u8], want: &str| -> Result<(), String> {
        if got == unhex(want).as_slice() {
            Ok(())
        } else {
            Err(format!("refspec selftest {}: got {} want {}", name, crate::util::hex(got), want))
        }
    };
    // RFC 8439 2.8.2
    let key: [u8; 32] = (0x80u8..0xa0).collect::<Vec<u8>>().try_into().unwrap();
    let nonce: [u8; 12] = unhex("070000004041424344454647").try_into().unwrap();
    let aad = unhex("50515253c0c1c2c3c4c5c6c7");
    let pt = b"Ladies and Gentlemen of the class of '99: If I could offer you only one tip for the future, sunscreen would be it.";
    let ct = ossl::aead_seal(&key, &nonce, &aad, pt);
    eq("rfc8439 ct head", &ct[..16], "d31a8d34648e60db7b86afbc53ef7ec2")?;
    eq("rfc8439 tag", &ct[pt.len()..], "1ae10b594f09e26a7e902ecbd0600691")?;
    if ossl::aead_open(&key, &nonce, &aad, &ct).as_deref() != Some(&pt[..]) {
        return Err("rfc8439 open".into());
    }
    let mut bad = ct.clone();
    bad[3] ^= 1;
    if ossl::aead_open(&key, &nonce, &aad, &bad).is_some() {
        return Err("openssl open accepted a modified ciphertext".into());
    }
    // SHA-256 / HMAC (FIPS 180-4 "abc", RFC 4231 case 1 and 2)
    eq("sha256 abc", &ossl::sha256(b"abc"), "ba7816bf8f01cfea414140de5dae2223b00361a396177a9cb410ff61f20015ad")?;
    eq("sha256 empty", &ossl::sha256(b""), "e3b0c44298fc1c149afbf4c8996fb92427ae41e4649b934ca495991b7852b855")?;
    eq(
        "rfc4231-1",
        &ossl::hmac_sha256(&[0x0b; 20], b"Hi There"),
        "b0344c61d8db38535ca8afceaf0bf12b881dc200c9833da726e9376c2e32cff7",
    )?;
    eq(
        "rfc4231-2",
        &ossl::hmac_sha256(b"Jefe", b"what do ya want for nothing?"),
        "5bdcc146bf60754e6a042426089575c75a003f089d2739839dec58b964ec3843",
    )?;
    // RFC 5869 A.1, A.3
    eq(
        "rfc5869 A.1",
        &ossl::hkdf_sha256(&unhex("000102030405060708090a0b0c"), &[0x0b; 22], &unhex("f0f1f2f3f4f5f6f7f8f9"), 42),
        "3cb25f25faacd57a90434f64d0362f2a2d2d0a90cf1a5a4c5db02d56ecc4c5bf34007208d5b887185865",
    )?;
    eq(
        "rfc5869 A.3",
        &ossl::hkdf_sha256(&[], &[0x0b; 22], &[], 42),
        "8da4e775a563c18f715f802a063c5a31b8a11f5c5ee1879ec3454e5f3c738d2d9d201395faa4b61a96c8",
    )?;
    // RFC 7914 section 12
    eq(
        "rfc7914-1",
        &ossl::scrypt(b"", b"", 16, 1, 1, 64).ok_or("openssl scrypt refused")?,
        "77d6576238657b203b19ca42c18a0497f16b4844e3074ae8dfdffa3fede21442fcd0069ded0948f8326a753a0fc81f17e8d3e0fb2e0d3628cf35e20c38d18906",
    )?;
    eq(
        "rfc7914-2",
        &ossl::scrypt(b"password", b"NaCl", 1024, 8, 16, 64).ok_or("openssl scrypt refused")?,
        "fdbabe1c9d3472007856e7190d01e9fe7c6ad7cbc8237830e77376634b3731622eaf30d92e22a3886ff109279d9830dac727afb94a83ee6d8360cbdfa2cc0640",
    )?;
    // RFC 7748 5.2 and 6.1, ladder and OpenSSL
    let k1 = unhex32("a546e36bf0527c9d3b16154b82465edd62144c0ac1fc5a18506a2244ba449ac4");
    let u1 = unhex32("e6db6867583030db3594c1a424b15f7c726624ec26b3353b10a903a6d0ab1c4c");
    eq("rfc7748 5.2 #1 ladder", &x25519_raw(&k1, &u1), "c3da55379de9c6908e94ea4df28d084f32eccf03491c71f754b4075577a28552")?;
    let k2 = unhex32("4b66e9d4d1b4673c5ad22691957d6af5c11b6421e0ea01d42ca4169e7918ba0d");
    let u2 = unhex32("e5210f12786811d3f4b7959d0538ae2c31dbe7106fc03c3efc4cd549c715a493");
    eq("rfc7748 5.2 #2 ladder", &x25519_raw(&k2, &u2), "95cbde9476e8907d7aade45cb4b873f88b595a68799fa152e6f8f7647aac7957")?;
    eq("rfc7748 5.2 #2 openssl", &ossl::x25519(&k2, &u2).ok_or("openssl x25519")?, "95cbde9476e8907d7aade45cb4b873f88b595a68799fa152e6f8f7647aac7957")?;
    let mut k = base_point();
    let mut u = base_point();
    for i in 0..1000 {
        let r = x25519_raw(&k, &u);
        u = k;
        k = r;
        if i == 0 {
            eq("rfc7748 iter 1", &k, "422c8e7a6227d7bca1350b3e2bb7279f7897b87bb6854b783c60e80311ae3079")?;
        }
    }
    eq("rfc7748 iter 1000", &k, "684cf59ba83309552800ef566f2f4d3c1c3887c49360e3875f2eb94d99532c51")?;
    let a = unhex32("77076d0a7318a57d3c16c17251b26645df4c2f87ebc0992ab177fba51db92c2a");
    let b = unhex32("5dab087e624a8a4b79e17f8b83800ee66f3bb1292618b6fd1c2f8b27ff88e0eb");
    eq("rfc7748 6.1 A pub", &pubkey_of(&a), "8520f0098930a754748b7ddcb43ef75a0dbf3a0d26381af4eba4a98eaa9b4e6a")?;
    eq("rfc7748 6.1 B pub openssl", &ossl::x25519_public(&b), "de9edb7d7b7dc1b4d35b61c2ece435373f8343c85b78674dadfc7e146f882b4f")?;
    eq("rfc7748 6.1 shared", &x25519_raw(&a, &pubkey_of(&b)), "4a5d9d5ba4ce2de1728e3bf480350f25e07e21c947d19e3376f09b3c1e161742")?;
    // ladder == OpenSSL on pseudo-random inputs, and low-order points give zero
    let mut rng = crate::util::Rng::new(0x5e1f7e57);
    for _ in 0..64 {
        let k = rng.arr32();
        let u = rng.arr32();
        let l = x25519_raw(&k, &u);
        match ossl::x25519(&k, &u) {
            Some(o) if o == l => {}
            None if l == [0u8; 32] => {}
            other => return Err(format!("ladder != openssl for k={} u={}: {:?}", crate::util::hex(&k), crate::util::hex(&u), other)),
        }
    }
    for lo in crate::x25519_ref::low_order_all() {
        if x25519_raw(&k1, &lo) != [0u8; 32] {
            return Err(format!("ladder: low order point {} did not give zero", crate::util::hex(&lo)));
        }
    }
    // Noise X vector (cacophony/snow), quoted in src/crypto/src/noise.rs tests
    let prologue = unhex("50726f6c6f677565313233");
    let s_priv = unhex32("e61ef9919cde45dd5f82166404bd08e38bceb5dfdfded0a34c8df7ed542214d1");
    let e_priv = unhex32("893e28b9dc6ca8d611ab664754b8ceb7bac5117349a4439a6b0569da977c464a");
    let rs = unhex32("31e0303fd6418d2f8c0e78b91f22e8caed0fbe48656dcf4767e4834f701b8f62");
    let payload = unhex("4c756477696720766f6e204d69736573");
    let w = noise_x_write(&prologue, &s_priv, &pubkey_of(&s_priv), &rs, &e_priv, &payload).ok_or("noise write")?;
    eq("noise X message", &w.message, "ca35def5ae56cec33dc2036731ab14896bc4c75dbb07a61f879f8e3afa4c79446c15957a594079a5bdeae05d01e089fbb7cc6ea2ecfd209b941f73c9235213bc14ed87a1a4a0b164c11a5999be0f7bf1fdc3aaa6de60cb3c98302f370fdb03ea6fe2cf18324b0812663aed65fc9eafdf")?;
    eq("noise X h", &w.h, "e5cdeb715c9553e966ccd446aff7f6df1556d0ecda39ddb49ef24c876fe249b7")?;
    let r_priv = unhex32("4a3acbfdb163dec651dfa3194dece676d437029c62a408b4c5ea9114246e4893");
    let nr = noise_x_read(&prologue, &r_priv, &pubkey_of(&r_priv), &w.message).map_err(|e| format!("noise read: {}", e))?;
    eq("noise X read sender", &nr.sender, "6bc3822a2aa7f4e6981d6538692b3cdf3e6df9eea6ed269eb41d93c22757b75a")?;
    if nr.payload != payload || nr.h != w.h {
        return Err("noise X read payload/h".into());
    }
    // body codec round trip, all end states
    let fk = [7u8; 32];
    let body = encode_body(b"hello world", &[4, 4, 3], &fk, &PASS_MAGIC);
    let d = decode_body(&body, 0, &fk, &PASS_MAGIC, 4);
    if !(d.complete() && d.plaintext() == b"hello world" && d.chunks.len() == 3) {
        return Err("body codec round trip".into());
    }
    if decode_body(&body[..body.len() - 1], 0, &fk, &PASS_MAGIC, 4).end != BodyEnd::TruncatedRecord {
        return Err("body codec truncation".into());
    }
    // base64 helpers
    if unb64(&b64(b"any carnal pleas")).as_deref() != Some(&b"any carnal pleas"[..]) || b64(b"any carnal pleasu") != "YW55IGNhcm5hbCBwbGVhc3U=" {
        return Err("base64".into());
    }
    Ok(())
}

/// The two fixtures shipped in the repository (src/cli/tests): decoded by the reference.
pub fn selftest_fixtures() -> Result<(), String> {
    let kr = std::fs::read_to_string("/repo/src/cli/tests/keyring.txt").map_err(|e| e.to_string())?;
    let mut bob_sk = None;
    let mut bob_pk = None;
    let mut alice_pk = None;
    let mut name = String::new();
    for line in kr.lines() {
        if let Some((k, v)) = line.split_once('=') {
            let (k, v) = (k.trim(), v.trim());
            match k {
                "Name" => name = v.to_string(),
                "PublicKey" if name == "bob" => bob_pk = decode_pk(v),
                "PublicKey" if name == "alice" => alice_pk = decode_pk(v),
                "PrivateKey" if name == "bob" => bob_sk = Some(unlock_sk(v, b"bob").map_err(|e| format!("fixture unlock bob: {}", e))?),
                _ => {}
            }
        }
    }
    let (bob_sk, bob_pk, alice_pk) = (bob_sk.ok_or("bob sk")?, bob_pk.ok_or("bob pk")?, alice_pk.ok_or("alice pk")?);
    if pubkey_of(&bob_sk) != bob_pk {
        return Err("fixture: bob public key mismatch".into());
    }
    let want = std::fs::read("/repo/src/cli/tests/data.txt").map_err(|e| e.to_string())?;
    let f = std::fs::read("/repo/src/cli/tests/data.txt.ktl").map_err(|e| e.to_string())?;
    let d = decode_key_file(&f, &bob_sk, &bob_pk).map_err(|e| format!("fixture data.txt.ktl: {}", e))?;
    if !(d.body.complete() && d.body.plaintext() == want && d.sender == alice_pk) {
        return Err("fixture data.txt.ktl does not decode to data.txt from alice".into());
    }
    let f = std::fs::read("/repo/src/cli/tests/pdata.txt.ktl").map_err(|e| e.to_string())?;
    let d = decode_pass_file(&f, b"pass123").map_err(|e| format!("fixture pdata.txt.ktl: {}", e))?;
    if !(d.body.complete() && d.body.plaintext() == want) {
        return Err("fixture pdata.txt.ktl does not decode to data.txt".into());
    }
    Ok(())
}
