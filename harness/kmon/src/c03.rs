//! C03 - accepted ciphertext always yields exactly the sender's complete plaintext.
//! Acceptance model: Ok => the presented bytes equal an authentic file (decryptable with the
//! credential in use) everywhere outside the advisory counter fields, and the output (and
//! sender) are that file's; presenting an authentic file unchanged => Ok.

use crate::ctx::Ctx;
use crate::edits::{acceptable, random_compound, small_edits, Authentic, SmallScenario};
use crate::ioscript::Sched;
use crate::kio::{chunks_decrypt_run, key_decrypt_run, pass_decrypt_run, Io, Outcome, Run};
use crate::refspec::{self, KEY_MAGIC, PASS_MAGIC};
use crate::streams::sig_class;
use crate::util::{compositions, hex, hex_short, par_for, Rng};
use serde_json::{json, Value};

pub fn judge(ctx: &Ctx, prop: &str, scope: &str, op: &str, f: &[u8], run: &Run, auth: &[Authentic], case: &dyn Fn() -> Value) -> bool {
    ctx.eval();
    let full = || {
        let mut v = case();
        v["operator"] = json!(op);
        v["presented"] = json!(hex_short(f, 400));
        v["presented_len"] = json!(f.len());
        v["result"] = json!(run.outcome.class());
        v["bytes_written"] = json!(run.out.len());
        v
    };
    if run.log.budget_hit() {
        ctx.violation(&format!("{}:{}:call-budget-exceeded:{}", prop, scope, op), full());
        return false;
    }
    match &run.outcome {
        Outcome::Panic(p) => {
            ctx.violation(&format!("{}:{}:panic:{}", prop, scope, crate::kio::panic_site(p)), full());
            false
        }
        Outcome::Ok(sender) => match acceptable(f, auth) {
            None => {
                ctx.violation(&format!("{}:{}:accepted-unauthentic-bytes:{}", prop, scope, op), full());
                false
            }
            Some(a) => {
                if run.out != a.plaintext {
                    ctx.violation(&format!("{}:{}:accepted-with-wrong-plaintext:{}", prop, scope, op), full());
                    return false;
                }
                if a.sender.is_some() && *sender != a.sender {
                    ctx.violation(&format!("{}:{}:accepted-with-wrong-sender:{}", prop, scope, op), full());
                    return false;
                }
                ctx.seen(&format!("{} {}: accepted", scope, op));
                true
            }
        },
        o => {
            if auth.iter().any(|a| a.bytes == f) {
                ctx.violation(&format!("{}:{}:authentic-file-rejected:{}", prop, scope, sig_class(o)), full());
                return false;
            }
            ctx.seen(&format!("{} {}: {}", scope, op, short_class(o)));
            true
        }
    }
}

pub fn short_class(o: &Outcome) -> String {
    match o {
        Outcome::IORead(_, _) => "IORead".into(),
        Outcome::IOWrite(_, _) => "IOWrite".into(),
        Outcome::Other(m) => format!("Other({})", m.chars().take(24).collect::<String>()),
        o => o.class(),
    }
}

/// (chunk size, aad, plaintext length, chunking) for every small scenario.
pub fn small_scenarios(max_p: usize, max_c: usize) -> Vec<(usize, Vec<u8>, usize, Vec<usize>)> {
    let mut v = Vec::new();
    for c in 1..=max_c {
        for len in 0..=max_p {
            let comps = if len == 0 { vec![vec![0usize]] } else { compositions(len, c) };
            for comp in comps {
                if comp.len() > 5 {
                    continue;
                }
                for aad in [vec![], PASS_MAGIC.to_vec()] {
                    v.push((c, aad, len, comp.clone()));
                }
            }
        }
    }
    v
}

fn small_block(ctx: &Ctx) {
    let scen = small_scenarios(ctx.tier.pick(5, 8), 3);
    ctx.note("small_scope", json!({"scenarios": scen.len(), "max_chunks": 5, "max_chunk_size": 3, "exhaustive": true,
        "space": "every body of <=5 chunks with chunk sizes <=3 (both AAD variants) x every operator instance listed under 'observed'"}));
    par_for(scen.len(), crate::util::ncpu(), |i| {
        let (c, aad, len, chunking) = &scen[i];
        let mut rng = Rng::fork(ctx.seed, &format!("C03-small-{}", i));
        let pt = rng.bytes(*len);
        let sc = SmallScenario::new(rng.arr32(), aad, *c, &pt, chunking, &mut rng);
        let auth = [sc.auth.clone()];
        let mut rng2 = rng.clone();
        let mut k = 0usize;
        let mut keys = Vec::new();
        small_edits(&sc, &mut rng, &mut |op, f| {
            k += 1;
            let io = match k % 3 {
                0 => Io::plain(),
                1 => Io::new(Sched::fixed(1), Sched::fixed(1)),
                _ => Io::new(Sched::random(&mut rng2, 16, 9), Sched::all()),
            };
            let run = chunks_decrypt_run(&f, &io, &sc.key, &sc.aad, *c as u32);
            let case = || json!({"chunk_size": c, "aad": hex(&sc.aad), "key": hex(&sc.key), "authentic": hex(&sc.auth.bytes), "plaintext": hex(&pt), "chunking": chunking, "io": io.describe()});
            judge(ctx, "C03", "small", op, &f, &run, &auth, &case);
            if op != "identity" {
                keys.push(format!("small|{}|{}|{}", i, op, k));
            }
            if i == 40 && (k == 50 || op == "rewrite-last-flag+drop-tail") {
                ctx.sample("small-scope edit", 3, || json!({"operator": op, "authentic": hex(&sc.auth.bytes), "presented": hex(&f), "result": run.outcome.class(), "chunking": chunking}));
            }
        });
        ctx.distinct_many(&keys);
    });
}

pub struct KeyWorld {
    pub s: [u8; 32],
    pub s_pub: [u8; 32],
    pub s2: [u8; 32],
    pub s2_pub: [u8; 32],
    pub r: [u8; 32],
    pub r_pub: [u8; 32],
    pub r2: [u8; 32],
    pub r2_pub: [u8; 32],
}

impl KeyWorld {
    pub fn new(rng: &mut Rng) -> KeyWorld {
        let (s, s2, r, r2) = (rng.arr32(), rng.arr32(), rng.arr32(), rng.arr32());
        KeyWorld {
            s,
            s_pub: refspec::pubkey_of(&s),
            s2,
            s2_pub: refspec::pubkey_of(&s2),
            r,
            r_pub: refspec::pubkey_of(&r),
            r2,
            r2_pub: refspec::pubkey_of(&r2),
        }
    }
}

pub fn mk_key_file(s: &[u8; 32], r_pub: &[u8; 32], pt: &[u8], chunking: &[usize], rng: &mut Rng) -> Authentic {
    let s_pub = refspec::pubkey_of(s);
    let bytes = refspec::encode_key_file(s, &s_pub, r_pub, &rng.arr32(), &rng.arr32(), pt, chunking).expect("honest keys");
    Authentic { bytes, plaintext: pt.to_vec(), sender: Some(s_pub), body_off: 132, chunking: chunking.to_vec() }
}

fn key_block(ctx: &Ctx) {
    let rounds = ctx.tier.pick(2, 32);
    par_for(rounds, crate::util::ncpu(), |round| {
        let mut rng = Rng::fork(ctx.seed, &format!("C03-key-{}", round));
        let w = KeyWorld::new(&mut rng);
        let p1 = rng.bytes(7);
        let p2 = rng.bytes(7);
        let chunking = vec![3usize, 3, 1];
        let f1 = mk_key_file(&w.s, &w.r_pub, &p1, &chunking, &mut rng);
        let f2 = mk_key_file(&w.s, &w.r_pub, &p2, &chunking, &mut rng);
        let f3 = mk_key_file(&w.s2, &w.r_pub, &p1, &chunking, &mut rng);
        let f4 = mk_key_file(&w.s, &w.r2_pub, &p1, &chunking, &mut rng);
        let auth_r = vec![f1.clone(), f2.clone(), f3.clone()];
        let case = || json!({"recipient_private": hex(&w.r), "F1": hex(&f1.bytes), "F2": hex(&f2.bytes), "round": round});
        let dec = |f: &[u8], k: usize| -> Run {
            let io = if k % 2 == 0 { Io::plain() } else { Io::new(Sched::fixed(5), Sched::fixed(2)) };
            key_decrypt_run(f, &io, &w.r, &w.r_pub)
        };
        let mut nd = 0usize;
        let mut go = |op: &str, f: Vec<u8>| {
            nd += 1;
            let run = dec(&f, nd);
            if judge(ctx, "C03", "keyfile", op, &f, &run, &auth_r, &case) && op != "identity" {
                ctx.distinct(&format!("key|{}|{}|{}", round, op, nd));
            }
            if round == 0 && nd % 400 == 1 {
                ctx.sample("key-file edit", 3, || json!({"operator": op, "presented": hex_short(&f, 200), "result": run.outcome.class()}));
            }
        };
        go("identity", f1.bytes.clone());
        go("identity", f3.bytes.clone());
        // all 1056 single-bit flips of the header
        for i in 0..132 {
            for bit in 0..8 {
                let mut x = f1.bytes.clone();
                x[i] ^= 1 << bit;
                go("header-bitflip", x);
            }
        }
        // every bit of the body too (small file)
        for i in 132..f1.bytes.len() {
            for bit in 0..8 {
                let mut x = f1.bytes.clone();
                x[i] ^= 1 << bit;
                let in_counter = f1.records().iter().any(|r| i >= r.0 && i < r.0 + 8);
                go(if in_counter { "body-bitflip-counter-field" } else { "body-bitflip" }, x);
            }
        }
        // every truncation, every 1-byte extension
        for l in 0..f1.bytes.len() {
            go("truncate", f1.bytes[..l].to_vec());
        }
        for v in [0u8, 1, 0x65, 0xff] {
            let mut x = f1.bytes.clone();
            x.push(v);
            go("extend-1-byte", x);
        }
        // handshake field / body splices between F1 and F2 (same sender, same recipient)
        let srcs = [&f1.bytes, &f2.bytes];
        for mask in 0..16u32 {
            let pick = |bit: u32| srcs[((mask >> bit) & 1) as usize];
            let mut x = KEY_MAGIC.to_vec();
            x.extend_from_slice(&pick(0)[4..36]);
            x.extend_from_slice(&pick(1)[36..84]);
            x.extend_from_slice(&pick(2)[84..132]);
            x.extend_from_slice(&pick(3)[132..]);
            go(if mask == 0 || mask == 15 { "identity" } else { "splice-handshake-fields-F1-F2" }, x);
        }
        // handshake of another sender with these chunks, and the reverse
        let mut x = f3.bytes[..132].to_vec();
        x.extend_from_slice(&f1.bytes[132..]);
        go("other-senders-handshake+chunks", x);
        let mut x = f1.bytes[..132].to_vec();
        x.extend_from_slice(&f3.bytes[132..]);
        go("handshake+other-senders-chunks", x);
        // enc(s) of the other sender inside F1's handshake (claim another identity)
        let mut x = f1.bytes.clone();
        x[36..84].copy_from_slice(&f3.bytes[36..84]);
        go("swap-encrypted-static-key", x);
        // a file addressed to another recipient
        go("file-for-other-recipient", f4.bytes.clone());
        // magic of the other mode / unknown magic
        let mut x = f1.bytes.clone();
        x[..4].copy_from_slice(&PASS_MAGIC);
        go("password-magic-on-key-file", x);
        let mut x = f1.bytes.clone();
        x[3] = 0x11;
        go("unknown-magic", x);
        // chunk-level rearrangements inside the file
        let recs = f1.records();
        let rec = |i: usize| f1.bytes[recs[i].0..recs[i].1].to_vec();
        for perm in [[1usize, 0, 2], [0, 2, 1], [2, 1, 0], [1, 2, 0]] {
            let mut x = f1.bytes[..132].to_vec();
            for j in perm {
                x.extend_from_slice(&rec(j));
            }
            go("permute-chunks", x);
        }
        let mut x = f1.bytes[..recs[1].1].to_vec();
        x[recs[1].0 + 11] = 1;
        go("set-last-flag+drop-tail", x);
        go("drop-tail", f1.bytes[..recs[1].1].to_vec());
        let mut x = f1.bytes[..132].to_vec();
        x.extend_from_slice(&rec(0));
        x.extend_from_slice(&rec(0));
        x.extend_from_slice(&rec(1));
        x.extend_from_slice(&rec(2));
        go("duplicate-chunk", x);
        // wrong recipient key material: right file, decrypt under R' (judged with R' as credential)
        ctx.eval();
        let run = key_decrypt_run(&f1.bytes, &Io::plain(), &w.r2, &w.r2_pub);
        if run.outcome.is_ok() {
            ctx.violation("C03:keyfile:decrypts-under-wrong-recipient-key", case());
        } else {
            ctx.seen(&format!("keyfile decrypt-with-other-recipient: {}", short_class(&run.outcome)));
        }
        // right private key but a different recipient_public argument
        ctx.eval();
        let run = key_decrypt_run(&f1.bytes, &Io::plain(), &w.r, &w.r2_pub);
        if run.outcome.is_ok() {
            ctx.violation("C03:keyfile:decrypts-with-mismatched-recipient-public", case());
        } else {
            ctx.seen(&format!("keyfile decrypt-with-mismatched-recipient-public: {}", short_class(&run.outcome)));
        }
    });
}

fn pass_block(ctx: &Ctx) {
    let mut rng = Rng::fork(ctx.seed, "C03-pass");
    let pw = b"hunter2 \xc3\xa9".to_vec();
    let salt1 = rng.arr32();
    let salt2 = rng.arr32();
    let p1 = rng.bytes(7);
    let p2 = rng.bytes(7);
    let chunking = vec![3usize, 3, 1];
    let mk = |salt: &[u8; 32], pt: &[u8]| Authentic {
        bytes: refspec::encode_pass_file(&pw, salt, pt, &chunking),
        plaintext: pt.to_vec(),
        sender: None,
        body_off: 36,
        chunking: chunking.clone(),
    };
    let f1 = mk(&salt1, &p1);
    let f2 = mk(&salt2, &p2);
    let auth = vec![f1.clone(), f2.clone()];
    let mut cases: Vec<(String, Vec<u8>)> = vec![("identity".into(), f1.bytes.clone()), ("identity".into(), f2.bytes.clone())];
    // every bit of magic and salt; thorough: every bit of the whole file
    let upto = ctx.tier.pick(36, f1.bytes.len());
    for i in 0..upto {
        for bit in 0..8 {
            if ctx.tier == crate::ctx::Tier::Quick && i >= 4 && bit % 4 != (i % 4) {
                continue; // quick: 2 bits of every salt byte, all bits of the magic
            }
            let mut x = f1.bytes.clone();
            x[i] ^= 1 << bit;
            let in_counter = f1.records().iter().any(|r| i >= r.0 && i < r.0 + 8);
            cases.push((if i < 36 { "header-bitflip".into() } else if in_counter { "body-bitflip-counter-field".into() } else { "body-bitflip".into() }, x));
        }
    }
    // bodies swapped between files with different salts; header of one, body of the other
    let mut x = f1.bytes[..36].to_vec();
    x.extend_from_slice(&f2.bytes[36..]);
    cases.push(("header-F1+body-F2".into(), x));
    let mut x = f2.bytes[..36].to_vec();
    x.extend_from_slice(&f1.bytes[36..]);
    cases.push(("header-F2+body-F1".into(), x));
    let mut x = f1.bytes.clone();
    x[..4].copy_from_slice(&KEY_MAGIC);
    cases.push(("key-magic-on-password-file".into(), x));
    for l in (0..f1.bytes.len()).step_by(ctx.tier.pick(5, 1)) {
        cases.push(("truncate".into(), f1.bytes[..l].to_vec()));
    }
    let mut x = f1.bytes.clone();
    x.push(0);
    cases.push(("extend-1-byte".into(), x));
    let recs = f1.records();
    let mut x = f1.bytes[..recs[1].1].to_vec();
    x[recs[1].0 + 11] = 1;
    cases.push(("set-last-flag+drop-tail".into(), x));
    let mut x = f1.bytes[..36].to_vec();
    for j in [1usize, 0, 2] {
        x.extend_from_slice(&f1.bytes[recs[j].0..recs[j].1]);
    }
    cases.push(("permute-chunks".into(), x));
    let case = || json!({"password": hex(&pw), "F1": hex(&f1.bytes), "F2": hex(&f2.bytes)});
    par_for(cases.len(), crate::util::ncpu(), |i| {
        let (op, f) = &cases[i];
        let io = if i % 2 == 0 { Io::plain() } else { Io::new(Sched::fixed(3), Sched::fixed(2)) };
        let run = pass_decrypt_run(f, &io, &pw);
        if judge(ctx, "C03", "passfile", op, f, &run, &auth, &case) && op != "identity" {
            ctx.distinct(&format!("pass|{}|{}", op, i));
        }
    });
}

fn production_block(ctx: &Ctx) {
    let rounds = ctx.tier.pick(2, 24);
    par_for(rounds, crate::util::ncpu(), |round| {
        let mut rng = Rng::fork(ctx.seed, &format!("C03-prod-{}", round));
        let w = KeyWorld::new(&mut rng);
        let p1 = rng.bytes(65536 * 2 + 1000);
        let p2 = rng.bytes(65536 * 2 + 1000);
        let chunking = vec![65536usize, 65536, 1000];
        let f1 = mk_key_file(&w.s, &w.r_pub, &p1, &chunking, &mut rng);
        let f2 = mk_key_file(&w.s2, &w.r_pub, &p2, &chunking, &mut rng);
        let auth = vec![f1.clone(), f2.clone()];
        let recs = f1.records();
        let case = || json!({"recipient_private": hex(&w.r), "file": "3 chunks of 65536,65536,1000 bytes (seeded)", "round": round, "seed": ctx.seed});
        let mut nd = 0usize;
        let mut go = |op: &str, f: Vec<u8>| {
            nd += 1;
            let io = if nd % 3 == 0 { Io::new(Sched::fixed(4096), Sched::fixed(65536)) } else { Io::plain() };
            let run = key_decrypt_run(&f, &io, &w.r, &w.r_pub);
            if judge(ctx, "C03", "production", op, &f, &run, &auth, &case) && op != "identity" {
                ctx.distinct(&format!("prod|{}|{}|{}", round, op, nd));
            }
        };
        go("identity", f1.bytes.clone());
        // all bits of every chunk header and tag
        for r in &recs {
            for i in (r.0..r.0 + 16).chain(r.1 - 16..r.1) {
                for bit in 0..8 {
                    let mut x = f1.bytes.clone();
                    x[i] ^= 1 << bit;
                    go(if i < r.0 + 8 { "chunk-counter-bitflip" } else if i < r.0 + 16 { "chunk-header-bitflip" } else { "tag-bitflip" }, x);
                }
            }
        }
        // sampled ciphertext bits
        for _ in 0..ctx.tier.pick(150, 1500) {
            let r = rng.pick(&recs);
            let i = rng.range(r.0 + 16, r.1 - 17);
            let mut x = f1.bytes.clone();
            x[i] ^= 1 << rng.below(8);
            go("ciphertext-bitflip", x);
        }
        // truncation at every offset in header / chunk header / tag regions and +-1 of chunk boundaries
        let mut cuts: Vec<usize> = (0..=148).collect();
        for r in &recs {
            cuts.extend(r.0.saturating_sub(2)..r.0 + 18);
            cuts.extend(r.1 - 18..r.1 + 2);
        }
        cuts.sort();
        cuts.dedup();
        for l in cuts {
            if l < f1.bytes.len() {
                go("truncate", f1.bytes[..l].to_vec());
            }
        }
        // chunk moves between the two files and inside one file
        for i in 0..3 {
            let mut x = f1.bytes.clone();
            x[recs[i].0..recs[i].1].copy_from_slice(&f2.bytes[recs[i].0..recs[i].1]);
            go("splice-chunk-from-other-file", x);
        }
        let mut x = f1.bytes[..132].to_vec();
        x.extend_from_slice(&f1.bytes[recs[1].0..recs[1].1]);
        x.extend_from_slice(&f1.bytes[recs[0].0..recs[0].1]);
        x.extend_from_slice(&f1.bytes[recs[2].0..recs[2].1]);
        go("permute-chunks", x);
        let mut x = f1.bytes[..recs[1].1].to_vec();
        x[recs[1].0 + 11] = 1;
        go("set-last-flag+drop-tail", x);
        // length field vs u16/u32 confusions at production size
        for l in [0u32, 1, 65535, 65537, 0x0001_0000 + 65536, 0x8000_0000, u32::MAX] {
            let mut x = f1.bytes.clone();
            x[recs[0].0 + 12..recs[0].0 + 16].copy_from_slice(&l.to_be_bytes());
            go("rewrite-length", x);
        }
        // seeded random compound edits (depth <= 4)
        let mut regions: Vec<(usize, usize)> = vec![(0, 132)];
        for r in &recs {
            regions.push((r.0, r.0 + 16));
            regions.push((r.1 - 16, r.1));
        }
        let others: [&[u8]; 1] = [&f2.bytes];
        for k in 0..ctx.tier.pick(400, 12000) {
            let (name, x) = random_compound(&f1.bytes, &others, &mut rng, &regions);
            if k == 7 && round == 0 {
                ctx.sample("compound edit (production size)", 1, || json!({"edits": name, "presented_len": x.len()}));
            }
            go("random-compound", x);
        }
    });
}

/// The same acceptance model through the real binary: exit 0 is allowed only for bytes equal to an
/// authentic file outside the counter fields, and the output file must then hold its plaintext.
fn cli_block(ctx: &Ctx) {
    use crate::cli::{keyring_text, Cmd, Exit, Ident, WorkDir};
    let mut rng = Rng::fork(ctx.seed, "C03-cli");
    let alice = Ident::new("alice", "apw", &mut rng);
    let bob = Ident::new("bob", "bpw", &mut rng);
    let wd = WorkDir::new("c03");
    wd.write("kr.txt", keyring_text(&[(&alice, true), (&bob, true)]).as_bytes());
    let pt = rng.bytes(11);
    let chunking = vec![4usize, 4, 3];
    let kf = mk_key_file(&alice.sk, &bob.pk, &pt, &chunking, &mut rng);
    let pw = "cli pass".to_string();
    let pf = Authentic { bytes: refspec::encode_pass_file(pw.as_bytes(), &rng.arr32(), &pt, &chunking), plaintext: pt.clone(), sender: None, body_off: 36, chunking: chunking.clone() };
    let big_pt = rng.bytes(65536 + 100);
    let big_pf = Authentic { bytes: refspec::encode_pass_file(pw.as_bytes(), &rng.arr32(), &big_pt, &[65536, 100]), plaintext: big_pt.clone(), sender: None, body_off: 36, chunking: vec![65536, 100] };
    let mut cases: Vec<(bool, String, Vec<u8>, usize)> = Vec::new(); // (key mode, operator, bytes, which authentic)
    for (keymode, a, ai) in [(true, &kf, 0usize), (false, &pf, 1), (false, &big_pf, 2)] {
        let f = &a.bytes;
        let recs = a.records();
        cases.push((keymode, "identity".into(), f.clone(), ai));
        for ext in [vec![0u8], vec![b'\n'], vec![0u8; 512], f.clone()] {
            let mut x = f.clone();
            x.extend_from_slice(&ext);
            cases.push((keymode, "extend".into(), x, ai));
        }
        for cut in [1usize, 16, 17, recs.last().unwrap().1 - recs.last().unwrap().0] {
            cases.push((keymode, "truncate".into(), f[..f.len() - cut.min(f.len())].to_vec(), ai));
        }
        if recs.len() >= 2 {
            cases.push((keymode, "drop-tail".into(), f[..recs[recs.len() - 2].1].to_vec(), ai));
            let mut x = f[..recs[recs.len() - 2].1].to_vec();
            x[recs[recs.len() - 2].0 + 11] = 1;
            cases.push((keymode, "set-last-flag+drop-tail".into(), x, ai));
            let mut x = f[..a.body_off].to_vec();
            x.extend_from_slice(&f[recs[1].0..recs[1].1]);
            x.extend_from_slice(&f[recs[0].0..recs[0].1]);
            for r in &recs[2..] {
                x.extend_from_slice(&f[r.0..r.1]);
            }
            cases.push((keymode, "permute-chunks".into(), x, ai));
            let mut x = f.clone();
            x.splice(recs[0].1..recs[0].1, f[recs[0].0..recs[0].1].to_vec());
            cases.push((keymode, "duplicate-chunk".into(), x, ai));
        }
        let nflips = ctx.tier.pick(24, 200);
        for k in 0..nflips {
            let i = if k % 3 == 0 { rng.range(0, a.body_off - 1) } else { rng.range(a.body_off, f.len().min(a.body_off + 200) - 1) };
            let mut x = f.clone();
            x[i] ^= 1 << rng.below(8);
            let in_counter = recs.iter().any(|r| i >= r.0 && i < r.0 + 8);
            cases.push((keymode, if in_counter { "bitflip-counter-field".into() } else { "bitflip".into() }, x, ai));
        }
    }
    // history: an earlier decrypt to the same -o path was killed half way (its input stalled); a later decrypt of an
    // authentic, untouched file to that path must still give exactly its plaintext
    {
        use crate::cli::Stdin;
        let long_pt = rng.bytes(65536 * 3 + 5);
        let long_pf = refspec::encode_pass_file(pw.as_bytes(), &rng.arr32(), &long_pt, &refspec::natural_chunking(long_pt.len(), 65536));
        let long_kf = mk_key_file(&alice.sk, &bob.pk, &long_pt, &refspec::natural_chunking(long_pt.len(), 65536), &mut rng);
        let hist_cases: Vec<(&str, Vec<&str>, Vec<&str>, &str, &Vec<u8>, &Authentic)> = vec![
            ("password", vec!["password", "decrypt", "-o", "hist.out", "--env-pass"], vec!["password", "decrypt", "hist-small.ktl", "-o", "hist.out", "--env-pass"], pw.as_str(), &long_pf, &pf),
            ("key", vec!["decrypt", "-t", "bob", "-o", "hist.out", "-k", "kr.txt", "--env-pass"], vec!["decrypt", "hist-small.ktl", "-t", "bob", "-o", "hist.out", "-k", "kr.txt", "--env-pass"], "bpw", &long_kf.bytes, &kf),
        ];
        for (mode, first_args, second_args, p, stalled_input, small) in hist_cases {
            let _ = std::fs::remove_file(wd.file("hist.out"));
            for e in std::fs::read_dir(&wd.path).unwrap().flatten() {
                if e.file_name().to_string_lossy().starts_with("hist.out") {
                    let _ = std::fs::remove_file(e.path());
                }
            }
            wd.write("hist-small.ktl", &small.bytes);
            // two and a half chunks arrive, then the source stalls; the watchdog kills the process (SIGKILL)
            let mut sizes = vec![stalled_input.len() * 2 / 3];
            sizes.extend(std::iter::repeat(0).take(40));
            let mut c = Cmd::new(&wd.path, &first_args).pass(p).stdin(Stdin::Dribble(stalled_input.clone(), sizes));
            c.timeout = std::time::Duration::from_millis(2500);
            let killed = c.run();
            let left = std::fs::read(wd.file("hist.out")).map(|b| b.len()).unwrap_or(0);
            let o = Cmd::new(&wd.path, &second_args).pass(p).run();
            ctx.eval();
            let got = std::fs::read(wd.file("hist.out")).unwrap_or_default();
            if killed.exit != Exit::Timeout {
                ctx.seen("history lane: the first run ended by itself (not a crash history)");
            }
            if o.exit == Exit::Code(0) && got == small.plaintext {
                ctx.seen(&format!("cli {} after an interrupted earlier run to the same path: exactly the plaintext", mode));
                ctx.distinct(&format!("cli|history|{}", mode));
            } else {
                ctx.violation(&format!("C03:cli:{}:authentic-file-after-an-interrupted-run-does-not-give-exactly-its-plaintext", mode), json!({"first_run": killed.exit.describe(), "bytes_left_by_first_run": left, "second_run_exit": o.exit.describe(), "stderr": o.stderr_s(), "output_len": got.len(), "plaintext_len": small.plaintext.len()}));
            }
        }
    }
    // authentic files whose plaintext CONTENT is special (zero / 0xff runs aligned with the chunk size):
    // accepted, and the output - at -o and on stdout - is exactly the plaintext
    {
        let fams = crate::util::content_families(&mut rng);
        let seeds: Vec<u64> = fams.iter().map(|_| rng.next()).collect();
        let wdp = &wd;
        par_for(fams.len() * 2, crate::util::ncpu(), |j| {
            let (what, pt) = &fams[j / 2];
            let keymode = j % 2 == 0;
            let mut r = Rng::new(seeds[j / 2]);
            let chunking = refspec::natural_chunking(pt.len(), 65536);
            let file = if keymode { mk_key_file(&alice.sk, &bob.pk, pt, &chunking, &mut r).bytes } else { refspec::encode_pass_file(pw.as_bytes(), &r.arr32(), pt, &chunking) };
            let inp = wdp.write(&format!("fam{}.ktl", j), &file);
            let outp = wdp.file(&format!("fam{}.out", j));
            for to_file in [true, false] {
                let mut args: Vec<&str> = if keymode { vec!["decrypt", inp.to_str().unwrap(), "-t", "bob", "-k", "kr.txt", "--env-pass"] } else { vec!["password", "decrypt", inp.to_str().unwrap(), "--env-pass"] };
                if to_file {
                    args.push("-o");
                    args.push(outp.to_str().unwrap());
                }
                let o = Cmd::new(&wdp.path, &args).pass(if keymode { "bpw" } else { &pw }).run();
                ctx.eval();
                let got = if to_file { std::fs::read(&outp).unwrap_or_default() } else { o.stdout.clone() };
                if o.exit == Exit::Timeout {
                    ctx.inconclusive("C03 cli: timeout");
                } else if o.exit == Exit::Code(0) && &got == pt {
                    ctx.seen("cli: authentic file with special plaintext content gives exactly the plaintext");
                    ctx.distinct(&format!("cli|content|{}|{}|{}", what, keymode, to_file));
                } else {
                    let first_diff = got.iter().zip(pt.iter()).position(|(a, b)| a != b);
                    ctx.violation(&format!("C03:cli:{}:authentic-file-does-not-give-exactly-its-plaintext:special-content", if keymode { "key" } else { "password" }),
                        json!({"content": what, "sink": if to_file { "-o FILE" } else { "stdout" }, "exit": o.exit.describe(), "stderr": o.stderr_s(), "plaintext_len": pt.len(), "output_len": got.len(), "first_difference_at": first_diff}));
                }
                let _ = std::fs::remove_file(&outp);
            }
        });
    }
    let auths = [kf.clone(), pf.clone(), big_pf.clone()];
    let wdp = &wd;
    par_for(cases.len(), crate::util::ncpu(), |i| {
        let (keymode, op, bytes, ai) = &cases[i];
        let inp = wdp.write(&format!("in{}.ktl", i), bytes);
        let outp = wdp.file(&format!("out{}.bin", i));
        // how the presented bytes reach the tool: as a regular file, or - for the edits that ADD bytes after an
        // authentic prefix - also as a stream in which the authentic part arrives first and the rest only after a
        // pause (through bare stdin, through the path /dev/stdin, and through a named pipe given as FILE)
        let a = &auths[*ai];
        let late_part = (op == "extend" || op == "duplicate-chunk") && bytes.len() > a.bytes.len() && bytes[..a.bytes.len()] == a.bytes[..];
        let wirings: &[&str] = if late_part { &["regular file", "stdin, late tail", "/dev/stdin as FILE, late tail", "named pipe as FILE, late tail"] } else { &["regular file"] };
        for wiring in wirings {
        let _ = std::fs::remove_file(&outp);
        let dribble = || crate::cli::Stdin::Dribble(bytes.clone(), vec![a.bytes.len(), 0, 0, bytes.len() - a.bytes.len()]);
        let fifo = wdp.file(&format!("in{}.fifo", i));
        let file_arg: Option<String> = match *wiring {
            "regular file" => Some(inp.to_str().unwrap().to_string()),
            "stdin, late tail" => None,
            "/dev/stdin as FILE, late tail" => Some("/dev/stdin".into()),
            _ => Some(fifo.to_str().unwrap().to_string()),
        };
        let mut args: Vec<String> = if *keymode { vec!["decrypt".into()] } else { vec!["password".into(), "decrypt".into()] };
        if let Some(f) = &file_arg {
            args.push(f.clone());
        }
        if *keymode {
            args.extend(["-t", "bob", "-k", "kr.txt"].iter().map(|x| x.to_string()));
        }
        args.extend(["-o".to_string(), outp.to_str().unwrap().to_string(), "--env-pass".to_string()]);
        let argrefs: Vec<&str> = args.iter().map(|x| x.as_str()).collect();
        let mut cmd = Cmd::new(&wdp.path, &argrefs).pass(if *keymode { "bpw" } else { &pw });
        let mut feeder: Option<std::thread::JoinHandle<()>> = None;
        match *wiring {
            "regular file" => {}
            "named pipe as FILE, late tail" => {
                let c = std::ffi::CString::new(fifo.to_string_lossy().as_bytes()).unwrap();
                if unsafe { libc::mkfifo(c.as_ptr(), 0o600) } != 0 {
                    continue;
                }
                let (head, tail, fp) = (a.bytes.clone(), bytes[a.bytes.len()..].to_vec(), fifo.clone());
                feeder = Some(std::thread::spawn(move || {
                    use std::io::Write;
                    use std::os::unix::fs::OpenOptionsExt;
                    // wait (bounded) for the tool to open the pipe for reading, then head, pause, tail
                    let mut f = None;
                    for _ in 0..400 {
                        match std::fs::OpenOptions::new().write(true).custom_flags(libc::O_NONBLOCK).open(&fp) {
                            Ok(h) => {
                                f = Some(h);
                                break;
                            }
                            Err(_) => std::thread::sleep(std::time::Duration::from_millis(10)),
                        }
                    }
                    if let Some(mut h) = f {
                        // back to blocking writes
                        unsafe {
                            use std::os::unix::io::AsRawFd;
                            let fl = libc::fcntl(h.as_raw_fd(), libc::F_GETFL);
                            libc::fcntl(h.as_raw_fd(), libc::F_SETFL, fl & !libc::O_NONBLOCK);
                        }
                        let _ = h.write_all(&head);
                        let _ = h.flush();
                        std::thread::sleep(std::time::Duration::from_millis(900));
                        let _ = h.write_all(&tail);
                    }
                }));
            }
            _ => cmd = cmd.stdin(dribble()),
        }
        let o = cmd.run();
        if let Some(h) = feeder {
            let _ = h.join();
        }
        let _ = std::fs::remove_file(&fifo);
        ctx.eval();
        let out = std::fs::read(&outp).ok();
        let op = &if *wiring == "regular file" { op.clone() } else { format!("{} ({})", op, wiring) };
        let case = || json!({"mode": if *keymode { "key" } else { "password" }, "operator": op, "presented": hex_short(bytes, 300), "presented_len": bytes.len(), "authentic_len": a.bytes.len(), "exit": o.exit.describe(), "stderr": o.stderr_s(), "output_len": out.as_ref().map(|x| x.len())});
        let mode = if *keymode { "key" } else { "password" };
        match &o.exit {
            Exit::Timeout => ctx.inconclusive("C03 cli: timeout"),
            Exit::Code(0) => {
                if !a.matches_modulo_counters(bytes) {
                    ctx.violation(&format!("C03:cli:{}:exit-0-for-unauthentic-bytes:{}", mode, op), case());
                } else if out.as_deref() != Some(&a.plaintext[..]) {
                    ctx.violation(&format!("C03:cli:{}:exit-0-with-incomplete-or-wrong-output:{}", mode, op), case());
                } else {
                    ctx.seen(&format!("cli {} {}: accepted with the complete plaintext", mode, op));
                }
            }
            Exit::Code(1) => {
                if &a.bytes == bytes {
                    ctx.violation(&format!("C03:cli:{}:authentic-file-rejected", mode), case());
                } else {
                    ctx.seen(&format!("cli {} {}: rejected (exit 1)", mode, op));
                    ctx.distinct(&format!("cli|{}|{}|{}", mode, op, i));
                }
            }
            other => ctx.violation(&format!("C03:cli:{}:abnormal-termination:{}", mode, other.describe()), case()),
        }
        }
        let _ = std::fs::remove_file(&inp);
        let _ = std::fs::remove_file(&outp);
    });
}

pub fn run(ctx: &Ctx) {
    ctx.rule(
        "every presented byte string is generated from authentic files by a named edit operator; the real decryptor's result is judged by the acceptance \
         model (Ok => equals an authentic file outside counter fields, output and sender are that file's; unchanged authentic file => Ok). Small scope \
         enumerates every operator instance on every body of <=5 chunks with chunk size <=3; key/password files and 3x64KiB files add header bit flips, \
         field splices, truncations, length/flag rewrites and seeded compound edits. distinct_nontrivial counts distinct (scenario, operator, instance) \
         cases other than the identity",
    );
    ctx.assume("ChaCha20-Poly1305 / X25519 / HKDF are secure: a monitor sees that a forged file is rejected, not that forging is infeasible");
    ctx.assume("scenarios never contain two files under the same file key (same-key splices are legitimately accepted)");
    small_block(ctx);
    key_block(ctx);
    pass_block(ctx);
    production_block(ctx);
    if !crate::lib_only() {
        cli_block(ctx);
    }
    ctx.require("cli: authentic file with special plaintext content", 30);
    ctx.require("cli key extend: rejected", 3);
    ctx.require("cli key extend (named pipe as FILE, late tail): rejected", 2);
    ctx.require("cli password extend (/dev/stdin as FILE, late tail): rejected", 4);
    ctx.require("cli password extend (stdin, late tail): rejected", 4);
    ctx.require("cli password after an interrupted earlier run", 1);
    ctx.require("cli key after an interrupted earlier run", 1);
    ctx.require("cli password extend: rejected", 6);
    ctx.require("cli password truncate: rejected", 4);
    ctx.require("small truncate", 100);
    ctx.require("keyfile header-bitflip", 1000);
    ctx.require("passfile header-bitflip", 50);
    ctx.require("production ", 500);
}
