//! C19 - exported primitives equal their RFC definitions (differential against OpenSSL and
//! the RFC 7748 ladder), open rejects every altered input, DH is symmetric and fails on
//! all-zero results, Noise nonce layout.

use crate::ctx::Ctx;
use crate::kio::{guarded, panic_site};
use crate::ossl;
use crate::refspec;
use crate::util::{hex, par_for, Rng};
use crate::x25519_ref::{base_point, low_order_all, x25519_raw};
use kestrel_crypto::*;
use serde_json::json;

fn aead_grid(ctx: &Ctx) {
    let keys = 3usize;
    par_for(keys * 131, crate::util::ncpu(), |w| {
        let (ki, ptl) = (w / 131, w % 131);
        let mut rng = Rng::fork(ctx.seed, &format!("C19-aead-{}-{}", ki, ptl));
        let key = rng.arr32();
        for aadl in 0..=40usize {
            let nonce: [u8; 12] = rng.bytes(12).try_into().unwrap();
            let pt = rng.bytes(ptl);
            let aad = rng.bytes(aadl);
            ctx.eval();
            let want = ossl::aead_seal(&key, &nonce, &aad, &pt);
            let got = guarded(|| chapoly_encrypt_ietf(&key, &nonce, &pt, &aad));
            let case = || json!({"key": hex(&key), "nonce": hex(&nonce), "aad": hex(&aad), "plaintext": hex(&pt), "want": hex(&want)});
            match &got {
                Ok(g) if *g == want => {}
                Ok(_) => {
                    ctx.violation("C19:aead:seal-differs-from-rfc8439", case());
                    continue;
                }
                Err(p) => {
                    ctx.violation(&format!("C19:aead:seal-panic:{}", panic_site(p)), case());
                    continue;
                }
            }
            match guarded(|| chapoly_decrypt_ietf(&key, &nonce, &want, &aad)) {
                Ok(Ok(p)) if p == pt => {}
                Ok(_) => {
                    ctx.violation("C19:aead:open-does-not-invert-seal", case());
                    continue;
                }
                Err(p) => {
                    ctx.violation(&format!("C19:aead:open-panic:{}", panic_site(&p)), case());
                    continue;
                }
            }
            ctx.distinct(&format!("aead|{}|{}|{}", ki, ptl, aadl));
        }
        ctx.seen_n("aead: seal == OpenSSL and open inverts it", 41);
    });
    ctx.note("aead_grid", json!({"plaintext_lengths": "0..=130", "aad_lengths": "0..=40", "keys": keys, "exhaustive": true}));
}

/// Large inputs: plaintext / associated data / hash input lengths around every power of two up to 4 MiB
/// (thorough: 64 MiB), and a few odd sizes in between; same oracles.
fn large_inputs(ctx: &Ctx) {
    let top = ctx.tier.pick(22u32, 26u32);
    let mut lens: Vec<usize> = Vec::new();
    for e in 8..=top {
        for d in [-1i64, 0, 1] {
            lens.push(((1i64 << e) + d) as usize);
        }
    }
    lens.extend_from_slice(&[300_007, 1_500_001, 3 * (1 << 20) + 17]);
    par_for(lens.len(), crate::util::ncpu(), |i| {
        let l = lens[i];
        let mut rng = Rng::fork(ctx.seed, &format!("C19-large-{}", l));
        let key = rng.arr32();
        let nonce: [u8; 12] = rng.bytes(12).try_into().unwrap();
        let pt = rng.bytes(l);
        let aad = if i % 3 == 0 { rng.bytes(l.min(70_000)) } else { rng.bytes(i % 40) };
        ctx.eval();
        let want = ossl::aead_seal(&key, &nonce, &aad, &pt);
        let case = || json!({"plaintext_len": l, "aad_len": aad.len(), "key": hex(&key), "nonce": hex(&nonce)});
        match guarded(|| chapoly_encrypt_ietf(&key, &nonce, &pt, &aad)) {
            Ok(g) if g == want => {}
            Ok(g) => {
                let mut v = case();
                v["first_difference_at"] = json!(g.iter().zip(want.iter()).position(|(a, b)| a != b));
                ctx.violation("C19:aead:seal-differs-from-rfc8439:large-input", v);
                return;
            }
            Err(p) => {
                ctx.violation(&format!("C19:aead:seal-panic:{}", panic_site(&p)), case());
                return;
            }
        }
        match guarded(|| chapoly_decrypt_ietf(&key, &nonce, &want, &aad)) {
            Ok(Ok(p)) if p == pt => {}
            Ok(r) => {
                let mut v = case();
                v["open_result"] = json!(match &r { Ok(p) => format!("Ok, first difference at {:?}", p.iter().zip(pt.iter()).position(|(a, b)| a != b)), Err(_) => "Err".to_string() });
                ctx.violation("C19:aead:open-does-not-invert-seal:large-input", v);
                return;
            }
            Err(p) => {
                ctx.violation(&format!("C19:aead:open-panic:{}", panic_site(&p)), case());
                return;
            }
        }
        // one flipped bit far into a large ciphertext must still be refused
        let mut bad = want.clone();
        let at = bad.len() / 2 + i;
        bad[at.min(want.len() - 1)] ^= 0x10;
        if !matches!(guarded(|| chapoly_decrypt_ietf(&key, &nonce, &bad, &aad)), Ok(Err(_))) {
            ctx.violation("C19:aead:tampered-large-ciphertext-accepted", case());
            return;
        }
        if sha256(&pt)[..] != ossl::sha256(&pt)[..] {
            ctx.violation("C19:sha256:differs", json!({"len": l}));
            return;
        }
        if hmac_sha256(&pt[..l.min(100_000)], &pt)[..] != ossl::hmac_sha256(&pt[..l.min(100_000)], &pt)[..] {
            ctx.violation("C19:hmac:differs", json!({"key_len": l.min(100_000), "data_len": l}));
            return;
        }
        ctx.seen("large input: AEAD seal/open, SHA-256 and HMAC equal OpenSSL");
        ctx.distinct(&format!("large|{}", l));
    });
    ctx.note("large_inputs", json!({"lengths": lens}));
}

fn aead_tamper(ctx: &Ctx) {
    let n = ctx.tier.pick(12, 600);
    par_for(n, crate::util::ncpu(), |i| {
        let mut rng = Rng::fork(ctx.seed, &format!("C19-tamper-{}", i));
        let key = rng.arr32();
        let nonce: [u8; 12] = rng.bytes(12).try_into().unwrap();
        let pt = rng.bytes_in(0, 48);
        let aad = rng.bytes_in(0, 24);
        let ct = ossl::aead_seal(&key, &nonce, &aad, &pt);
        let try_open = |what: &str, k: &[u8], n: &[u8], c: &[u8], a: &[u8]| {
            ctx.eval();
            let case = || json!({"altered": what, "key": hex(k), "nonce": hex(n), "aad": hex(a), "ciphertext": hex(c), "original_ciphertext": hex(&ct)});
            match guarded(|| chapoly_decrypt_ietf(k, n, c, a)) {
                Ok(Err(_)) => {
                    ctx.seen(&format!("aead open rejects altered {}", what.split(' ').next().unwrap()));
                }
                Ok(Ok(_)) => ctx.violation(&format!("C19:aead:open-accepts-altered-{}", what.split(' ').next().unwrap()), case()),
                Err(p) => ctx.violation(&format!("C19:aead:open-panic:{}", panic_site(&p)), case()),
            }
        };
        for b in 0..ct.len() * 8 {
            let mut x = ct.clone();
            x[b / 8] ^= 1 << (b % 8);
            try_open(if b / 8 < pt.len() { "ciphertext bit" } else { "tag bit" }, &key, &nonce, &x, &aad);
        }
        for b in 0..96 {
            let mut x = nonce;
            x[b / 8] ^= 1 << (b % 8);
            try_open("nonce bit", &key, &x, &ct, &aad);
        }
        for b in 0..256 {
            let mut x = key;
            x[b / 8] ^= 1 << (b % 8);
            try_open("key bit", &x, &nonce, &ct, &aad);
        }
        for b in 0..aad.len() * 8 {
            let mut x = aad.clone();
            x[b / 8] ^= 1 << (b % 8);
            try_open("aad bit", &key, &nonce, &ct, &x);
        }
        let mut longer = aad.clone();
        longer.push(0);
        try_open("aad extended", &key, &nonce, &ct, &longer);
        if !aad.is_empty() {
            try_open("aad truncated", &key, &nonce, &ct, &aad[..aad.len() - 1]);
        }
        // moving a byte between aad and ciphertext (canonicalisation)
        if !pt.is_empty() {
            let mut a2 = aad.clone();
            a2.push(ct[0]);
            try_open("aad/ciphertext boundary moved", &key, &nonce, &ct[1..], &a2);
        }
        let mut ext = ct.clone();
        ext.push(0);
        try_open("ciphertext extended", &key, &nonce, &ext, &aad);
        // every truncation, including inputs shorter than a tag
        for l in 0..ct.len() {
            try_open(if l < 16 { "ciphertext shorter-than-a-tag" } else { "ciphertext truncated" }, &key, &nonce, &ct[..l], &aad);
        }
        ctx.distinct(&format!("tamper|{}", i));
    });
    // every length 0..=15 of random bytes, both wrappers
    let mut rng = Rng::fork(ctx.seed, "C19-short");
    for l in 0..=15usize {
        for _ in 0..4 {
            let key = rng.arr32();
            let data = rng.bytes(l);
            ctx.eval();
            let case = || json!({"input_len": l, "input": hex(&data), "key": hex(&key)});
            match guarded(|| chapoly_decrypt_ietf(&key, &[0u8; 12], &data, &[])) {
                Ok(Err(_)) => ctx.seen("aead open rejects shorter-than-a-tag input"),
                Ok(Ok(_)) => ctx.violation("C19:aead:open-accepts-input-shorter-than-a-tag", case()),
                Err(p) => ctx.violation(&format!("C19:aead:open-panic:{}", panic_site(&p)), case()),
            }
            match guarded(|| verif_chapoly_decrypt_noise(&key, 7, &[], &data)) {
                Ok(Err(_)) => ctx.seen("aead open rejects shorter-than-a-tag input"),
                Ok(Ok(_)) => ctx.violation("C19:aead:open-accepts-input-shorter-than-a-tag", case()),
                Err(p) => ctx.violation(&format!("C19:aead:open-panic:{}", panic_site(&p)), case()),
            }
        }
    }
}

fn x25519_block(ctx: &Ctx) {
    let n = ctx.tier.pick(3000, 400_000);
    let shards = 64;
    par_for(shards, crate::util::ncpu(), |sidx| {
        let mut rng = Rng::fork(ctx.seed, &format!("C19-x-{}", sidx));
        for j in 0..n / shards {
            let a = rng.arr32();
            let b = rng.arr32();
            let mut u = rng.arr32();
            match j % 8 {
                0 => u[31] |= 0x80,                // top bit set: must be ignored
                1 => {
                    // non-canonical: p + small
                    u = [0xff; 32];
                    u[31] = 0x7f;
                    u[0] = 0xed + (j % 19) as u8;
                }
                2 => {
                    u = [0; 32];
                    u[0] = 2 + (j % 200) as u8;
                }
                _ => {}
            }
            ctx.eval();
            let want = x25519_raw(&a, &u);
            let got = guarded(|| x25519(&a, &u));
            let case = || json!({"scalar": hex(&a), "u": hex(&u), "rfc7748": hex(&want)});
            match &got {
                Ok(Ok(g)) if g[..] == want[..] && want != [0u8; 32] => {}
                Ok(Err(_)) if want == [0u8; 32] => {}
                Ok(Ok(_)) if want == [0u8; 32] => {
                    ctx.violation("C19:x25519:all-zero-result-not-an-error", case());
                    continue;
                }
                Ok(_) => {
                    ctx.violation("C19:x25519:differs-from-rfc7748", case());
                    continue;
                }
                Err(p) => {
                    ctx.violation(&format!("C19:x25519:panic:{}", panic_site(p)), case());
                    continue;
                }
            }
            // OpenSSL as a second opinion (canonical and non-canonical inputs alike)
            if let Some(o) = ossl::x25519(&a, &u) {
                if o != want {
                    ctx.inconclusive("ladder and OpenSSL disagree");
                }
            }
            // public derivation = multiplication of the base point; DH symmetry
            let pa = guarded(|| x25519_derive_public(&a));
            let pb = guarded(|| x25519_derive_public(&b));
            let (pa, pb) = match (pa, pb) {
                (Ok(Ok(x)), Ok(Ok(y))) => (x, y),
                _ => {
                    ctx.violation("C19:x25519:derive-public-failed", case());
                    continue;
                }
            };
            if pa[..] != x25519_raw(&a, &base_point())[..] || pa[..] != ossl::x25519_public(&a)[..] {
                ctx.violation("C19:x25519:public-key-is-not-scalar-times-base-point", json!({"scalar": hex(&a), "got": hex(&pa)}));
                continue;
            }
            let ab = guarded(|| x25519(&a, &pb));
            let ba = guarded(|| x25519(&b, &pa));
            match (&ab, &ba) {
                (Ok(Ok(x)), Ok(Ok(y))) if x == y => {}
                _ => {
                    ctx.violation("C19:x25519:diffie-hellman-not-symmetric", json!({"a": hex(&a), "b": hex(&b)}));
                    continue;
                }
            }
            // the PrivateKey / PublicKey wrappers agree with the free functions
            if j % 16 == 0 {
                let w = guarded(|| {
                    let ska = PrivateKey::try_from(&a[..]).unwrap();
                    let pkb = PublicKey::try_from(&pb[..]).unwrap();
                    (ska.to_public().map(|p| p.as_bytes().to_vec()), ska.diffie_hellman(&pkb))
                });
                match (&w, &ab) {
                    (Ok((Ok(p), Ok(d))), Ok(Ok(x))) if p[..] == pa[..] && d == x => {}
                    _ => {
                        ctx.violation("C19:x25519:wrapper-types-disagree-with-functions", json!({"a": hex(&a), "b": hex(&b)}));
                        continue;
                    }
                }
            }
            if j % 8 < 3 || j % 64 == 5 {
                ctx.distinct(&format!("x|{}|{}", sidx, j));
            }
        }
        ctx.seen_n("x25519 == RFC 7748 ladder, symmetric, public = k*9", (n / shards) as u64);
    });
    // the low-order set must give DhError for any scalar
    let mut rng = Rng::fork(ctx.seed, "C19-low");
    for lo in low_order_all() {
        for _ in 0..ctx.tier.pick(4, 40) {
            let k = rng.arr32();
            ctx.eval();
            match guarded(|| x25519(&k, &lo)) {
                Ok(Err(_)) => {
                    ctx.seen("x25519 low-order point -> DhError");
                    ctx.distinct(&format!("low|{}", hex(&lo)));
                }
                Ok(Ok(v)) => ctx.violation("C19:x25519:all-zero-result-not-an-error", json!({"scalar": hex(&k), "u": hex(&lo), "returned": hex(&v)})),
                Err(p) => ctx.violation(&format!("C19:x25519:panic:{}", panic_site(&p)), json!({"scalar": hex(&k), "u": hex(&lo)})),
            }
        }
    }
}

fn hash_block(ctx: &Ctx) {
    let mut rng = Rng::fork(ctx.seed, "C19-hash");
    // SHA-256: every length 0..=300, block boundaries around 64 KiB, 1 MiB
    let mut lens: Vec<usize> = (0..=300).collect();
    lens.extend_from_slice(&[4095, 4096, 65535, 65536, 65537, 1 << 20]);
    for l in lens {
        let d = rng.bytes(l);
        ctx.eval();
        match guarded(|| sha256(&d)) {
            Ok(h) if h[..] == ossl::sha256(&d)[..] => {
                ctx.seen("sha256 == OpenSSL");
                ctx.distinct(&format!("sha|{}", l));
            }
            Ok(_) => ctx.violation("C19:sha256:differs", json!({"len": l, "data": crate::util::hex_short(&d, 64)})),
            Err(p) => ctx.violation(&format!("C19:sha256:panic:{}", panic_site(&p)), json!({"len": l})),
        }
    }
    // HMAC: key lengths 0..=200 x data lengths
    for kl in 0..=200usize {
        for dl in [0usize, 1, 55, 56, 63, 64, 65, 200] {
            let k = rng.bytes(kl);
            let d = rng.bytes(dl);
            ctx.eval();
            match guarded(|| hmac_sha256(&k, &d)) {
                Ok(h) if h[..] == ossl::hmac_sha256(&k, &d)[..] => {
                    ctx.seen("hmac == OpenSSL");
                    ctx.distinct(&format!("hmac|{}|{}", kl, dl));
                }
                Ok(_) => ctx.violation("C19:hmac:differs", json!({"key": hex(&k), "data": hex(&d)})),
                Err(p) => ctx.violation(&format!("C19:hmac:panic:{}:keylen={}", panic_site(&p), if kl == 0 { "0" } else { ">0" }), json!({"key": hex(&k), "data": hex(&d)})),
            }
        }
    }
    // HKDF with the default (empty) salt first, then all-zero salts of every length around the HMAC block size:
    // RFC 5869 says an absent salt equals HashLen zeros, and HMAC hashes keys longer than 64 bytes first
    for (k, l) in [0usize, 1, 31, 32, 33, 63, 64, 65, 66, 96, 127, 128, 129, 200, 300, 0, 64, 65].iter().enumerate() {
        let salt = vec![0u8; *l];
        let ikm = rng.bytes(22);
        let info = rng.bytes_in(0, 10);
        ctx.eval();
        let want = ossl::hkdf_sha256(&salt, &ikm, &info, 42);
        match guarded(|| hkdf_sha256(&salt, &ikm, &info, 42)) {
            Ok(g) if g == want => {
                ctx.seen("hkdf == RFC 5869 for all-zero salts");
                ctx.distinct(&format!("hkdf0|{}|{}", k, l));
            }
            Ok(_) => ctx.violation(&format!("C19:hkdf:differs:all-zero-salt-{}", if *l > 64 { "longer-than-a-block" } else { "up-to-a-block" }), json!({"salt_len": l, "ikm": hex(&ikm), "info": hex(&info), "call_index": k})),
            Err(p) => ctx.violation(&format!("C19:hkdf:panic:{}", panic_site(&p)), json!({"salt_len": l})),
        }
    }
    // the opposite call order in a fresh process: long all-zero salt first, the empty salt afterwards
    {
        let me = std::env::current_exe().ok();
        if let Some(exe) = me {
            let wd = crate::cli::WorkDir::new("c19");
            let o = crate::cli::Cmd::new(&wd.path, &["c19-child"]).bin(exe).run();
            ctx.eval();
            let out = o.stdout_s();
            if o.exit == crate::cli::Exit::Code(0) && out.contains("C19-CHILD-OK") {
                ctx.seen("hkdf call-order independence (fresh process, long all-zero salt first)");
                ctx.distinct("hkdf-order");
            } else if out.contains("C19-CHILD-MISMATCH") {
                ctx.violation("C19:hkdf:value-depends-on-earlier-calls-in-the-process", json!({"child_output": out}));
            } else {
                ctx.inconclusive(&format!("c19 child did not run: {} {}", o.exit.describe(), o.stderr_s()));
            }
        }
    }
    // HKDF: salt/ikm/info lengths 0..300, output lengths 1..100 and the maximum
    let n = ctx.tier.pick(600, 6000);
    for i in 0..n {
        let salt = if i % 5 == 0 { vec![] } else { rng.bytes_in(0, 300) };
        let ikm = if i % 11 == 0 { vec![] } else { rng.bytes_in(0, 300) };
        let info = if i % 7 == 0 { vec![] } else { rng.bytes_in(0, 300) };
        let len = match i % 10 {
            0 => 255 * 32,
            1 => 255 * 32 - 1,
            2 => 32,
            3 => 33,
            _ => rng.range(1, 100),
        };
        ctx.eval();
        let want = ossl::hkdf_sha256(&salt, &ikm, &info, len);
        let case = || json!({"salt": hex(&salt), "ikm": hex(&ikm), "info": hex(&info), "len": len});
        match guarded(|| hkdf_sha256(&salt, &ikm, &info, len)) {
            Ok(g) if g == want => {
                ctx.seen("hkdf == RFC 5869 over OpenSSL HMAC");
                ctx.distinct(&format!("hkdf|{}|{}|{}|{}", salt.len(), ikm.len(), info.len(), len));
            }
            Ok(_) => ctx.violation("C19:hkdf:differs", case()),
            Err(p) => ctx.violation(&format!("C19:hkdf:panic:{}:{}", panic_site(&p), if ikm.is_empty() { "empty-ikm" } else if salt.is_empty() { "empty-salt" } else { "other" }), case()),
        }
    }
}

fn nonce_block(ctx: &Ctx) {
    let mut rng = Rng::fork(ctx.seed, "C19-nonce");
    let mut counters: Vec<u64> = vec![0, 1, 255, 256, 65535, 65536, (1 << 32) - 1, 1 << 32, 1 << 63, u64::MAX - 1];
    for b in 0..64 {
        counters.push(1 << b);
        counters.push((1u64 << b).wrapping_sub(1));
    }
    for _ in 0..ctx.tier.pick(300, 5000) {
        counters.push(rng.next().min(u64::MAX - 1));
    }
    for n in counters {
        let key = rng.arr32();
        let ad = rng.bytes_in(0, 16);
        let pt = rng.bytes_in(0, 32);
        ctx.eval();
        let want = ossl::aead_seal(&key, &refspec::noise_nonce(n), &ad, &pt);
        let got = guarded(|| verif_chapoly_encrypt_noise(&key, n, &ad, &pt));
        let back = guarded(|| verif_chapoly_decrypt_noise(&key, n, &ad, &want));
        if matches!(&got, Ok(g) if *g == want) && matches!(&back, Ok(Ok(b)) if *b == pt) {
            ctx.seen("noise nonce == 00000000 || LE64(counter)");
            ctx.distinct(&format!("nonce|{}", n));
        } else {
            ctx.violation("C19:noise-aead:nonce-layout", json!({"counter": n, "key": hex(&key), "ad": hex(&ad), "plaintext": hex(&pt), "want": hex(&want)}));
        }
    }
}

/// `kmon c19-child`: primitives called in an unusual order in a fresh process (state carried between calls).
pub fn child_main() {
    let mut bad = Vec::new();
    let calls: Vec<(Vec<u8>, &[u8], &[u8], usize)> = vec![(vec![0u8; 100], b"ikm-one", b"info", 42), (vec![], b"ikm-two", b"", 32), (vec![0u8; 32], b"ikm-3", b"x", 64), (vec![0u8; 65], b"ikm-4", b"", 16), (vec![], b"ikm-5", b"info", 42)];
    for (salt, ikm, info, len) in calls {
        let want = ossl::hkdf_sha256(&salt, ikm, info, len);
        match guarded(|| hkdf_sha256(&salt, ikm, info, len)) {
            Ok(g) if g == want => {}
            _ => bad.push(format!("salt=zeros({}) ikm={}", salt.len(), String::from_utf8_lossy(ikm))),
        }
    }
    // HMAC / SHA-256 repeated with interleaved inputs
    for i in 0..50usize {
        let k = vec![i as u8; i * 3 % 131];
        let d = vec![(i * 7) as u8; i % 70];
        if hmac_sha256(&k, &d)[..] != ossl::hmac_sha256(&k, &d)[..] || sha256(&d)[..] != ossl::sha256(&d)[..] {
            bad.push(format!("hmac/sha iteration {}", i));
        }
    }
    // AEAD and X25519: A, B, A again - with related inputs (same key other nonce, same nonce other key, aad/pt swapped)
    let mut rng = Rng::new(0xc19c);
    for i in 0..40usize {
        let key = rng.arr32();
        let key2 = if i % 2 == 0 { key } else { rng.arr32() };
        let n1: [u8; 12] = rng.bytes(12).try_into().unwrap();
        let n2 = if i % 3 == 0 { n1 } else { rng.bytes(12).try_into().unwrap() };
        let a = rng.bytes_in(0, 20);
        let p = rng.bytes_in(0, 70);
        let seq: Vec<(&[u8; 32], &[u8; 12], &[u8], &[u8])> = vec![(&key, &n1, &a, &p), (&key2, &n2, &p, &a), (&key, &n1, &a, &p), (&key2, &n1, &a, &a), (&key, &n2, &p, &p)];
        for (k, n, ad, pt) in seq {
            let want = ossl::aead_seal(k, n, ad, pt);
            let got = guarded(|| chapoly_encrypt_ietf(k, n, pt, ad));
            let back = guarded(|| chapoly_decrypt_ietf(k, n, &want, ad));
            if !matches!(&got, Ok(g) if *g == want) || !matches!(&back, Ok(Ok(b)) if b == pt) {
                bad.push(format!("aead sequence {}", i));
            }
        }
        let s1 = rng.arr32();
        let s2 = rng.arr32();
        let u = rng.arr32();
        for (k, uu) in [(&s1, &u), (&s2, &u), (&s1, &u), (&s1, &base_point()), (&s2, &base_point()), (&s1, &base_point())] {
            let want = x25519_raw(k, uu);
            match guarded(|| x25519(k, uu)) {
                Ok(Ok(g)) if g[..] == want[..] => {}
                Ok(Err(_)) if want == [0u8; 32] => {}
                _ => bad.push(format!("x25519 sequence {}", i)),
            }
        }
        if !matches!(guarded(|| x25519_derive_public(&s1)), Ok(Ok(g)) if g[..] == x25519_raw(&s1, &base_point())[..]) {
            bad.push(format!("derive_public sequence {}", i));
        }
    }
    if bad.is_empty() {
        println!("C19-CHILD-OK");
    } else {
        println!("C19-CHILD-MISMATCH {:?}", bad);
    }
}

pub fn run(ctx: &Ctx) {
    ctx.rule(
        "differential of every exported primitive against OpenSSL / the RFC 7748 ladder: AEAD seal/open on the full (|pt| 0..130) x (|aad| 0..40) grid for 3 keys; \
         tamper matrix (every bit of ciphertext, tag, nonce, key, aad; aad/ciphertext boundary; every truncation incl. shorter than a tag); X25519 on random, \
         non-canonical and low-order inputs with symmetry and base-point checks; SHA-256 0..300 and large; HMAC key lengths 0..200; HKDF salt/ikm/info 0..300 and \
         output 1..8160; Noise nonce over the whole u64 range. distinct_nontrivial counts distinct input-shape tuples per primitive",
    );
    ctx.assume("OpenSSL 3.0 primitives and the RFC 7748 ladder (self-tested) are the reference");
    aead_grid(ctx);
    aead_tamper(ctx);
    large_inputs(ctx);
    x25519_block(ctx);
    hash_block(ctx);
    nonce_block(ctx);
    ctx.require("large input: AEAD seal/open", 40);
    ctx.require("aead: seal == OpenSSL", 10_000);
    ctx.require("aead open rejects altered", 1000);
    ctx.require("x25519 == RFC 7748", 1000);
    ctx.require("x25519 low-order point -> DhError", 14);
    ctx.require("hkdf ==", 100);
    ctx.require("hkdf call-order independence", 1);
    ctx.require("hmac ==", 100);
    ctx.require("sha256 ==", 100);
    ctx.require("noise nonce ==", 100);
}
