//! C18 - scrypt equals RFC 7914 for all parameters, in the library and across the C ABI.
//! Lanes: (a) library differential vs OpenSSL on a covering grid; (b) the cdylib dlopen'ed
//! with canaried buffers; (c) C driver with exact-size heap buffers under valgrind memcheck
//! and AddressSanitizer; (d) the extern "C" wrapper under Miri; (e) NULL-for-empty inputs,
//! as C callers pass them, under Miri and against a debug-assertions build.

use crate::cli::{Cmd, Exit, WorkDir};
use crate::ctx::{verif_root, Ctx};
use crate::kio::{guarded, panic_site};
use crate::ossl;
use crate::util::{hex, par_for, Rng};
use serde_json::json;
use std::path::PathBuf;

const LENS: [usize; 6] = [0, 1, 63, 64, 65, 200];

fn library_grid(ctx: &Ctx) {
    // every (N, r) pair with rotating p, dkLen and input lengths; then seeded random tuples
    let mut cases: Vec<(u32, u32, u32, usize, usize, usize)> = Vec::new();
    let mut k = 0usize;
    for ln in 1..=15u32 {
        for r in 1..=16u32 {
            let n = 1u32 << ln;
            if 128usize * n as usize * r as usize > 64 << 20 {
                continue;
            }
            // keep N*r*p bounded so one case stays well under a second
            let pmax = ((1u64 << 21) / (n as u64 * r as u64)).clamp(1, 8) as u32;
            let p = 1 + (k as u32 % pmax);
            cases.push((n, r, p, 1 + (k * 37) % 200, LENS[k % 6], LENS[(k / 6) % 6]));
            k += 1;
        }
    }
    // every (r, p) and (N, p) pair at small cost
    for r in 1..=16u32 {
        for p in 1..=8u32 {
            cases.push((1 << (1 + (r + p) % 5), r, p, 1 + ((r * p) as usize % 200), LENS[(r as usize) % 6], LENS[(p as usize) % 6]));
        }
    }
    for ln in 1..=15u32 {
        for p in 1..=8u32 {
            if (1u64 << ln) * p as u64 <= 1 << 18 {
                cases.push((1 << ln, 1, p, 32, 5, 16));
            }
        }
    }
    let mut rng = Rng::fork(ctx.seed, "C18-grid");
    for _ in 0..ctx.tier.pick(150, 6000) {
        let ln = 1 + rng.below(12) as u32;
        let r = 1 + rng.below(16) as u32;
        let p = 1 + rng.below(8) as u32;
        if (1u64 << ln) * r as u64 * p as u64 > 1 << 17 {
            continue;
        }
        cases.push((1 << ln, r, p, rng.range(1, 200), rng.range(0, 220), rng.range(0, 220)));
    }
    // every dkLen 1..=200 once, and the production parameters
    for dk in 1..=200usize {
        cases.push((4, 1 + (dk as u32 % 3), 1 + (dk as u32 % 2), dk, dk % 7, dk % 5));
    }
    // parameters beyond 8 bits (a narrowing conversion somewhere would not show below 256)
    for big in [255u32, 256, 257, 300, 511, 512, 1024] {
        cases.push((2, big, 1, 32, 4, 8));
        cases.push((2, 1, big, 32, 4, 8));
        cases.push((4, big, 2, 17, 0, 1));
    }
    cases.push((1 << 16, 1, 1, 32, 3, 3));
    cases.push((1 << 17, 2, 1, 16, 3, 3));
    cases.push((32768, 8, 1, 32, 6, 16));
    cases.push((32768, 8, 1, 32, 0, 32));
    ctx.note("library_grid", json!({"cases": cases.len(), "covers": "every (N,r) with 128*N*r <= 64 MiB, every (r,p), every (N,p) within budget, every dkLen 1..200, input lengths {0,1,63,64,65,200} and random"}));
    par_for(cases.len(), crate::util::ncpu(), |i| {
        let (n, r, p, dk, pl, sl) = cases[i];
        let mut rng = Rng::fork(ctx.seed, &format!("C18-lib-{}", i));
        let pw = rng.bytes(pl);
        let salt = rng.bytes(sl);
        ctx.eval();
        let case = || json!({"password": hex(&pw), "salt": hex(&salt), "N": n, "r": r, "p": p, "dkLen": dk});
        let want = match ossl::scrypt(&pw, &salt, n as u64, r as u64, p as u64, dk) {
            Some(w) => w,
            None => {
                ctx.seen("oracle refused parameters (skipped)");
                return;
            }
        };
        match guarded(|| kestrel_crypto::scrypt(&pw, &salt, n, r, p, dk)) {
            Ok(got) if got == want => {
                ctx.seen("library scrypt == OpenSSL");
                ctx.distinct(&format!("lib|{}|{}|{}|{}|{}|{}", n, r, p, dk, pl, sl));
            }
            Ok(got) => {
                let mut v = case();
                v["got"] = json!(hex(&got));
                v["want"] = json!(hex(&want));
                let shape = if p > 1 { "p>1" } else if r > 1 { "r>1" } else { "r=p=1" };
                ctx.violation(&format!("C18:library:value-differs-from-rfc7914:{}", shape), v);
            }
            Err(pn) => ctx.violation(&format!("C18:library:panic:{}", panic_site(&pn)), case()),
        }
        if i == 7 {
            ctx.sample("library differential", 1, || case());
        }
    });
}


type Call = (Vec<u8>, Vec<u8>, u32, u32, u32, usize);

/// A sequence of calls whose inputs are related to one another (same bytes split differently between password and
/// salt, same inputs with shorter / longer output, one parameter changed, repeated, roles swapped).
fn related_calls(bytes: &[u8], n: u32, r: u32, p: u32) -> Vec<Call> {
    let l = bytes.len();
    let mut calls: Vec<Call> = Vec::new();
    // every split of the same concatenation, back to back, with a non-increasing output length
    for k in 0..=l {
        calls.push((bytes[..k].to_vec(), bytes[k..].to_vec(), n, r, p, 32usize.saturating_sub(k).max(1)));
    }
    // and with an increasing one
    for k in 0..=l {
        calls.push((bytes[..l - k].to_vec(), bytes[l - k..].to_vec(), n, r, p, 8 + k));
    }
    // same inputs: longer then shorter output, other parameters, and again
    calls.push((bytes.to_vec(), b"salt".to_vec(), n, r, p, 64));
    calls.push((bytes.to_vec(), b"salt".to_vec(), n, r, p, 16));
    calls.push((bytes.to_vec(), b"salt".to_vec(), n * 2, r, p, 16));
    calls.push((bytes.to_vec(), b"salt".to_vec(), n, r + 1, p, 16));
    calls.push((bytes.to_vec(), b"salt".to_vec(), n, r, p + 1, 16));
    calls.push((bytes.to_vec(), b"salt".to_vec(), n, r, p, 16));
    calls.push((b"salt".to_vec(), bytes.to_vec(), n, r, p, 16));
    calls.push((bytes.to_vec(), b"salt".to_vec(), n, r, p, 16));
    calls.push((bytes.to_vec(), b"salt".to_vec(), n, r, p, 17));
    calls
}

/// scrypt is a function of its arguments only: sequences of calls in ONE thread whose inputs are related
/// (same bytes split differently between password and salt, same inputs with other output lengths or
/// parameters, repeated calls) must each give the RFC value, whatever was computed just before.
fn call_sequences(ctx: &Ctx) {
    let mut rng = Rng::fork(ctx.seed, "C18-seq");
    let rounds = ctx.tier.pick(6, 60);
    for round in 0..rounds {
        let l = rng.range(0, 12);
        let bytes = rng.bytes(l);
        let (n, r, p) = (1u32 << rng.range(1, 5), rng.range(1, 3) as u32, rng.range(1, 2) as u32);
        let calls = related_calls(&bytes, n, r, p);
        let mut prev: Option<String> = None;
        for (pw, salt, n, r, p, dk) in calls {
            ctx.eval();
            let want = match ossl::scrypt(&pw, &salt, n as u64, r as u64, p as u64, dk) {
                Some(w) => w,
                None => continue,
            };
            let desc = format!("pw={} salt={} N={} r={} p={} dkLen={}", hex(&pw), hex(&salt), n, r, p, dk);
            match guarded(|| kestrel_crypto::scrypt(&pw, &salt, n, r, p, dk)) {
                Ok(g) if g == want => {
                    ctx.seen("call sequence: value independent of the previous call");
                    ctx.distinct(&format!("seq|{}|{}", round, desc));
                }
                Ok(g) => ctx.violation("C18:library:value-depends-on-the-previous-call", json!({"this_call": desc, "previous_call": prev, "got": hex(&g), "want": hex(&want)})),
                Err(pn) => ctx.violation(&format!("C18:library:panic:{}", panic_site(&pn)), json!({"this_call": desc})),
            }
            prev = Some(desc);
        }
    }
}

type ScryptFn = unsafe extern "C" fn(*const u8, usize, *const u8, usize, u32, u32, u32, *mut u8, usize);

fn ffi_paths() -> (PathBuf, PathBuf) {
    let so = std::env::var_os("KESTREL_FFI_SO").map(PathBuf::from).unwrap_or_else(|| PathBuf::from(format!("{}/harness/target/release/libkestrel_ffi.so", verif_root())));
    let dir = so.parent().unwrap().to_path_buf();
    (so, dir)
}

fn ffi_canaries(ctx: &Ctx) {
    let (so, _) = ffi_paths();
    let cpath = std::ffi::CString::new(so.to_string_lossy().as_bytes()).unwrap();
    let f: ScryptFn = unsafe {
        let h = libc::dlopen(cpath.as_ptr(), libc::RTLD_NOW | libc::RTLD_LOCAL);
        if h.is_null() {
            ctx.inconclusive(&format!("cannot dlopen {}", so.display()));
            return;
        }
        let sym = libc::dlsym(h, b"scrypt\0".as_ptr() as *const libc::c_char);
        if sym.is_null() {
            ctx.violation("C18:ffi:symbol-scrypt-missing", json!({"library": so.to_string_lossy()}));
            return;
        }
        std::mem::transmute::<*mut libc::c_void, ScryptFn>(sym)
    };
    let n_cases = ctx.tier.pick(400, 6000);
    let mut rng = Rng::fork(ctx.seed, "C18-ffi");
    for i in 0..n_cases {
        let n = 1u32 << rng.range(1, if i % 50 == 0 { 12 } else { 6 });
        let r = rng.range(1, 8) as u32;
        let p = rng.range(1, 4) as u32;
        let dk = if i % 5 == 0 { *rng.pick(&[1usize, 31, 32, 33, 63, 64, 65, 200]) } else { rng.range(1, 200) };
        let pl = if i % 3 == 0 { *rng.pick(&LENS) } else { rng.range(0, 100) };
        let sl = if i % 4 == 0 { *rng.pick(&LENS) } else { rng.range(0, 100) };
        const C: usize = 64;
        let mut out = vec![0x5Au8; C + dk + C];
        let mut pwb = rng.bytes(C + pl + C);
        let mut sb = rng.bytes(C + sl + C);
        let (pw_before, s_before) = (pwb.clone(), sb.clone());
        ctx.eval();
        unsafe { f(pwb.as_mut_ptr().add(C), pl, sb.as_mut_ptr().add(C), sl, n, r, p, out.as_mut_ptr().add(C), dk) };
        let case = || json!({"password": hex(&pw_before[C..C + pl]), "salt": hex(&s_before[C..C + sl]), "N": n, "r": r, "p": p, "dkLen": dk, "written": hex(&out[C..C + dk])});
        let want = match ossl::scrypt(&pw_before[C..C + pl], &s_before[C..C + sl], n as u64, r as u64, p as u64, dk) {
            Some(w) => w,
            None => continue,
        };
        if out[..C].iter().any(|b| *b != 0x5A) || out[C + dk..].iter().any(|b| *b != 0x5A) {
            ctx.violation("C18:ffi:wrote-outside-the-requested-bytes", case());
        } else if out[C..C + dk] != want[..] {
            let mut v = case();
            v["want"] = json!(hex(&want));
            ctx.violation("C18:ffi:value-differs-from-rfc7914", v);
        } else if pwb != pw_before || sb != s_before {
            ctx.violation("C18:ffi:input-buffers-modified", case());
        } else {
            ctx.seen("C ABI (dlopen, canaries): value == OpenSSL, canaries intact");
            ctx.distinct(&format!("ffi|{}|{}|{}|{}|{}|{}", n, r, p, dk, pl, sl));
        }
        if i == 3 {
            ctx.sample("C ABI call with canaries", 1, || case());
        }
    }
}


/// The same through the C ABI (one process, one thread, the library loaded once): each call of a related sequence
/// must write the RFC value for ITS OWN arguments - an exported function that remembers its last derivation would
/// answer from the memory.
fn ffi_call_sequences(ctx: &Ctx) {
    let (so, _) = ffi_paths();
    let cpath = std::ffi::CString::new(so.to_string_lossy().as_bytes()).unwrap();
    let f: ScryptFn = unsafe {
        let h = libc::dlopen(cpath.as_ptr(), libc::RTLD_NOW | libc::RTLD_LOCAL);
        if h.is_null() {
            ctx.inconclusive(&format!("cannot dlopen {}", so.display()));
            return;
        }
        let sym = libc::dlsym(h, b"scrypt\0".as_ptr() as *const libc::c_char);
        if sym.is_null() {
            return;
        }
        std::mem::transmute::<*mut libc::c_void, ScryptFn>(sym)
    };
    let mut rng = Rng::fork(ctx.seed, "C18-ffi-seq");
    for round in 0..ctx.tier.pick(6, 60) {
        let l = rng.range(1, 14);
        let bytes = rng.bytes(l);
        let (n, r, p) = (1u32 << rng.range(1, 5), rng.range(1, 3) as u32, rng.range(1, 2) as u32);
        let mut prev: Option<String> = None;
        for (pw, salt, n, r, p, dk) in related_calls(&bytes, n, r, p) {
            ctx.eval();
            let want = match ossl::scrypt(&pw, &salt, n as u64, r as u64, p as u64, dk) {
                Some(w) => w,
                None => continue,
            };
            const C: usize = 32;
            let mut out = vec![0xA5u8; C + dk + C];
            // exact-size copies so that an empty password / salt is passed as a dangling-but-aligned pointer with length 0
            let (pwc, sc) = (pw.clone(), salt.clone());
            unsafe { f(pwc.as_ptr(), pwc.len(), sc.as_ptr(), sc.len(), n, r, p, out.as_mut_ptr().add(C), dk) };
            let desc = format!("pw={} salt={} N={} r={} p={} dkLen={}", hex(&pw), hex(&salt), n, r, p, dk);
            if out[..C].iter().any(|b| *b != 0xA5) || out[C + dk..].iter().any(|b| *b != 0xA5) {
                ctx.violation("C18:ffi:wrote-outside-the-requested-bytes", json!({"this_call": desc, "previous_call": prev}));
            } else if out[C..C + dk] != want[..] {
                ctx.violation("C18:ffi:value-depends-on-the-previous-call", json!({"this_call": desc, "previous_call": prev, "got": hex(&out[C..C + dk]), "want": hex(&want)}));
            } else {
                ctx.seen("C ABI call sequence: value independent of the previous call");
                ctx.distinct(&format!("ffiseq|{}|{}", round, desc));
            }
            prev = Some(desc);
        }
    }
}


/// `kmon c18-ffi-child <tier> <seed>`: the lanes that call the C function inside the calling process.
pub fn ffi_child_main(args: &[String]) {
    let tier = if args.get(2).map(|s| s.as_str()) == Some("thorough") { crate::ctx::Tier::Thorough } else { crate::ctx::Tier::Quick };
    let seed: u64 = args.get(3).and_then(|s| s.parse().ok()).unwrap_or(1);
    let ctx = Ctx::new("C18", tier, seed, "exploration");
    let body = std::panic::catch_unwind(std::panic::AssertUnwindSafe(|| {
        ffi_canaries(&ctx);
        ffi_call_sequences(&ctx);
    }));
    if body.is_err() {
        ctx.inconclusive("the monitor itself panicked in the C ABI lanes");
    }
    ctx.emit_child();
}

/// The C function is called inside a CHILD of the monitor: if a call takes the process down (abort across the C
/// boundary, segmentation fault) that is an observation about the function - "writes exactly that value ... and touches
/// nothing else" - not the end of the monitor.
fn ffi_lanes_in_a_child(ctx: &Ctx) {
    let exe = match std::env::current_exe() {
        Ok(e) => e,
        Err(_) => {
            ctx.inconclusive("C18: cannot find the monitor's own executable");
            return;
        }
    };
    let wd = WorkDir::new("c18ffi");
    let seed_s = ctx.seed.to_string();
    let mut c = crate::cli::Cmd::new(&wd.path, &["c18-ffi-child", ctx.tier.name(), &seed_s]).bin(exe).env("VERIF_ROOT", &verif_root());
    for k in ["KESTREL_FFI_SO", "KESTREL_FFI_A", "HOME", "PATH", "LD_LIBRARY_PATH"] {
        if let Ok(v) = std::env::var(k) {
            c = c.env(k, &v);
        }
    }
    c.timeout = std::time::Duration::from_secs(ctx.tier.pick(900, 7200));
    let o = c.run();
    if ctx.absorb(&o.stdout_s(), "in-process C ABI") {
        ctx.seen("C ABI lanes ran in a child process to the end");
    } else {
        match &o.exit {
            crate::cli::Exit::Timeout => ctx.inconclusive("C18 C ABI child: watchdog fired"),
            other => ctx.violation(&format!("C18:ffi:a-call-of-the-C-function-took-the-process-down:{}", other.describe().replace(' ', "-")), json!({"exit": other.describe(), "stderr": o.stderr_s().chars().take(1500).collect::<String>(), "note": "the child process that dlopens the library and calls scrypt() with exact-size buffers did not finish"})),
        }
    }
}

fn compile_driver(ctx: &Ctx, wd: &WorkDir, cc: &str, extra: &[&str], lib: &[&str], out: &str) -> Option<PathBuf> {
    let exe = wd.file(out);
    let src = format!("{}/harness/ffi-driver/drv.c", verif_root());
    let mut args: Vec<String> = vec!["-O1".into(), "-g".into(), "-I/repo/src/ffi".into(), "-o".into(), exe.to_string_lossy().into_owned()];
    args.extend(extra.iter().map(|s| s.to_string()));
    args.push(src);
    args.extend(lib.iter().map(|s| s.to_string()));
    args.extend(["-lcrypto", "-lpthread", "-ldl", "-lm"].iter().map(|s| s.to_string()));
    let a: Vec<&str> = args.iter().map(|s| s.as_str()).collect();
    let o = Cmd::new(&wd.path, &a).bin(cc.into()).env("PATH", "/usr/bin:/bin").run();
    if o.exit != Exit::Code(0) {
        ctx.inconclusive(&format!("cannot compile the C driver with {}: {}", cc, o.stderr_s().chars().take(300).collect::<String>()));
        return None;
    }
    Some(exe)
}

fn judge_driver(ctx: &Ctx, lane: &str, o: &crate::cli::Output, what: &str) {
    ctx.eval();
    let text = o.stdout_s();
    let oks = text.lines().filter(|l| l.starts_with("OK ")).count() as u64;
    let mism: Vec<&str> = text.lines().filter(|l| l.starts_with("MISMATCH")).collect();
    let case = || json!({"lane": lane, "what": what, "exit": o.exit.describe(), "stdout_tail": text.lines().rev().take(5).collect::<Vec<_>>(), "stderr": o.stderr_s().chars().take(1500).collect::<String>()});
    if !mism.is_empty() {
        ctx.violation(&format!("C18:{}:value-differs-from-rfc7914", lane), case());
        return;
    }
    match &o.exit {
        Exit::Code(0) if text.contains("DONE ") => {
            ctx.seen_n(&format!("{}: cases clean", lane), oks);
            ctx.distinct(&format!("{}|{}", lane, what));
        }
        Exit::Timeout => ctx.inconclusive(&format!("{}: timeout", lane)),
        other => {
            let err = o.stderr_s();
            let kind = if err.contains("AddressSanitizer") {
                "addresssanitizer-report"
            } else if err.contains("Invalid write") || err.contains("Invalid read") || err.contains("ERROR SUMMARY") {
                "memcheck-report"
            } else if err.contains("unsafe precondition") {
                "unsafe-precondition-violated"
            } else {
                "abnormal-exit"
            };
            let _ = other;
            ctx.violation(&format!("C18:{}:{}", lane, kind), case());
        }
    }
}

fn driver_lanes(ctx: &Ctx) {
    let wd = WorkDir::new("c18");
    let (_, libdir) = ffi_paths();
    let ld = libdir.to_string_lossy().into_owned();
    // (c1) valgrind memcheck on the release cdylib
    if let Some(exe) = compile_driver(ctx, &wd, "/usr/bin/gcc", &[], &[&format!("-L{}", ld), "-lkestrel_ffi"], "drv") {
        let cases = ctx.tier.pick(40, 400).to_string();
        let exe_s = exe.to_string_lossy().into_owned();
        for seed in 0..ctx.tier.pick(2, 6) {
            let seed_s = (ctx.seed * 100 + seed).to_string();
            let o = Cmd::new(&wd.path, &["-q", "--error-exitcode=9", "--errors-for-leak-kinds=definite", "--leak-check=full", &exe_s, &seed_s, &cases, "0"])
                .bin("/usr/bin/valgrind".into())
                .env("LD_LIBRARY_PATH", &ld)
                .run();
            judge_driver(ctx, "valgrind-memcheck", &o, &format!("seed {}", seed_s));
            if seed == 0 {
                ctx.sample("C driver under valgrind", 1, || json!({"command": format!("valgrind -q --error-exitcode=9 drv {} {} 0", seed_s, cases), "last_lines": o.stdout_s().lines().rev().take(3).collect::<Vec<_>>()}));
            }
        }
        // (e1) NULL for zero-length inputs against a debug-assertions build of the library:
        // std's unsafe-precondition checks abort the process on from_raw_parts(NULL, 0)
        let chk = format!("{}/harness/target/checked", verif_root());
        if std::path::Path::new(&format!("{}/libkestrel_ffi.so", chk)).exists() {
            let seed_s = ctx.seed.to_string();
            let o = Cmd::new(&wd.path, &[&seed_s, "80", "1"]).bin(exe.clone()).env("LD_LIBRARY_PATH", &chk).run();
            judge_driver(ctx, "null-for-empty-input(debug-assertions build)", &o, "NULL passed for zero-length password/salt");
            let o = Cmd::new(&wd.path, &[&seed_s, "80", "0"]).bin(exe.clone()).env("LD_LIBRARY_PATH", &chk).run();
            judge_driver(ctx, "debug-assertions build", &o, "non-NULL pointers");
        } else {
            ctx.inconclusive("checked-profile libkestrel_ffi.so missing");
        }
    }
    // (c2) AddressSanitizer build (nightly), clang driver
    let asan_a = format!("{}/harness/target-asan/x86_64-unknown-linux-gnu/release/libkestrel_ffi.a", verif_root());
    if std::path::Path::new(&asan_a).exists() {
        if let Some(exe) = compile_driver(ctx, &wd, "/usr/bin/clang-14", &["-fsanitize=address"], &[&asan_a], "drv-asan") {
            let cases = ctx.tier.pick(60, 600).to_string();
            for seed in 0..ctx.tier.pick(1, 4) {
                let seed_s = (ctx.seed * 100 + 50 + seed).to_string();
                let o = Cmd::new(&wd.path, &[&seed_s, &cases, "0"]).bin(exe.clone()).env("ASAN_OPTIONS", "halt_on_error=1:abort_on_error=0:detect_leaks=1:exitcode=23").run();
                judge_driver(ctx, "addresssanitizer", &o, &format!("seed {}", seed_s));
            }
        }
    } else {
        ctx.inconclusive("ASan static library missing (check script builds it with the nightly toolchain)");
    }
}

pub fn miri_run(ctx: &Ctx, mode: &str, seed: u64, timeout_s: u64) -> Option<crate::cli::Output> {
    miri_run_flags(ctx, mode, seed, timeout_s, "")
}

pub fn miri_run_flags(ctx: &Ctx, mode: &str, seed: u64, timeout_s: u64, extra_flags: &str) -> Option<crate::cli::Output> {
    let manifest = format!("{}/harness/miri/Cargo.toml", verif_root());
    let home = std::env::var("HOME").unwrap_or_else(|_| "/root".into());
    let path = std::env::var("PATH").unwrap_or_else(|_| "/usr/bin:/bin".into());
    let seed_s = seed.to_string();
    let mut cmd = Cmd::new(std::path::Path::new(&format!("{}/harness/miri", verif_root())), &["+nightly", "miri", "run", "--quiet", "--manifest-path", &manifest, "--", mode, &seed_s])
        .bin(which("cargo", &path)?)
        .env("HOME", &home)
        .env("PATH", &path)
        .env("CARGO_NET_OFFLINE", "true")
        .env("CARGO_TERM_COLOR", "never")
        .env("MIRIFLAGS", &format!("-Zmiri-disable-isolation {}", extra_flags));
    for k in ["RUSTUP_HOME", "CARGO_HOME"] {
        if let Ok(v) = std::env::var(k) {
            cmd = cmd.env(k, &v);
        }
    }
    cmd.timeout = std::time::Duration::from_secs(timeout_s);
    let o = cmd.run();
    if o.exit == Exit::Timeout {
        ctx.inconclusive(&format!("miri {}: watchdog fired after {} s", mode, timeout_s));
        return None;
    }
    Some(o)
}

fn which(name: &str, path: &str) -> Option<PathBuf> {
    for d in path.split(':') {
        let p = PathBuf::from(d).join(name);
        if p.exists() {
            return Some(p);
        }
    }
    for d in ["/root/.cargo/bin", "/usr/local/cargo/bin", "/usr/local/bin"] {
        let p = PathBuf::from(d).join(name);
        if p.exists() {
            return Some(p);
        }
    }
    None
}

/// Classify a Miri run. Returns true if clean.
pub fn judge_miri(ctx: &Ctx, prop: &str, mode: &str, o: &crate::cli::Output) -> bool {
    ctx.eval();
    let out = o.stdout_s();
    let err = o.stderr_s();
    let case = || json!({"mode": mode, "exit": o.exit.describe(), "stdout": out.chars().take(400).collect::<String>(), "stderr": err.lines().filter(|l| !l.trim().is_empty()).take(40).collect::<Vec<_>>()});
    if err.contains("Undefined Behavior") {
        let what = err.lines().find(|l| l.contains("Undefined Behavior")).unwrap_or("").trim();
        let kind = if what.contains("null reference") || what.contains("null pointer") {
            "null-reference"
        } else if what.contains("out-of-bounds") {
            "out-of-bounds"
        } else if what.contains("uninitialized") {
            "uninitialized-read"
        } else if what.contains("dangling") || what.contains("freed") {
            "use-after-free"
        } else {
            "other"
        };
        ctx.violation(&format!("{}:miri:{}:undefined-behavior:{}", prop, mode, kind), case());
        return false;
    }
    if let Some(l) = out.lines().find(|l| l.starts_with("KMIRI-INCONCLUSIVE")) {
        ctx.inconclusive(&format!("miri {}: {}", mode, l.trim()));
        return false;
    }
    if let Some(l) = out.lines().find(|l| l.starts_with("KMIRI-FAIL")) {
        let what: String = l.trim_start_matches("KMIRI-FAIL").trim().chars().take(60).collect();
        ctx.violation(&format!("{}:miri:{}:{}", prop, mode, what), case());
        return false;
    }
    if o.exit == Exit::Code(0) && out.contains("KMIRI-OK") {
        let n: u64 = out.split("cases=").nth(1).and_then(|s| s.split_whitespace().next()).and_then(|s| s.parse().ok()).unwrap_or(1);
        ctx.seen_n(&format!("miri {}: cases clean", mode), n);
        ctx.distinct(&format!("miri|{}", mode));
        return true;
    }
    if err.contains("error: could not compile") || err.contains("error[E") {
        ctx.inconclusive(&format!("miri {}: harness did not compile: {}", mode, err.lines().find(|l| l.starts_with("error")).unwrap_or("")));
    } else if err.contains("panicked at") {
        ctx.violation(&format!("{}:miri:{}:panic", prop, mode), case());
    } else {
        ctx.inconclusive(&format!("miri {}: unrecognised outcome ({}): {}", mode, o.exit.describe(), err.lines().last().unwrap_or("")));
    }
    false
}

fn miri_lanes(ctx: &Ctx) {
    let full = ctx.tier == crate::ctx::Tier::Thorough;
    let modes: Vec<&str> = if full { vec!["c18-full", "c18-null-full"] } else { vec!["c18", "c18-null"] };
    let outs = crate::util::par_map(modes.len(), modes.len(), |i| miri_run(ctx, modes[i], ctx.seed, if full { 1500 } else { 600 }));
    for (m, o) in modes.iter().zip(outs.into_iter()) {
        if let Some(o) = o {
            judge_miri(ctx, "C18", m, &o);
            ctx.sample("miri run", 2, || json!({"mode": m, "stdout": o.stdout_s().trim()}));
        }
    }
}

pub fn run(ctx: &Ctx) {
    ctx.rule(
        "library lane: single-threaded sequences of related calls (same bytes split differently between password and salt, other lengths/parameters, repeats) each compared with OpenSSL; kestrel_crypto::scrypt vs OpenSSL EVP_PBE_scrypt on a covering grid (every (N,r) pair within 64 MiB, every (r,p), (N,p) within budget, every \
         dkLen 1..200, password/salt lengths {0,1,63,64,65,200} and random); C ABI lanes: dlopen'ed cdylib with 64-byte canaries around output and input buffers; C \
         driver with exact-size heap buffers under valgrind memcheck and AddressSanitizer; the extern \"C\" wrapper under Miri with exact-size allocations, with \
         dangling-non-null and with NULL pointers for zero-length inputs; the NULL variant also against a debug-assertions build. distinct_nontrivial counts distinct \
         parameter tuples (library, C ABI) plus sanitizer lanes that ran clean",
    );
    ctx.assume("OpenSSL EVP_PBE_scrypt is RFC 7914 (self-tested on the RFC vectors)");
    ctx.assume("memory limit: tuples with 128*N*r > 64 MiB are not driven");
    call_sequences(ctx);
    library_grid(ctx);
    ffi_lanes_in_a_child(ctx);
    driver_lanes(ctx);
    miri_lanes(ctx);
    ctx.require("library scrypt == OpenSSL", 300);
    ctx.require("call sequence: value independent of the previous call", 50);
    ctx.require("C ABI (dlopen, canaries)", 100);
    ctx.require("C ABI call sequence: value independent of the previous call", 50);
    ctx.require("valgrind-memcheck: cases clean", 20);
}
