//! Drivers: call the real kestrel-crypto entry points through scripted I/O, classify the
//! result, catch panics. This is the only place where the code under test is invoked for
//! the stream properties.

use crate::ioscript::{Fault, Log, Sched, ScriptedReader, ScriptedWriter};
use kestrel_crypto::decrypt::{key_decrypt, pass_decrypt, verif_decrypt_chunks};
use kestrel_crypto::encrypt::{key_encrypt, pass_encrypt, verif_encrypt_chunks};
use kestrel_crypto::errors::{DecryptError, EncryptError};
use kestrel_crypto::{AsymFileFormat, PassFileFormat, PayloadKey, PrivateKey, PublicKey};
use std::cell::RefCell;
use std::io::ErrorKind;
use std::panic::{catch_unwind, AssertUnwindSafe};

#[derive(Clone, Debug, PartialEq)]
pub enum Outcome {
    /// success; for key_decrypt carries the reported sender key
    Ok(Option<[u8; 32]>),
    ChunkLen,
    ChaPoly,
    UnexpectedData,
    IORead(ErrorKind, String),
    IOWrite(ErrorKind, String),
    Other(String),
    Panic(String),
}

impl Outcome {
    pub fn is_ok(&self) -> bool {
        matches!(self, Outcome::Ok(_))
    }
    pub fn is_err(&self) -> bool {
        !matches!(self, Outcome::Ok(_) | Outcome::Panic(_))
    }
    pub fn class(&self) -> String {
        match self {
            Outcome::Ok(_) => "Ok".into(),
            Outcome::ChunkLen => "ChunkLen".into(),
            Outcome::ChaPoly => "ChaPolyDecrypt".into(),
            Outcome::UnexpectedData => "UnexpectedData".into(),
            Outcome::IORead(k, _) => format!("IORead({:?})", k),
            Outcome::IOWrite(k, _) => format!("IOWrite({:?})", k),
            Outcome::Other(m) => format!("Other({})", m),
            Outcome::Panic(_) => "PANIC".into(),
        }
    }
}

thread_local! {
    static LAST_PANIC: RefCell<String> = RefCell::new(String::new());
}

/// Install a panic hook that records the message and location instead of printing.
pub fn install_quiet_panic_hook() {
    std::panic::set_hook(Box::new(|info| {
        let msg = if let Some(s) = info.payload().downcast_ref::<&str>() {
            s.to_string()
        } else if let Some(s) = info.payload().downcast_ref::<String>() {
            s.clone()
        } else {
            "<non-string panic>".to_string()
        };
        let loc = info.location().map(|l| format!("{}:{}", l.file(), l.line())).unwrap_or_default();
        LAST_PANIC.with(|p| *p.borrow_mut() = format!("{} @ {}", msg, loc));
        if std::env::var("KMON_SHOW_PANICS").is_ok() {
            eprintln!("panic: {} @ {}", msg, loc);
        }
    }));
}

/// Run `f`, returning Err(panic description) if it panicked.
pub fn guarded<T>(f: impl FnOnce() -> T) -> Result<T, String> {
    match catch_unwind(AssertUnwindSafe(f)) {
        Ok(v) => Ok(v),
        Err(_) => Err(LAST_PANIC.with(|p| p.borrow().clone())),
    }
}

/// Strip the file path down so signatures are stable: "msg @ file:line" -> "file: msg-prefix".
pub fn panic_site(desc: &str) -> String {
    let (msg, loc) = desc.rsplit_once(" @ ").unwrap_or((desc, ""));
    let file = loc.rsplit('/').next().unwrap_or(loc);
    let file = file.split(':').next().unwrap_or(file);
    let m: String = msg.chars().take(48).collect();
    format!("{}:{}", file, m)
}

fn enc_outcome(r: Result<Result<(), EncryptError>, String>) -> Outcome {
    match r {
        Err(p) => Outcome::Panic(p),
        Ok(Ok(())) => Outcome::Ok(None),
        Ok(Err(EncryptError::UnexpectedData)) => Outcome::UnexpectedData,
        Ok(Err(EncryptError::IORead(e))) => Outcome::IORead(e.kind(), e.to_string()),
        Ok(Err(EncryptError::IOWrite(e))) => Outcome::IOWrite(e.kind(), e.to_string()),
        Ok(Err(EncryptError::Other(m))) => Outcome::Other(m),
        // a variant added to the enum later must not stop the monitor from compiling
        #[allow(unreachable_patterns)]
        Ok(Err(other)) => Outcome::Other(format!("unlisted EncryptError variant: {}", other)),
    }
}

fn dec_err(e: DecryptError) -> Outcome {
    match e {
        DecryptError::ChunkLen => Outcome::ChunkLen,
        DecryptError::ChaPolyDecrypt => Outcome::ChaPoly,
        DecryptError::UnexpectedData => Outcome::UnexpectedData,
        DecryptError::IORead(e) => Outcome::IORead(e.kind(), e.to_string()),
        DecryptError::IOWrite(e) => Outcome::IOWrite(e.kind(), e.to_string()),
        DecryptError::Other(m) => Outcome::Other(m),
        #[allow(unreachable_patterns)]
        other => Outcome::Other(format!("unlisted DecryptError variant: {}", other)),
    }
}

/// I/O script of one call: schedules and injected faults for both sides.
#[derive(Clone, Debug)]
pub struct Io {
    pub rs: Sched,
    pub ws: Sched,
    pub rfaults: Vec<(usize, Fault)>,
    pub wfaults: Vec<(usize, Fault)>,
    pub ffaults: Vec<(usize, ErrorKind)>,
    /// the sink implements write_vectored natively (short counts across slices)
    pub vectored: bool,
}

impl Io {
    pub fn plain() -> Io {
        Io { rs: Sched::all(), ws: Sched::all(), rfaults: vec![], wfaults: vec![], ffaults: vec![], vectored: false }
    }
    pub fn new(rs: Sched, ws: Sched) -> Io {
        Io { rs, ws, rfaults: vec![], wfaults: vec![], ffaults: vec![], vectored: false }
    }
    pub fn describe(&self) -> String {
        format!(
            "reads={} writes={}{} rfaults={:?} wfaults={:?} ffaults={:?}",
            self.rs.describe(),
            self.ws.describe(),
            if self.vectored { " (native write_vectored)" } else { "" },
            self.rfaults,
            self.wfaults,
            self.ffaults
        )
    }
}

pub struct Run {
    pub outcome: Outcome,
    pub out: Vec<u8>,
    pub log: Log,
}

fn mk(input: &[u8], io: &Io) -> (ScriptedReader, ScriptedWriter, Log) {
    let log = Log::new();
    let mut r = ScriptedReader::new(input, io.rs.clone(), &log);
    r.faults = io.rfaults.clone();
    let mut w = ScriptedWriter::new(io.ws.clone(), &log);
    w.faults = io.wfaults.clone();
    w.flush_faults = io.ffaults.clone();
    w.vectored = io.vectored;
    (r, w, log)
}

pub fn sk(b: &[u8; 32]) -> PrivateKey {
    PrivateKey::try_from(&b[..]).unwrap()
}
pub fn pk(b: &[u8; 32]) -> PublicKey {
    PublicKey::try_from(&b[..]).unwrap()
}

pub struct KeyEnc<'a> {
    pub s_priv: &'a [u8; 32],
    pub s_pub: &'a [u8; 32],
    pub r_pub: &'a [u8; 32],
    /// injected ephemeral private key (public derived by the real code's own to_public)
    pub e_priv: Option<[u8; 32]>,
    pub payload: Option<[u8; 32]>,
}

/// Which halves of the ephemeral key pair are handed to key_encrypt (the API takes two Options).
#[derive(Clone, Copy, PartialEq, Debug)]
pub enum EHalves {
    /// both (injected ephemeral) or none, depending on e_priv
    Consistent,
    /// only the private half: the documented behaviour is that fresh keys are generated
    PrivateOnly,
    /// only the public half
    PublicOnly,
}

thread_local! {
    pub static E_HALVES: std::cell::Cell<EHalves> = const { std::cell::Cell::new(EHalves::Consistent) };
}

pub fn key_encrypt_run(pt: &[u8], io: &Io, k: &KeyEnc) -> Run {
    let (mut r, mut w, log) = mk(pt, io);
    let sink = w.sink();
    let res = guarded(|| {
        let s = sk(k.s_priv);
        let spub = pk(k.s_pub);
        let rpub = pk(k.r_pub);
        let e = k.e_priv.map(|e| sk(&e));
        let epub = match &e {
            Some(e) => Some(e.to_public().map_err(|_| EncryptError::Other("kmon: to_public failed".into()))?),
            None => None,
        };
        let pl = k.payload.map(|p| PayloadKey::new(&p));
        let (ea, pa) = match E_HALVES.with(|h| h.get()) {
            EHalves::Consistent => (e.as_ref(), epub.as_ref()),
            EHalves::PrivateOnly => (e.as_ref(), None),
            EHalves::PublicOnly => (None, epub.as_ref()),
        };
        key_encrypt(&mut r, &mut w, &s, &spub, &rpub, ea, pa, pl.as_ref(), AsymFileFormat::V1)
    });
    let out = sink.borrow().clone();
    Run { outcome: enc_outcome(res), out, log }
}

pub fn key_decrypt_run(ct: &[u8], io: &Io, r_priv: &[u8; 32], r_pub: &[u8; 32]) -> Run {
    let (mut r, mut w, log) = mk(ct, io);
    let sink = w.sink();
    let res = guarded(|| key_decrypt(&mut r, &mut w, &sk(r_priv), &pk(r_pub), AsymFileFormat::V1));
    let outcome = match res {
        Err(p) => Outcome::Panic(p),
        Ok(Ok(pubk)) => match <[u8; 32]>::try_from(pubk.as_bytes()) {
            Ok(a) => Outcome::Ok(Some(a)),
            Err(_) => Outcome::Other("kmon: sender key is not 32 bytes".into()),
        },
        Ok(Err(e)) => dec_err(e),
    };
    let out = sink.borrow().clone();
    Run { outcome, out, log }
}

pub fn pass_encrypt_run(pt: &[u8], io: &Io, password: &[u8], salt: [u8; 32]) -> Run {
    let (mut r, mut w, log) = mk(pt, io);
    let sink = w.sink();
    let res = guarded(|| pass_encrypt(&mut r, &mut w, password, salt, PassFileFormat::V1));
    let out = sink.borrow().clone();
    Run { outcome: enc_outcome(res), out, log }
}

pub fn pass_decrypt_run(ct: &[u8], io: &Io, password: &[u8]) -> Run {
    let (mut r, mut w, log) = mk(ct, io);
    let sink = w.sink();
    let res = guarded(|| pass_decrypt(&mut r, &mut w, password, PassFileFormat::V1));
    let outcome = match res {
        Err(p) => Outcome::Panic(p),
        Ok(Ok(())) => Outcome::Ok(None),
        Ok(Err(e)) => dec_err(e),
    };
    let out = sink.borrow().clone();
    Run { outcome, out, log }
}

pub fn chunks_encrypt_run(pt: &[u8], io: &Io, key: &[u8; 32], aad: &[u8], c: u32) -> Run {
    let (mut r, mut w, log) = mk(pt, io);
    let sink = w.sink();
    let res = guarded(|| verif_encrypt_chunks(&mut r, &mut w, key, aad, c));
    let out = sink.borrow().clone();
    Run { outcome: enc_outcome(res), out, log }
}

pub fn chunks_decrypt_run(ct: &[u8], io: &Io, key: &[u8; 32], aad: &[u8], c: u32) -> Run {
    let (mut r, mut w, log) = mk(ct, io);
    let sink = w.sink();
    let res = guarded(|| verif_decrypt_chunks(&mut r, &mut w, key, aad, c));
    let outcome = match res {
        Err(p) => Outcome::Panic(p),
        Ok(Ok(())) => Outcome::Ok(None),
        Ok(Err(e)) => dec_err(e),
    };
    let out = sink.borrow().clone();
    Run { outcome, out, log }
}
