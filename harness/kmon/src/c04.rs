//! C04 - only authenticated plaintext is ever released: in order, in whole chunks.
//! Offline checker over the interleaved read/write event log of a decrypt call, against the
//! reference decoding of the *presented* bytes ("authenticated prefix").

use crate::c03::{mk_key_file, small_scenarios, KeyWorld};
use crate::cli::{Cmd, Exit, Ident, WorkDir};
use crate::ctx::Ctx;
use crate::edits::{small_edits, SmallScenario};
use crate::ioscript::{Fault, Op, Res, Sched};
use crate::kio::{chunks_decrypt_run, key_decrypt_run, pass_decrypt_run, Io, Outcome, Run};
use crate::refspec::{self, Body, BodyEnd};
use crate::util::{hex, hex_short, par_for, Rng};
use serde_json::{json, Value};
use std::io::ErrorKind;

/// Judge one decrypt execution. `body` is the reference decoding of the presented bytes
/// (None if the header itself does not authenticate: then nothing may be written at all).
/// `sink_faulted`: a write/flush fault was injected (partial chunks are then unavoidable).
pub fn check_log(ctx: &Ctx, scope: &str, what: &str, run: &Run, body: Option<&Body>, sink_faulted: bool, case: &dyn Fn() -> Value) -> bool {
    ctx.eval();
    let full = |extra: &str| {
        let mut v = case();
        v["class"] = json!(what);
        v["result"] = json!(run.outcome.class());
        v["written"] = json!(hex_short(&run.out, 64));
        v["trace"] = json!(run.log.shape().chars().take(600).collect::<String>());
        v["detail"] = json!(extra);
        v
    };
    if let Outcome::Panic(p) = &run.outcome {
        ctx.violation(&format!("C04:{}:panic:{}", scope, crate::kio::panic_site(p)), full(p));
        return false;
    }
    let empty = Body { chunks: vec![], end: BodyEnd::AuthFail };
    let body = body.unwrap_or(&empty);
    let verified = body.plaintext();
    // chunk boundaries in plaintext offsets and the record end each chunk needs
    let mut bounds = vec![0usize];
    for c in &body.chunks {
        bounds.push(bounds.last().unwrap() + c.plaintext.len());
    }
    let mut read_pos = 0usize;
    let mut writes_judged = 0u64;
    for e in run.log.events() {
        match (&e.op, &e.res) {
            (Op::Read, Res::N(_)) => read_pos = e.pos_after,
            (Op::Write, Res::N(n)) if *n > 0 => {
                writes_judged += 1;
                let (a, b) = (e.at, e.at + n);
                if b > verified.len() {
                    ctx.violation(&format!("C04:{}:wrote-beyond-authenticated-prefix", scope), full(&format!("write [{}..{}) but only {} bytes are authenticated", a, b, verified.len())));
                    return false;
                }
                if run.out[a..b] != verified[a..b] {
                    ctx.violation(&format!("C04:{}:wrote-bytes-that-differ-from-authentic-plaintext", scope), full(&format!("write [{}..{})", a, b)));
                    return false;
                }
                for (i, c) in body.chunks.iter().enumerate() {
                    let (ca, cb) = (bounds[i], bounds[i + 1]);
                    if ca < b && a < cb && read_pos < c.end {
                        ctx.violation(
                            &format!("C04:{}:chunk-written-before-its-record-was-fully-read", scope),
                            full(&format!("write [{}..{}) touches chunk {} whose record ends at {}, reader was at {}", a, b, i, c.end, read_pos)),
                        );
                        return false;
                    }
                }
            }
            _ => {}
        }
    }
    ctx.seen_n("write events judged", writes_judged);
    if run.out.len() > verified.len() || run.out[..] != verified[..run.out.len()] {
        ctx.violation(&format!("C04:{}:sink-is-not-a-prefix-of-authenticated-plaintext", scope), full(""));
        return false;
    }
    if !sink_faulted && !bounds.contains(&run.out.len()) {
        ctx.violation(&format!("C04:{}:partial-chunk-left-in-sink", scope), full(&format!("sink has {} bytes, chunk boundaries are {:?}", run.out.len(), bounds)));
        return false;
    }
    if run.outcome.is_ok() {
        if body.end != BodyEnd::Complete {
            ctx.violation(&format!("C04:{}:success-without-verified-final-chunk-at-eof", scope), full(&format!("reference says {:?}", body.end)));
            return false;
        }
        if run.out != verified {
            ctx.violation(&format!("C04:{}:success-with-incomplete-output", scope), full(""));
            return false;
        }
    } else if !run.out.is_empty() {
        ctx.seen("failing runs with >=1 chunk already released");
    }
    true
}

fn io_of(k: usize, rng: &mut Rng) -> Io {
    match k % 4 {
        0 => Io::plain(),
        1 => Io::new(Sched::fixed(1), Sched::fixed(1)),
        2 => Io::new(Sched::all(), Sched::random(rng, 12, 3)),
        _ => Io::new(Sched::random(rng, 24, 11), Sched::fixed(2)),
    }
}

/// Every stop point of one (file, io) pair: a fault at each read / write / flush call index.
fn stop_points(ctx: &Ctx, scope: &str, what: &str, f: &[u8], base: &Io, body: Option<&Body>, dec: &dyn Fn(&[u8], &Io) -> Run, case: &dyn Fn() -> Value) {
    let clean = dec(f, base);
    let (r, w, fl) = (clean.log.count(Op::Read), clean.log.count(Op::Write), clean.log.count(Op::Flush));
    for i in 0..r {
        for k in [ErrorKind::Other, ErrorKind::Interrupted, ErrorKind::UnexpectedEof] {
            let mut io = base.clone();
            io.rfaults.push((i, Fault::Kind(k)));
            let run = dec(f, &io);
            let c2 = || {
                let mut v = case();
                v["fault"] = json!(format!("read call {} fails with {:?}", i, k));
                v
            };
            if check_log(ctx, scope, what, &run, body, false, &c2) {
                ctx.distinct(&format!("{}|{}|{}|r{}|{:?}|{}", scope, what, f.len(), i, k, clean.log.shape().len()));
                ctx.seen(&format!("{}: read fault delivered", scope));
            }
        }
    }
    for i in 0..w {
        for flt in [Fault::Kind(ErrorKind::Other), Fault::Zero, Fault::Kind(ErrorKind::Interrupted)] {
            let mut io = base.clone();
            io.wfaults.push((i, flt.clone()));
            let run = dec(f, &io);
            let c2 = || {
                let mut v = case();
                v["fault"] = json!(format!("write call {} fails with {:?}", i, flt));
                v
            };
            // an Interrupted write is retried by write_all: not a sink fault for the whole-chunk rule
            let faulted = flt != Fault::Kind(ErrorKind::Interrupted);
            if check_log(ctx, scope, what, &run, body, faulted, &c2) {
                ctx.distinct(&format!("{}|{}|{}|w{}|{:?}", scope, what, f.len(), i, flt));
                ctx.seen(&format!("{}: write fault delivered", scope));
            }
        }
    }
    for i in 0..fl {
        let mut io = base.clone();
        io.ffaults.push((i, ErrorKind::Other));
        let run = dec(f, &io);
        let c2 = || {
            let mut v = case();
            v["fault"] = json!(format!("flush call {} fails", i));
            v
        };
        if check_log(ctx, scope, what, &run, body, true, &c2) {
            ctx.distinct(&format!("{}|{}|{}|f{}", scope, what, f.len(), i));
            ctx.seen(&format!("{}: flush fault delivered", scope));
        }
    }
}

fn small_block(ctx: &Ctx) {
    let scen = small_scenarios(ctx.tier.pick(5, 7), 3);
    par_for(scen.len(), crate::util::ncpu(), |i| {
        let (c, aad, len, chunking) = &scen[i];
        let mut rng = Rng::fork(ctx.seed, &format!("C04-small-{}", i));
        let pt = rng.bytes(*len);
        let sc = SmallScenario::new(rng.arr32(), aad, *c, &pt, chunking, &mut rng);
        let mut rng2 = rng.clone();
        let mut k = 0usize;
        let mut seen_ops: std::collections::HashMap<String, usize> = std::collections::HashMap::new();
        let dec = |f: &[u8], io: &Io| chunks_decrypt_run(f, io, &sc.key, &sc.aad, *c as u32);
        small_edits(&sc, &mut rng, &mut |op, f| {
            k += 1;
            let body = refspec::decode_body(&f, 0, &sc.key, &sc.aad, *c);
            let io = io_of(k, &mut rng2);
            let case = || json!({"operator": op, "presented": hex(&f), "authentic": hex(&sc.auth.bytes), "key": hex(&sc.key), "aad": hex(&sc.aad), "chunk_size": c, "io": io.describe()});
            let run = dec(&f, &io);
            if check_log(ctx, "small", op, &run, Some(&body), false, &case) && !body.chunks.is_empty() {
                ctx.distinct(&format!("small|{}|{}|{}", i, op, k));
            }
            // full stop-point enumeration on the valid file, every truncation and the first few of each operator
            let cnt = seen_ops.entry(op.to_string()).or_insert(0);
            *cnt += 1;
            let limit = if op == "identity" || op == "truncate" { usize::MAX } else { ctx.tier.pick(2, 6) };
            if *cnt <= limit && !(op == "truncate" && ctx.tier == crate::ctx::Tier::Quick && k % 3 != 0) {
                stop_points(ctx, "small", op, &f, &io, Some(&body), &dec, &case);
            }
            if i == 30 && op == "rewrite-last-flag+drop-tail" {
                ctx.sample("small-scope log", 2, || json!({"operator": op, "presented": hex(&f), "trace": run.log.shape(), "result": run.outcome.class(), "authenticated_prefix_len": body.plaintext().len()}));
            }
        });
    });
}

fn production_block(ctx: &Ctx) {
    let rounds = ctx.tier.pick(3, 30);
    par_for(rounds, crate::util::ncpu(), |round| {
        let mut rng = Rng::fork(ctx.seed, &format!("C04-prod-{}", round));
        let w = KeyWorld::new(&mut rng);
        let nchunks = round % 5; // 0..4 full chunks + a tail
        let mut chunking = vec![65536usize; nchunks];
        chunking.push(if round % 2 == 0 { 777 } else { 65536 });
        let pt = rng.bytes(chunking.iter().sum());
        let f = mk_key_file(&w.s, &w.r_pub, &pt, &chunking, &mut rng);
        let recs = f.records();
        let dec = |x: &[u8], io: &Io| key_decrypt_run(x, io, &w.r, &w.r_pub);
        let refdec = |x: &[u8]| refspec::decode_key_file(x, &w.r, &w.r_pub).ok().map(|d| d.body);
        let mut variants: Vec<(String, Vec<u8>)> = vec![("valid".into(), f.bytes.clone())];
        for (k, r) in recs.iter().enumerate() {
            let mut x = f.bytes.clone();
            x[r.0 + 20] ^= 0x40;
            variants.push((format!("tamper-ciphertext-chunk-{}", k), x));
            let mut x = f.bytes.clone();
            x[r.1 - 1] ^= 1;
            variants.push((format!("tamper-tag-chunk-{}", k), x));
            variants.push((format!("truncate-inside-chunk-{}", k), f.bytes[..(r.0 + r.1) / 2].to_vec()));
            variants.push((format!("truncate-at-end-of-chunk-{}", k), f.bytes[..r.1 - if k + 1 == recs.len() { 1 } else { 0 }].to_vec()));
            let mut x = f.bytes.clone();
            x[r.0 + 11] ^= 1;
            variants.push((format!("flip-last-flag-chunk-{}", k), x));
        }
        let mut x = f.bytes.clone();
        x.extend_from_slice(b"trailing");
        variants.push(("trailing-data".into(), x));
        let mut x = f.bytes.clone();
        x[50] ^= 1;
        variants.push(("tamper-handshake".into(), x));
        for (vi, (name, x)) in variants.iter().enumerate() {
            let body = refdec(x);
            let io = match vi % 3 {
                0 => Io::plain(),
                1 => Io::new(Sched::fixed(4096), Sched::fixed(10000)),
                _ => Io::new(Sched::random(&mut rng, 32, 70000), Sched::random(&mut rng, 16, 70000)),
            };
            let case = || json!({"variant": name, "chunking": chunking, "recipient_private": hex(&w.r), "file_len": x.len(), "io": io.describe(), "round": round});
            let run = dec(x, &io);
            if check_log(ctx, "production", name, &run, body.as_ref(), false, &case) {
                ctx.distinct(&format!("prod|{}|{}", round, name));
            }
            if name == "valid" || vi % ctx.tier.pick(4, 1) == 0 {
                stop_points(ctx, "production", name, x, &io, body.as_ref(), &dec, &case);
            }
        }
    });
    // password mode: one 2-chunk file, valid + tampered second chunk, all stop points
    let mut rng = Rng::fork(ctx.seed, "C04-pass");
    let pw = b"pw".to_vec();
    let salt = rng.arr32();
    let pt = rng.bytes(65536 + 5);
    let f = refspec::encode_pass_file(&pw, &salt, &pt, &[65536, 5]);
    let key = refspec::pass_key(&pw, &salt);
    let mut t = f.clone();
    let l = t.len();
    t[l - 3] ^= 1;
    for (name, x) in [("valid", &f), ("tamper-last-chunk", &t)] {
        let body = refspec::decode_pass_file_with_key(x, &|_| key).ok().map(|d| d.body);
        let dec = |y: &[u8], io: &Io| pass_decrypt_run(y, io, &pw);
        let case = || json!({"variant": name, "mode": "password", "password": hex(&pw), "file_len": x.len()});
        let run = dec(x, &Io::plain());
        check_log(ctx, "production", name, &run, body.as_ref(), false, &case);
        stop_points(ctx, "production", name, x, &Io::plain(), body.as_ref(), &dec, &case);
    }
}

/// CLI layer: `kestrel decrypt -o FILE` on files corrupted in chunk k -> FILE equals the
/// authenticated prefix and the exit status is 1.
fn cli_block(ctx: &Ctx) {
    let mut rng = Rng::fork(ctx.seed, "C04-cli");
    let alice = Ident::new("alice", "apw", &mut rng);
    let bob = Ident::new("bob", "bpw", &mut rng);
    let wd = WorkDir::new("c04");
    wd.write("kr.txt", crate::cli::keyring_text(&[(&alice, true), (&bob, true)]).as_bytes());
    let chunking = vec![65536usize, 65536, 300];
    let pt = rng.bytes(chunking.iter().sum());
    let f = refspec::encode_key_file(&alice.sk, &alice.pk, &bob.pk, &rng.arr32(), &rng.arr32(), &pt, &chunking).unwrap();
    let recs = crate::edits::record_ranges(&chunking, 132);
    let mut cases: Vec<(String, Vec<u8>, usize, bool)> = vec![("valid".into(), f.clone(), pt.len(), true)];
    for k in 0..3 {
        let mut x = f.clone();
        x[recs[k].0 + 100] ^= 4;
        cases.push((format!("corrupt-chunk-{}", k), x, k * 65536, false));
        cases.push((format!("truncate-in-chunk-{}", k), f[..recs[k].0 + 40].to_vec(), k * 65536, false));
    }
    // destination states: absent; an existing longer, unrelated file; a symbolic link to such a file (nothing of the
    // old content may survive a write, and all of it must survive when nothing was authenticated)
    let all: Vec<(usize, usize)> = (0..cases.len()).flat_map(|c| (0..3).map(move |d| (c, d))).collect();
    for (ci, dest) in all {
        let (name, bytes, prefix_len, ok) = &cases[ci];
        let name = &format!("{}{}", name, ["", " onto a longer existing file", " through a symbolic link to a longer existing file"][dest]);
        let inp = wd.write(&format!("in{}-{}.ktl", ci, dest), bytes);
        let outp = wd.file(&format!("out{}-{}.bin", ci, dest));
        let stale: Vec<u8> = (0..pt.len() + 50_000).map(|i| (i % 253) as u8 ^ 0x5a).collect();
        let prefilled = dest >= 1;
        if dest == 1 {
            std::fs::write(&outp, &stale).unwrap();
        } else if dest == 2 {
            let target = wd.file(&format!("target{}-{}.bin", ci, dest));
            std::fs::write(&target, &stale).unwrap();
            let _ = std::os::unix::fs::symlink(target.file_name().unwrap(), &outp);
        }
        let o = Cmd::new(&wd.path, &["decrypt", inp.to_str().unwrap(), "-t", "bob", "-o", outp.to_str().unwrap(), "-k", "kr.txt", "--env-pass"]).pass("bpw").run();
        ctx.eval();
        let got = std::fs::read(&outp).unwrap_or_default();
        let case = || json!({"variant": name, "command": "kestrel decrypt IN -t bob -o OUT -k kr.txt --env-pass", "exit": o.exit.describe(), "stderr": o.stderr_s(), "output_len": got.len(), "expected_prefix_len": prefix_len});
        if o.exit == Exit::Timeout {
            ctx.inconclusive("C04 cli: child timed out");
            continue;
        }
        let want_exit = if *ok { Exit::Code(0) } else { Exit::Code(1) };
        if o.exit != want_exit {
            ctx.violation(&format!("C04:cli:wrong-exit-status:{}", if *ok { "valid" } else { "corrupted" }), case());
        } else if prefilled && *prefix_len == 0 && !*ok {
            // nothing was authenticated, so nothing may be written: the old file must still be there untouched (cf. C13)
            if got != stale {
                ctx.violation("C04:cli:existing-destination-altered-although-nothing-was-authenticated", case());
            } else {
                ctx.seen(&format!("cli: {} -> {} and the existing destination is untouched", name, o.exit.describe()));
                ctx.distinct(&format!("cli|{}", name));
            }
        } else if got != pt[..*prefix_len] {
            ctx.violation("C04:cli:output-file-is-not-the-authenticated-prefix", case());
        } else {
            ctx.seen(&format!("cli: {} -> {} with {} bytes", name, o.exit.describe(), got.len()));
            ctx.distinct(&format!("cli|{}", name));
        }
        ctx.sample("cli decrypt of corrupted file", 2, || case());
    }
}

/// stdout is a non-blocking pipe read slowly: whatever arrives must be a prefix of the plaintext, and
/// exit 0 only with all of it.
fn cli_nonblocking_sink(ctx: &Ctx) {
    use crate::cli::Stdout;
    let mut rng = Rng::fork(ctx.seed, "C04-cli-nb");
    let alice = Ident::new("alice", "apw", &mut rng);
    let bob = Ident::new("bob", "bpw", &mut rng);
    let wd = WorkDir::new("c04n");
    wd.write("kr.txt", crate::cli::keyring_text(&[(&alice, true), (&bob, true)]).as_bytes());
    let pt = rng.bytes(200_000);
    let chunking = refspec::natural_chunking(pt.len(), 65536);
    let kf = refspec::encode_key_file(&alice.sk, &alice.pk, &bob.pk, &rng.arr32(), &rng.arr32(), &pt, &chunking).unwrap();
    let pf = refspec::encode_pass_file(b"ppw", &rng.arr32(), &pt, &chunking);
    wd.write("k.ktl", &kf);
    wd.write("p.ktl", &pf);
    for (mode, args, pw) in [("key", vec!["decrypt", "k.ktl", "-t", "bob", "-k", "kr.txt", "--env-pass"], "bpw"), ("password", vec!["password", "decrypt", "p.ktl", "--env-pass"], "ppw")] {
        for (first, pause) in [(20_000usize, 400u64), (1usize, 300), (70_000, 300)] {
            let o = Cmd::new(&wd.path, &args).pass(pw).stdout(Stdout::SlowNonBlocking { first, pause_ms: pause }).run();
            ctx.eval();
            let got = &o.stdout;
            let is_prefix = got.len() <= pt.len() && got[..] == pt[..got.len()];
            let case = || json!({"mode": mode, "sink": format!("non-blocking pipe; reader takes {} bytes, pauses {} ms, drains", first, pause), "exit": o.exit.describe(), "stderr": o.stderr_s(), "bytes_received": got.len(), "plaintext_len": pt.len(), "received_is_prefix": is_prefix});
            match &o.exit {
                Exit::Timeout => ctx.inconclusive("C04 cli: timeout on the non-blocking sink"),
                _ if !is_prefix => ctx.violation("C04:cli:bytes-delivered-to-a-slow-sink-are-not-a-prefix-of-the-plaintext", case()),
                Exit::Code(0) if got.len() != pt.len() => ctx.violation("C04:cli:success-reported-with-incomplete-output", case()),
                Exit::Code(0) | Exit::Code(1) => {
                    ctx.seen(&format!("cli: slow non-blocking sink -> {} with a clean prefix", o.exit.describe()));
                    ctx.distinct(&format!("cli-nb|{}|{}", mode, first));
                }
                other => ctx.violation(&format!("C04:cli:abnormal-termination:{}", other.describe()), case()),
            }
        }
    }
}

/// Plaintext sink that goes away before the final chunk: success must not be reported.
fn cli_closed_sink(ctx: &Ctx) {
    use crate::cli::{Stdin, Stdout};
    let mut rng = Rng::fork(ctx.seed, "C04-cli-pipe");
    let alice = Ident::new("alice", "apw", &mut rng);
    let bob = Ident::new("bob", "bpw", &mut rng);
    let wd = WorkDir::new("c04p");
    wd.write("kr.txt", crate::cli::keyring_text(&[(&alice, true), (&bob, true)]).as_bytes());
    let pt = rng.bytes(65536 * 4 + 10);
    let chunking = refspec::natural_chunking(pt.len(), 65536);
    let kf = refspec::encode_key_file(&alice.sk, &alice.pk, &bob.pk, &rng.arr32(), &rng.arr32(), &pt, &chunking).unwrap();
    let pf = refspec::encode_pass_file(b"ppw", &rng.arr32(), &pt, &chunking);
    wd.write("k.ktl", &kf);
    wd.write("p.ktl", &pf);
    for (mode, args, pw, stdin) in [
        ("key", vec!["decrypt", "k.ktl", "-t", "bob", "-k", "kr.txt", "--env-pass"], "bpw", Stdin::Null),
        ("password", vec!["password", "decrypt", "p.ktl", "--env-pass"], "ppw", Stdin::Null),
        ("password, input from stdin", vec!["password", "decrypt", "--env-pass"], "ppw", Stdin::Bytes(pf.clone())),
    ] {
        let o = Cmd::new(&wd.path, &args).pass(pw).stdin(stdin).stdout(Stdout::ClosedPipe).run();
        ctx.eval();
        let case = || json!({"mode": mode, "sink": "stdout is a pipe whose reader is gone", "exit": o.exit.describe(), "stderr": o.stderr_s()});
        match &o.exit {
            Exit::Code(1) => {
                ctx.seen("cli: plaintext sink closed before the final chunk -> exit 1");
                ctx.distinct(&format!("cli-closed|{}", mode));
            }
            Exit::Code(0) => ctx.violation("C04:cli:success-reported-although-the-final-chunk-was-never-delivered", case()),
            Exit::Timeout => ctx.inconclusive("C04 cli: timeout"),
            other => ctx.violation(&format!("C04:cli:abnormal-termination:{}", other.describe()), case()),
        }
    }
}

pub fn run(ctx: &Ctx) {
    ctx.rule(
        "each execution is one real decrypt call over a scripted reader/writer; the monitor replays its event log against the reference decoding of the \
         presented bytes: every write event must carry the next bytes of the authenticated plaintext, of a chunk whose whole record the reader has already \
         consumed; the sink ends on a chunk boundary unless the sink itself faulted; Ok only with a verified final chunk at EOF. Stop points: a fault at \
         every read / write / flush call index of each (file, schedule) pair. distinct_nontrivial counts distinct (file class, operator instance or stop point) \
         executions in which the reference authenticates at least one chunk or a fault was delivered",
    );
    ctx.assume("the trailing-data probe is not required to precede the final write (the statement does not ask for it)");
    ctx.assume("reference decoder (OpenSSL) defines the authenticated prefix");
    small_block(ctx);
    production_block(ctx);
    if !crate::lib_only() {
        cli_block(ctx);
        cli_closed_sink(ctx);
        cli_nonblocking_sink(ctx);
        crate::ttylanes::c04_no_controlling_terminal(ctx);
    }
    ctx.require("no controlling terminal", 3);
    ctx.require("cli: plaintext sink closed", 3);
    ctx.require("cli: slow non-blocking sink", 4);
    ctx.require("write events judged", 1000);
    ctx.require("failing runs with >=1 chunk already released", 50);
    ctx.require("small: read fault delivered", 100);
    ctx.require("small: write fault delivered", 100);
    ctx.require("small: flush fault delivered", 50);
    ctx.require("production: write fault delivered", 10);
    ctx.require("cli: ", 5);
}
