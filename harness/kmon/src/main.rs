//! kmon - runtime monitors for the kestrel properties C01..C20 (see /verif/DESIGN.md).
//!
//!   kmon <Cxx> <quick|thorough> [--replay FILE]
//!   kmon selftest

#![allow(clippy::too_many_arguments)]

// The real keyring implementation of the CLI, compiled from the working tree.
#[cfg(feature = "kr")]
#[allow(dead_code)]
#[path = "/repo/src/cli/src/errors.rs"]
mod errors;
#[cfg(feature = "kr")]
#[allow(dead_code)]
#[path = "/repo/src/cli/src/keyring.rs"]
mod keyring;

mod c01;
mod c02;
mod c03;
mod c04;
mod c05;
mod c06;
mod c07;
mod c08;
mod c09;
mod c10;
mod c11;
mod c12;
mod c13;
mod c14;
#[cfg(feature = "kr")]
mod c15;
mod c15cli;
mod c16;
#[cfg(feature = "kr")]
mod c17;
mod c17cli;
mod c18;
mod c19;
mod c20;
#[allow(dead_code)]
#[path = "../../common/allocmon.rs"]
mod allocmon;
mod cli;
mod tty;
mod ttylanes;
mod edits;
mod ctx;
mod ioscript;
mod kio;
mod ossl;
mod refspec;
mod streams;
mod util;
mod x25519_ref;

use ctx::{Ctx, Tier};

#[global_allocator]
static GLOBAL: allocmon::Mon = allocmon::Mon;

/// True in the release-profile child lane: library workloads only (the CLI lanes always drive the shipped
/// release binary, so repeating them would add nothing).
pub fn lib_only() -> bool {
    std::env::var_os("KMON_LIB_ONLY").is_some()
}

/// Properties whose library workloads are repeated by a child process built with the plain `release`
/// profile (no debug assertions, no overflow checks): behaviour that differs between build profiles.
fn release_lane(prop: &str, tier: Tier) -> bool {
    match prop {
        "C01" | "C03" | "C04" | "C05" | "C06" | "C07" | "C08" | "C10" | "C17" | "C19" | "C20" => true,
        "C02" | "C15" | "C18" => tier == Tier::Thorough,
        _ => false,
    }
}

fn level_of(prop: &str) -> &'static str {
    match prop {
        "C04" | "C10" | "C13" => "fault_enumeration",
        _ => "exploration",
    }
}

fn main() {
    let args: Vec<String> = std::env::args().collect();
    if args.len() < 2 {
        eprintln!("usage: kmon <Cxx> <quick|thorough> [--replay FILE] | kmon selftest");
        std::process::exit(2);
    }
    kio::install_quiet_panic_hook();
    if args[1] == "selftest" {
        match refspec::selftest().and_then(|_| refspec::selftest_fixtures()) {
            Ok(()) => {
                println!("refspec selftest ok");
                std::process::exit(0)
            }
            Err(e) => {
                println!("refspec selftest FAILED: {}", e);
                std::process::exit(2)
            }
        }
    }
    if args[1] == "c19-child" {
        c19::child_main();
        return;
    }
    if args[1] == "c18-ffi-child" {
        c18::ffi_child_main(&args);
        return;
    }
    if args[1] == "c09-child" {
        c09::child_main(&args);
        return;
    }
    #[cfg(feature = "kr")]
    if args[1] == "golden-gen" {
        c06::golden_gen();
        return;
    }
    let prop = args[1].clone();
    let mut tier = match args.get(2).map(|s| s.as_str()) {
        Some("thorough") => Tier::Thorough,
        _ => Tier::Quick,
    };
    let mut seed: u64 = std::env::var("VERIF_SEED").ok().and_then(|s| s.trim().parse::<u64>().ok()).unwrap_or(1);
    let mut replay_sig = None;
    if let Some(i) = args.iter().position(|a| a == "--replay") {
        let fail = |m: String| -> ! {
            println!("INCONCLUSIVE: {}", m);
            std::process::exit(2)
        };
        let path = match args.get(i + 1) {
            Some(p) => p,
            None => fail("--replay needs a file".into()),
        };
        let text = match std::fs::read_to_string(path) {
            Ok(t) => t,
            Err(e) => fail(format!("cannot read replay file {}: {}", path, e)),
        };
        let v: serde_json::Value = match serde_json::from_str(&text) {
            Ok(v) => v,
            Err(e) => fail(format!("replay file {} is not JSON: {}", path, e)),
        };
        seed = v["seed"].as_u64().unwrap_or(seed);
        if v["tier"].as_str() == Some("thorough") {
            tier = Tier::Thorough;
        } else {
            tier = Tier::Quick;
        }
        replay_sig = v["signature"].as_str().map(|s| s.to_string());
        println!("replaying {} tier={} seed={} signature={:?}", prop, tier.name(), seed, replay_sig);
    }
    let mut ctx = Ctx::new(&prop, tier, seed, level_of(&prop));
    ctx.replay_filter = replay_sig;
    // the context lives for the whole process so that the global watchdog below can close the run
    let ctx: &'static Ctx = Box::leak(Box::new(ctx));
    // Global wall-clock watchdog (generous: 40 min quick, 6 h thorough). A monitor that is stuck - on a
    // child that never answers, a FIFO nobody opens, a lock - must end the run as INCONCLUSIVE with what was
    // observed so far (violations already recorded are still reported), never hang the caller.
    if !args.iter().any(|a| a == "--child") {
        let limit = std::env::var("VERIF_WATCHDOG_S").ok().and_then(|s| s.parse::<u64>().ok()).unwrap_or(tier.pick(2400, 21600));
        std::thread::spawn(move || {
            std::thread::sleep(std::time::Duration::from_secs(limit));
            ctx.inconclusive(&format!("global watchdog fired after {} s: the monitor did not finish (stuck lane); verdict covers only what had been observed", limit));
            std::process::exit(ctx.finish());
        });
    }

    if let Err(e) = refspec::selftest().and_then(|_| refspec::selftest_fixtures()) {
        ctx.inconclusive(&format!("oracle self-test failed: {}", e));
        std::process::exit(ctx.finish());
    }

    // a bug in a monitor must never look like a verdict: a panic outside the guarded calls is reported
    // as inconclusive, with its message
    let is_child = args.iter().any(|a| a == "--child");
    let body = std::panic::catch_unwind(std::panic::AssertUnwindSafe(|| run_property(&prop, ctx)));
    if is_child {
        if let Err(e) = &body {
            let msg = e.downcast_ref::<&str>().map(|s| s.to_string()).or_else(|| e.downcast_ref::<String>().cloned()).unwrap_or_default();
            ctx.inconclusive(&format!("the monitor itself panicked: {}", msg));
        }
        ctx.emit_child();
        std::process::exit(0);
    }
    if body.is_ok() && release_lane(&prop, tier) {
        let bin = std::env::var("KMON_RELEASE").unwrap_or_else(|_| format!("{}/harness/target/release/kmon", ctx::verif_root()));
        if std::path::Path::new(&bin).exists() {
            let wd = cli::WorkDir::new("rel");
            let seed_s = seed.to_string();
            let mut c = cli::Cmd::new(&wd.path, &[&prop, tier.name(), "--child"]).bin(bin.into()).env("VERIF_SEED", &seed_s).env("VERIF_ROOT", &ctx::verif_root()).env("KMON_LIB_ONLY", "1");
            for k in ["HOME", "PATH"] {
                if let Ok(v) = std::env::var(k) {
                    c = c.env(k, &v);
                }
            }
            c.timeout = std::time::Duration::from_secs(3600);
            let o = c.run();
            if ctx.absorb(&o.stdout_s(), "release build") {
                ctx.seen("release-profile lane finished");
            } else {
                match &o.exit {
                    cli::Exit::Timeout => ctx.inconclusive("release-profile lane: watchdog fired"),
                    other => ctx.violation(&format!("{}:release-profile-lane:process-died:{}", prop, other.describe()), serde_json::json!({"stderr": o.stderr_s().chars().take(1000).collect::<String>()})),
                }
            }
        } else {
            ctx.inconclusive("release build of kmon missing");
        }
    }
    if let Err(e) = body {
        let msg = e.downcast_ref::<&str>().map(|s| s.to_string()).or_else(|| e.downcast_ref::<String>().cloned()).unwrap_or_else(|| "<non-string panic>".into());
        ctx.inconclusive(&format!("the monitor itself panicked: {}", msg));
    }
    std::process::exit(ctx.finish());
}

fn run_property(prop: &str, ctx: &Ctx) {
    match prop {
        "C01" => c01::run(ctx),
        "C02" => c02::run(ctx),
        "C03" => c03::run(ctx),
        "C04" => c04::run(ctx),
        "C05" => c05::run(ctx),
        "C06" => c06::run(ctx),
        "C07" => c07::run(ctx),
        "C08" => c08::run(ctx),
        "C09" => c09::run(ctx),
        "C10" => c10::run(ctx),
        "C11" => c11::run(ctx),
        "C12" => c12::run(ctx),
        "C13" => c13::run(ctx),
        "C14" => c14::run(ctx),
        #[cfg(feature = "kr")]
        "C15" => c15::run(ctx),
        #[cfg(not(feature = "kr"))]
        "C15" => c15cli::run_cli_only(ctx),
        "C16" => c16::run(ctx),
        #[cfg(feature = "kr")]
        "C17" => c17::run(ctx),
        #[cfg(not(feature = "kr"))]
        "C17" => c17cli::run_cli_only(ctx),
        "C18" => c18::run(ctx),
        "C19" => c19::run(ctx),
        "C20" => c20::run(ctx),
        _ => {
            eprintln!("kmon: unknown property {}", prop);
            std::process::exit(2);
        }
    }
}
