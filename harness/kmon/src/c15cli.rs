//! C15 - lanes that drive the real binary only (no in-process use of the CLI's keyring module), so they
//! keep working even if keyring.rs no longer compiles into the monitor.

use crate::cli::{Cmd, Exit, Stdin, WorkDir};
use crate::ctx::Ctx;
use crate::refspec;
use crate::util::{b64, hex, unb64, Rng};
use serde_json::json;

fn cli_layer(ctx: &Ctx) {
    let mut rng = Rng::fork(ctx.seed, "C15-cli");
    let wd = WorkDir::new("c15");
    for i in 0..ctx.tier.pick(4, 30) {
        let key = rng.arr32();
        let pw = if i % 3 == 0 { "".to_string() } else { format!("cli-p\u{e4}ss-{}", i) };
        let locked = refspec::lock_sk(&key, pw.as_bytes(), &rng.arr32());
        let want = format!("PublicKey = {}", refspec::encode_pk(&refspec::pubkey_of(&key)));
        let o = Cmd::new(&wd.path, &["key", "extract-pub", &locked, "--env-pass"]).pass(&pw).run();
        ctx.eval();
        let case = || json!({"command": format!("kestrel key extract-pub {} --env-pass", locked), "password": pw, "exit": o.exit.describe(), "stdout": o.stdout_s(), "stderr": o.stderr_s(), "want": want});
        if o.exit == Exit::Code(0) && o.stdout_s().trim() == want {
            ctx.seen("cli: spec-made locked key -> extract-pub prints the reference public key");
            ctx.distinct(&format!("cli|ok|{}", i));
        } else if o.exit == Exit::Timeout {
            ctx.inconclusive("C15 cli: timeout");
        } else {
            ctx.violation("C15:cli:extract-pub-of-conforming-key-fails-or-differs", case());
        }
        let mut blob = unb64(&locked).unwrap();
        let bit = rng.range(0, 84 * 8 - 1);
        blob[bit / 8] ^= 1 << (bit % 8);
        let bad = b64(&blob);
        let o = Cmd::new(&wd.path, &["key", "extract-pub", &bad, "--env-pass"]).pass(&pw).run();
        ctx.eval();
        if o.exit == Exit::Code(1) && o.has_error_line() && o.stdout.is_empty() {
            ctx.seen("cli: altered locked key -> exit 1");
            ctx.distinct(&format!("cli|bad|{}", i));
        } else {
            ctx.violation("C15:cli:altered-locked-key-accepted-or-abnormal-exit", json!({"bit": bit, "exit": o.exit.describe(), "stdout": o.stdout_s(), "stderr": o.stderr_s()}));
        }
    }
}

/// The password reaches lock/unlock through the tool's input layer: exact bytes in, exact bytes used.
fn cli_password_edges(ctx: &Ctx) {
    let mut rng = Rng::fork(ctx.seed, "C15-cli-edges");
    let wd = WorkDir::new("c15e");
    let pws: Vec<String> = vec!["".into(), "alice".into(), "alice\n".into(), "alice\r\n".into(), "alice ".into(), " alice".into(), "\n".into(), "tab\t".into(), "wide\u{3000}".into()];
    for (i, w) in pws.iter().enumerate() {
        let key = rng.arr32();
        let locked = refspec::lock_sk(&key, w.as_bytes(), &rng.arr32());
        let want = format!("PublicKey = {}", refspec::encode_pk(&refspec::pubkey_of(&key)));
        // exact password: must unlock
        let o = Cmd::new(&wd.path, &["key", "extract-pub", &locked, "--env-pass"]).pass(w).run();
        ctx.eval();
        if o.exit == Exit::Code(0) && o.stdout_s().trim() == want {
            ctx.seen("cli: key locked under a whitespace-edged password unlocks with exactly that password");
            ctx.distinct(&format!("edge|ok|{}", i));
        } else {
            ctx.violation("C15:cli:conforming-key-does-not-unlock-with-its-exact-password", json!({"password_hex": hex(w.as_bytes()), "exit": o.exit.describe(), "stderr": o.stderr_s()}));
        }
        // near misses: must not unlock
        let mut near: Vec<String> = vec![format!("{}\n", w), format!("{}\r\n", w), format!("{} ", w), w.trim_end().to_string(), w.trim().to_string(), format!("{}\n\n", w)];
        near.retain(|n| n != w && refspec::hmac_norm(n.as_bytes()) != refspec::hmac_norm(w.as_bytes()));
        near.dedup();
        for n in near {
            let o = Cmd::new(&wd.path, &["key", "extract-pub", &locked, "--env-pass"]).pass(&n).run();
            ctx.eval();
            if o.exit == Exit::Code(1) && o.stdout.is_empty() {
                ctx.seen("cli: near-miss password does not unlock");
                ctx.distinct(&format!("edge|near|{}|{}", i, hex(n.as_bytes())));
            } else {
                ctx.violation("C15:cli:different-password-unlocks", json!({"locked_under_hex": hex(w.as_bytes()), "offered_hex": hex(n.as_bytes()), "exit": o.exit.describe(), "stdout": o.stdout_s()}));
            }
        }
        // the same key inside a keyring: encrypt -f / decrypt -t with another password must fail and write nothing
        {
            let me = crate::cli::Ident { name: "me".into(), sk: key, pk: refspec::pubkey_of(&key), password: w.clone(), locked: locked.clone(), encoded_pk: refspec::encode_pk(&refspec::pubkey_of(&key)) };
            let peer = crate::cli::Ident::new("peer", "peer-pw", &mut rng);
            wd.write("kr.txt", crate::cli::keyring_text(&[(&me, true), (&peer, true)]).as_bytes());
            wd.write("m.txt", b"message");
            let tome = refspec::encode_key_file(&peer.sk, &peer.pk, &me.pk, &rng.arr32(), &rng.arr32(), b"for me", &[6]).unwrap();
            wd.write("tome.ktl", &tome);
            let near_a = format!("{}\n", w);
            let near_b = format!("{} ", w);
            let near_c = w.trim_end().to_string();
            let near_d = w.to_uppercase();
            for wrong in ["wrong", "", " ", "x", near_a.as_str(), near_b.as_str(), near_c.as_str(), near_d.as_str()] {
                if wrong == w || refspec::hmac_norm(wrong.as_bytes()) == refspec::hmac_norm(w.as_bytes()) {
                    continue;
                }
                let _ = std::fs::remove_file(wd.file("o.ktl"));
                let _ = std::fs::remove_file(wd.file("o.txt"));
                let e = Cmd::new(&wd.path, &["encrypt", "m.txt", "-t", "peer", "-f", "me", "-o", "o.ktl", "-k", "kr.txt", "--env-pass"]).pass(wrong).run();
                let d = Cmd::new(&wd.path, &["decrypt", "tome.ktl", "-t", "me", "-o", "o.txt", "-k", "kr.txt", "--env-pass"]).pass(wrong).run();
                ctx.eval();
                if e.exit == Exit::Code(1) && d.exit == Exit::Code(1) && !wd.file("o.ktl").exists() && !wd.file("o.txt").exists() {
                    ctx.seen("cli: keyring key does not unlock for encrypt/decrypt under another password");
                    ctx.distinct(&format!("edge|keyring|{}|{}", i, wrong));
                } else {
                    ctx.violation("C15:cli:keyring-key-unlocks-under-a-different-password", json!({"locked_under_hex": hex(w.as_bytes()), "offered": wrong, "encrypt_exit": e.exit.describe(), "decrypt_exit": d.exit.describe(), "encrypt_stderr": e.stderr_s(), "decrypt_stderr": d.stderr_s()}));
                }
            }
            // and with the right one it works
            let e = Cmd::new(&wd.path, &["encrypt", "m.txt", "-t", "peer", "-f", "me", "-k", "kr.txt", "--env-pass"]).pass(w).run();
            ctx.eval();
            if !(e.exit == Exit::Code(0) && matches!(refspec::decode_key_file(&e.stdout, &peer.sk, &peer.pk), Ok(d) if d.sender == me.pk)) {
                ctx.violation("C15:cli:keyring-key-does-not-unlock-under-its-own-password", json!({"password_hex": hex(w.as_bytes()), "exit": e.exit.describe(), "stderr": e.stderr_s()}));
            }
        }
        // change-pass TO this password, then unlock with exactly it (reference and tool)
        let start = refspec::lock_sk(&key, b"start", &rng.arr32());
        let o = Cmd::new(&wd.path, &["key", "change-pass", &start, "--env-pass"]).pass("start").env("KESTREL_NEW_PASSWORD", w).run();
        ctx.eval();
        let newl = o.stdout_s().lines().find_map(|l| l.strip_prefix("PrivateKey = ").map(|x| x.trim().to_string())).unwrap_or_default();
        let ref_ok = refspec::unlock_sk(&newl, w.as_bytes()) == Ok(key);
        let o2 = Cmd::new(&wd.path, &["key", "extract-pub", &newl, "--env-pass"]).pass(w).run();
        if o.exit == Exit::Code(0) && ref_ok && o2.exit == Exit::Code(0) && o2.stdout_s().trim() == want {
            ctx.seen("cli: change-pass to a whitespace-edged password is lossless");
        } else {
            ctx.violation("C15:cli:key-locked-by-change-pass-does-not-unlock-with-the-password-given", json!({"new_password_hex": hex(w.as_bytes()), "change_pass_exit": o.exit.describe(), "reference_unlock_ok": ref_ok, "tool_unlock_exit": o2.exit.describe(), "stderr": o2.stderr_s()}));
        }
    }
}


/// Every command that takes a locked key must refuse it under another password or after a change to its
/// bytes, whatever the other arguments are (e.g. change-pass to the same password as the one supplied).
fn cli_refusals_in_every_command(ctx: &Ctx) {
    let mut rng = Rng::fork(ctx.seed, "C15-cli-refuse");
    let wd = WorkDir::new("c15r");
    for i in 0..ctx.tier.pick(3, 24) {
        let key = rng.arr32();
        let pw = ["right-pw", "", "p\u{e4}ss"][i % 3].to_string();
        let other = format!("{}-other", pw);
        let locked = refspec::lock_sk(&key, pw.as_bytes(), &rng.arr32());
        let blob = unb64(&locked).unwrap();
        let tamper = |at: usize| {
            let mut b = blob.clone();
            b[at] ^= 0x01;
            b64(&b)
        };
        // (locked string, old password given, new password given, why it must be refused)
        let cases: Vec<(String, String, String, &str)> = vec![
            (locked.clone(), other.clone(), other.clone(), "another password, new password equal to it"),
            (locked.clone(), other.clone(), "new".into(), "another password, different new password"),
            (locked.clone(), other.clone(), pw.clone(), "another password, new password equal to the real one"),
            (tamper(0), pw.clone(), pw.clone(), "version byte changed, right password, same new password"),
            (tamper(4 + rng.range(0, 31)), pw.clone(), pw.clone(), "salt byte changed, right password, same new password"),
            (tamper(36 + rng.range(0, 31)), pw.clone(), pw.clone(), "ciphertext byte changed, right password, same new password"),
            (tamper(68 + rng.range(0, 15)), pw.clone(), pw.clone(), "tag byte changed, right password, same new password"),
            (tamper(68 + rng.range(0, 15)), pw.clone(), "new".into(), "tag byte changed, right password, different new password"),
        ];
        for (l, oldp, newp, why) in &cases {
            let o = Cmd::new(&wd.path, &["key", "change-pass", l, "--env-pass"]).pass(oldp).env("KESTREL_NEW_PASSWORD", newp).run();
            ctx.eval();
            if o.exit == Exit::Timeout {
                ctx.inconclusive("C15 cli: timeout");
            } else if o.exit == Exit::Code(1) && !o.stdout_s().contains("PrivateKey") {
                ctx.seen("cli: change-pass refuses a key it cannot unlock");
                ctx.distinct(&format!("refuse|{}|{}", i, why));
            } else {
                ctx.violation("C15:cli:change-pass-accepted-a-key-it-cannot-unlock", json!({"why_it_must_fail": why, "old_password": oldp, "new_password": newp, "exit": o.exit.describe(), "stdout": o.stdout_s(), "stderr": o.stderr_s()}));
            }
        }
        // positive control: right password, same new password -> a string that unlocks, with a new salt
        let o = Cmd::new(&wd.path, &["key", "change-pass", &locked, "--env-pass"]).pass(&pw).env("KESTREL_NEW_PASSWORD", &pw).run();
        ctx.eval();
        let out = o.stdout_s();
        let newl = out.lines().find_map(|l| l.trim().strip_prefix("PrivateKey = ")).unwrap_or("").trim().to_string();
        if o.exit == Exit::Code(0) && refspec::unlock_sk(&newl, pw.as_bytes()) == Ok(key) {
            ctx.seen("cli: change-pass to the same password with the right password succeeds");
        } else if o.exit == Exit::Timeout {
            ctx.inconclusive("C15 cli: timeout");
        } else {
            ctx.violation("C15:cli:change-pass-with-the-right-password-fails", json!({"exit": o.exit.describe(), "stderr": o.stderr_s()}));
        }
    }
}

/// Long passwords through the real binary (the environment carries up to 128 KiB per string): the key opens
/// under exactly the bytes it was locked under; a password that differs only in its LAST byte, or that is a
/// proper prefix of it, does not open it; and what the tool locks opens under the reference.
fn cli_long_passwords(ctx: &Ctx) {
    let mut rng = Rng::fork(ctx.seed, "C15-cli-long");
    let wd = WorkDir::new("c15l");
    let lens: Vec<usize> = ctx.tier.pick(vec![65, 257, 1023, 1024, 1025, 4097, 70_000], vec![63, 64, 65, 127, 128, 129, 255, 256, 257, 511, 512, 513, 1023, 1024, 1025, 2047, 2048, 2049, 4095, 4096, 4097, 8193, 16385, 32769, 65535, 65536, 65537, 100_000, 131_000]);
    for (i, n) in lens.iter().enumerate() {
        let w: String = (0..*n).map(|k| (b'a' + ((k * 7 + i + k / 26) % 26) as u8) as char).collect();
        let key = rng.arr32();
        let locked = refspec::lock_sk(&key, w.as_bytes(), &rng.arr32());
        let want = format!("PublicKey = {}", refspec::encode_pk(&refspec::pubkey_of(&key)));
        let o = Cmd::new(&wd.path, &["key", "extract-pub", &locked, "--env-pass"]).pass(&w).run();
        ctx.eval();
        if o.exit == Exit::Timeout {
            ctx.inconclusive("C15 cli: timeout");
            continue;
        }
        if !(o.exit == Exit::Code(0) && o.stdout_s().trim() == want) {
            ctx.violation("C15:cli:conforming-key-does-not-unlock-with-its-exact-password:long-password", json!({"password_len": n, "exit": o.exit.describe(), "stderr": o.stderr_s()}));
            continue;
        }
        let mut last_changed = w.clone().into_bytes();
        let l = last_changed.len();
        last_changed[l - 1] = if last_changed[l - 1] == b'z' { b'y' } else { b'z' };
        let variants: Vec<(&str, String)> = vec![
            ("last byte changed", String::from_utf8(last_changed).unwrap()),
            ("last byte dropped", w[..n - 1].to_string()),
            ("cut to the previous power of two", w[..(n.next_power_of_two() / 2).min(n - 1)].to_string()),
            ("one byte appended", format!("{}a", w)),
        ];
        let mut ok = true;
        for (what, v) in &variants {
            if refspec::hmac_norm(v.as_bytes()) == refspec::hmac_norm(w.as_bytes()) {
                continue;
            }
            let o = Cmd::new(&wd.path, &["key", "extract-pub", &locked, "--env-pass"]).pass(v).run();
            ctx.eval();
            if !(o.exit == Exit::Code(1) && o.stdout.is_empty()) {
                ctx.violation("C15:cli:different-password-unlocks:long-password", json!({"locked_under_len": n, "offered": what, "offered_len": v.len(), "exit": o.exit.describe(), "stdout": o.stdout_s()}));
                ok = false;
                break;
            }
        }
        if !ok {
            continue;
        }
        // tool locks under the long password -> the reference opens it under exactly that password
        let o = Cmd::new(&wd.path, &["key", "change-pass", &locked, "--env-pass"]).pass(&w).env("KESTREL_NEW_PASSWORD", &format!("{}!", w)).run();
        ctx.eval();
        let out = o.stdout_s();
        let newl = out.lines().find_map(|l| l.trim().strip_prefix("PrivateKey = ")).unwrap_or("").trim().to_string();
        if o.exit == Exit::Code(0) && refspec::unlock_sk(&newl, format!("{}!", w).as_bytes()) == Ok(key) && refspec::unlock_sk(&newl, w.as_bytes()).is_err() {
            ctx.seen("cli: long password: exact bytes open, last-byte and prefix variants do not, tool-locked key opens under the reference");
            ctx.distinct(&format!("longpw|{}", n));
        } else {
            ctx.violation("C15:cli:key-locked-by-the-tool-under-a-long-password-does-not-conform", json!({"password_len": n + 1, "exit": o.exit.describe(), "stderr": o.stderr_s()}));
        }
    }
}


/// (a) a conforming key whose blob ends in a zero byte, cut by that byte and re-encoded, and a conforming key with zero
/// bytes appended, offered to extract-pub / change-pass: refused. (b) `key generate --env-pass` locks under
/// KESTREL_PASSWORD - the documented variable - whatever else the environment holds: the reference opens the new key
/// with exactly that password and not with the value of a stray KESTREL_NEW_PASSWORD.
fn cli_other_lengths_and_generate(ctx: &Ctx) {
    let mut rng = Rng::fork(ctx.seed, "C15-cli-zero-tail");
    let wd = WorkDir::new("c15z");
    let pw = "zero tail";
    let mut r2 = Rng::fork(ctx.seed, "C15-cli-zero-tail-keys");
    match refspec::lock_sk_with_zero_tail(pw.as_bytes(), &rng.arr32(), 1, || r2.arr32()) {
        None => ctx.inconclusive("C15 cli: no blob with a zero tail found"),
        Some((good, _sk)) => {
            let blob = unb64(&good).unwrap();
            let mut ext = blob.clone();
            ext.push(0);
            for (what, s) in [("trailing zero byte cut off (83 bytes)", b64(&blob[..83])), ("zero byte appended (85 bytes)", b64(&ext))] {
                for cmd in ["extract-pub", "change-pass"] {
                    let o = Cmd::new(&wd.path, &["key", cmd, &s, "--env-pass"]).pass(pw).env("KESTREL_NEW_PASSWORD", "n").run();
                    ctx.eval();
                    if o.exit == Exit::Code(1) && o.has_error_line() && o.stdout.is_empty() {
                        ctx.seen("cli: blob of another length differing only by zero bytes refused");
                        ctx.distinct(&format!("cli|zerotail|{}|{}", what, cmd));
                    } else if o.exit == Exit::Timeout {
                        ctx.inconclusive("C15 cli: timeout");
                    } else {
                        ctx.violation("C15:cli:malformed-string-accepted:blob-of-another-length-that-differs-only-by-zero-bytes", json!({"class": what, "command": cmd, "string": s, "conforming_string": good, "exit": o.exit.describe(), "stdout": o.stdout_s(), "stderr": o.stderr_s()}));
                    }
                }
            }
        }
    }
    for (i, (w, stray)) in [("generate-pw", Some("left over from a change-pass")), ("", Some("stray")), ("p\u{e4}ss \u{2713}", Some("")), ("only-the-documented-variable", None)].iter().enumerate() {
        let mut c = Cmd::new(&wd.path, &["key", "generate", "--env-pass"]).pass(w).stdin(Stdin::Bytes(format!("gen-{}\n", i).into_bytes()));
        if let Some(sv) = stray {
            c = c.env("KESTREL_NEW_PASSWORD", sv);
        }
        let o = c.run();
        ctx.eval();
        let l = o.stdout_s().lines().find_map(|l| l.strip_prefix("PrivateKey = ").map(|x| x.trim().to_string()));
        let p = o.stdout_s().lines().find_map(|l| l.strip_prefix("PublicKey = ").map(|x| x.trim().to_string()));
        let case = || json!({"KESTREL_PASSWORD": w, "KESTREL_NEW_PASSWORD": stray, "exit": o.exit.describe(), "stdout": o.stdout_s(), "stderr": o.stderr_s()});
        match (&o.exit, l, p) {
            (Exit::Timeout, _, _) => ctx.inconclusive("C15 cli: timeout"),
            (Exit::Code(0), Some(l), Some(p)) => match refspec::unlock_sk(&l, w.as_bytes()) {
                Ok(sk) if refspec::decode_pk(&p) == Some(refspec::pubkey_of(&sk)) => {
                    ctx.seen("cli: key generate locks under KESTREL_PASSWORD whatever else is in the environment");
                    ctx.distinct(&format!("cli|generate|{}", i));
                }
                _ => {
                    let mut v = case();
                    v["opens_under_the_stray_variable_instead"] = json!(stray.map(|sv| refspec::unlock_sk(&l, sv.as_bytes()).is_ok()));
                    ctx.violation("C15:cli:generated-key-does-not-unlock-with-the-password-it-was-generated-under", v);
                }
            },
            _ => ctx.violation("C15:cli:key-generate-failed", case()),
        }
    }
}

pub fn cli_lanes(ctx: &Ctx) {
    cli_other_lengths_and_generate(ctx);
    cli_long_passwords(ctx);
    ctx.require("cli: long password", 5);
    cli_layer(ctx);
    cli_password_edges(ctx);
    cli_refusals_in_every_command(ctx);
    crate::ttylanes::c15(ctx);
    ctx.require("cli: change-pass refuses a key it cannot unlock", 16);
    ctx.require("tty: unlock succeeded only at the right password", 4);
}

/// Fallback when keyring.rs cannot be compiled into the monitor.
#[allow(dead_code)]
pub fn run_cli_only(ctx: &Ctx) {
    ctx.rule("CLI lanes only (extract-pub / change-pass / keyring-based encrypt and decrypt through the real binary, judged by the reference lock/unlock): the in-process differential of lock/unlock, the 672 bit flips and the malformed-string model were SKIPPED because /repo/src/cli/src/keyring.rs no longer compiles into the monitor");
    ctx.inconclusive("keyring.rs does not compile into the monitor (its internal API changed): in-process lanes of C15 skipped, CLI lanes only");
    cli_lanes(ctx);
    ctx.require("cli: ", 4);
}
