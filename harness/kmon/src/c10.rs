//! C10 - partial reads/writes are harmless; every I/O failure surfaces as an error of the
//! failing side; what was written is a prefix of the fault-free output.

use crate::c01::fresh_keys;
use crate::cli::{Cmd, Exit, Ident, Stdin, Stdout, WorkDir};
use crate::ctx::Ctx;
use crate::ioscript::{Fault, Op, Res, Sched};
use crate::kio::*;
use crate::refspec::{self, PASS_MAGIC};
use crate::util::{compositions, hex, hex_short, par_for, Rng};
use serde_json::{json, Value};
use std::io::ErrorKind;

#[derive(Clone, Copy, PartialEq, Debug)]
enum Side {
    Read,
    Write,
}

fn delivered(run: &Run) -> bool {
    run.log.events().iter().any(|e| matches!(e.res, Res::Err(_)) || (e.op == Op::Write && e.res == Res::N(0) && e.requested > 0))
}

/// Judge one faulted execution against the fault-free one.
fn judge_fault(ctx: &Ctx, scope: &str, clean: &Run, run: &Run, side: Side, transient: bool, fault_desc: &str, case: &dyn Fn() -> Value) -> bool {
    ctx.eval();
    let full = || {
        let mut v = case();
        v["fault"] = json!(fault_desc);
        v["result"] = json!(run.outcome.class());
        v["fault_free_result"] = json!(clean.outcome.class());
        v["written"] = json!(run.out.len());
        v["fault_free_written"] = json!(clean.out.len());
        v["trace"] = json!(run.log.shape().chars().take(500).collect::<String>());
        v
    };
    if let Outcome::Panic(p) = &run.outcome {
        ctx.violation(&format!("C10:{}:panic:{}", scope, panic_site(p)), full());
        return false;
    }
    if run.log.budget_hit() {
        ctx.violation(&format!("C10:{}:call-budget-exceeded-after-fault", scope), full());
        return false;
    }
    if run.out.len() > clean.out.len() || run.out[..] != clean.out[..run.out.len()] {
        ctx.violation(&format!("C10:{}:output-not-a-prefix-of-fault-free-output", scope), full());
        return false;
    }
    if !delivered(run) {
        ctx.seen(&format!("{}: fault point not reached", scope));
        return true;
    }
    let right_side = |o: &Outcome| match (side, o) {
        (Side::Read, Outcome::IORead(_, _)) => true,
        (Side::Write, Outcome::IOWrite(_, _)) => true,
        _ => false,
    };
    if transient {
        let same_as_clean = run.outcome.class() == clean.outcome.class() && run.out == clean.out;
        if same_as_clean {
            ctx.seen(&format!("{}: transient {:?} fault retried, same result", scope, side));
            return true;
        }
        if right_side(&run.outcome) {
            ctx.seen(&format!("{}: transient {:?} fault surfaced as error", scope, side));
            return true;
        }
        if run.outcome.is_ok() && !clean.outcome.is_ok() {
            ctx.violation(&format!("C10:{}:success-where-the-fault-free-run-refuses-after-interrupted-{:?}", scope, side), full());
        } else if run.outcome.is_ok() {
            ctx.violation(&format!("C10:{}:success-with-incomplete-output-after-interrupted-{:?}", scope, side), full());
        } else {
            ctx.violation(&format!("C10:{}:wrong-error-after-interrupted-{:?}", scope, side), full());
        }
        return false;
    }
    if run.outcome.is_ok() {
        ctx.violation(&format!("C10:{}:success-after-{:?}-fault", scope, side), full());
        return false;
    }
    if !right_side(&run.outcome) {
        ctx.violation(&format!("C10:{}:{:?}-fault-reported-as-{}", scope, side, crate::c03::short_class(&run.outcome)), full());
        return false;
    }
    ctx.seen(&format!("{}: {:?} fault -> error of that side", scope, side));
    true
}

/// A sink may hold what it accepted until it is flushed (BufWriter, a socket with Nagle, a staging file):
/// it is a conforming sink, so on success everything accepted must have been followed by a flush - otherwise
/// the result over that sink differs from the result over an unbuffered one.
fn accepted_bytes_all_flushed(run: &Run) -> bool {
    let ev = run.log.events();
    match ev.iter().rposition(|e| e.op == Op::Write && matches!(e.res, crate::ioscript::Res::N(n) if n > 0)) {
        None => true,
        Some(i) => ev[i + 1..].iter().any(|e| e.op == Op::Flush && e.res == crate::ioscript::Res::FlushOk),
    }
}

/// A fault at every call index of every kind, for one (input, schedule) pair.
fn sweep(ctx: &Ctx, scope: &str, input: &[u8], base: &Io, call: &dyn Fn(&[u8], &Io) -> Run, case: &dyn Fn() -> Value, stride: usize, tag: &str) {
    let clean = call(input, base);
    if let Outcome::Panic(p) = &clean.outcome {
        ctx.violation(&format!("C10:{}:panic:{}", scope, panic_site(p)), case());
        return;
    }
    if clean.outcome.is_ok() && !accepted_bytes_all_flushed(&clean) {
        let mut v = case();
        v["trace"] = json!(clean.log.shape().chars().take(600).collect::<String>());
        ctx.violation(&format!("C10:{}:success-although-accepted-bytes-were-never-flushed", scope), v);
        return;
    }
    ctx.seen("fault-free run: every accepted byte was followed by a successful flush");
    let (r, w, f) = (clean.log.count(Op::Read), clean.log.count(Op::Write), clean.log.count(Op::Flush));
    let stride = stride.max(1);
    for i in (0..r).filter(|i| *i < 12 || i % stride == 0 || *i + 3 >= r) {
        for k in [ErrorKind::Other, ErrorKind::Interrupted, ErrorKind::UnexpectedEof, ErrorKind::WouldBlock] {
            let mut io = base.clone();
            io.rfaults.push((i, Fault::Kind(k)));
            let run = call(input, &io);
            if judge_fault(ctx, scope, &clean, &run, Side::Read, k == ErrorKind::Interrupted, &format!("read call {} -> {:?}", i, k), case) {
                ctx.distinct(&format!("{}|{}|r{}|{:?}", scope, tag, i, k));
            }
        }
    }
    for i in (0..w).filter(|i| *i < 12 || i % stride == 0 || *i + 3 >= w) {
        for flt in [Fault::Kind(ErrorKind::Other), Fault::Zero, Fault::Kind(ErrorKind::Interrupted), Fault::Kind(ErrorKind::BrokenPipe)] {
            let mut io = base.clone();
            io.wfaults.push((i, flt.clone()));
            let run = call(input, &io);
            if judge_fault(ctx, scope, &clean, &run, Side::Write, flt == Fault::Kind(ErrorKind::Interrupted), &format!("write call {} -> {:?}", i, flt), case) {
                ctx.distinct(&format!("{}|{}|w{}|{:?}", scope, tag, i, flt));
            }
        }
    }
    for i in (0..f).filter(|i| *i < 12 || i % stride == 0 || *i + 3 >= f) {
        let mut io = base.clone();
        io.ffaults.push((i, ErrorKind::Other));
        let run = call(input, &io);
        if judge_fault(ctx, scope, &clean, &run, Side::Write, false, &format!("flush call {} -> Other", i), case) {
            ctx.distinct(&format!("{}|{}|f{}", scope, tag, i));
        }
    }
}

fn small_block(ctx: &Ctx) {
    let max_len = ctx.tier.pick(6, 9);
    let mut work = Vec::new();
    for c in 1..=3usize {
        for len in 0..=max_len {
            let comps = if len == 0 { vec![vec![]] } else { compositions(len, c) };
            for comp in comps {
                for aad in [vec![], PASS_MAGIC.to_vec()] {
                    work.push((c, len, comp.clone(), aad));
                }
            }
        }
    }
    ctx.note("small_scope", json!({"max_len": max_len, "max_chunk_size": 3, "cases": work.len(), "exhaustive": true,
        "space": "every read partition of every plaintext length x AAD variant; a fault of every kind at every read/write/flush call index, both directions"}));
    par_for(work.len(), crate::util::ncpu(), |i| {
        let (c, len, comp, aad) = &work[i];
        let mut rng = Rng::fork(ctx.seed, &format!("C10-small-{}", i));
        let key = rng.arr32();
        let pt = rng.bytes(*len);
        let wsched = match i % 3 {
            0 => Sched::all(),
            1 => Sched::fixed(1),
            _ => Sched::random(&mut rng, 16, 5),
        };
        // encrypt direction
        let mut enc_io = Io::new(Sched::list(comp.clone(), 1), wsched.clone());
        enc_io.vectored = i % 2 == 1;
        let enc = |inp: &[u8], io: &Io| chunks_encrypt_run(inp, io, &key, aad, *c as u32);
        let case = || json!({"direction": "encrypt", "plaintext": hex(&pt), "chunk_size": c, "key": hex(&key), "aad": hex(aad), "io": enc_io.describe()});
        let clean = enc(&pt, &enc_io);
        ctx.eval();
        // schedule independence, encrypt: decodes to P whatever the partition; write schedule does not change bytes
        let body = refspec::decode_body(&clean.out, 0, &key, aad, *c);
        if !clean.outcome.is_ok() || !body.complete() || body.plaintext() != pt {
            ctx.violation("C10:small:encrypt-result-depends-on-schedule", case());
            return;
        }
        let alt = enc(&pt, &Io::new(Sched::list(comp.clone(), 1), Sched::all()));
        // and a sink with native vectored writes that accepts odd short counts across header and body
        let mut vio = Io::new(Sched::list(comp.clone(), 1), Sched::list(vec![5, 40, 3, 17, 1, 29, 16, 15, 2], 7));
        vio.vectored = true;
        let valt = enc(&pt, &vio);
        if valt.out != clean.out || !valt.outcome.is_ok() {
            ctx.violation("C10:small:ciphertext-bytes-depend-on-write-schedule:vectored-sink", case());
            return;
        }
        if alt.out != clean.out {
            ctx.violation("C10:small:ciphertext-bytes-depend-on-write-schedule", case());
            return;
        }
        sweep(ctx, "small-encrypt", &pt, &enc_io, &enc, &case, 1, &format!("{}", i));
        // decrypt direction over the file just produced
        let dec_io = Io::new(match i % 4 { 0 => Sched::all(), 1 => Sched::fixed(1), 2 => Sched::list(vec![3, 13, 5, 11], 7), _ => Sched::random(&mut rng, 24, 19) }, wsched);
        let dec = |inp: &[u8], io: &Io| chunks_decrypt_run(inp, io, &key, aad, *c as u32);
        let ct = clean.out.clone();
        let case = || json!({"direction": "decrypt", "ciphertext": hex(&ct), "chunk_size": c, "key": hex(&key), "aad": hex(aad), "io": dec_io.describe()});
        let d0 = dec(&ct, &Io::plain());
        let d1 = dec(&ct, &dec_io);
        ctx.eval();
        if !(d0.outcome.is_ok() && d1.outcome.is_ok() && d0.out == pt && d1.out == pt) {
            ctx.violation("C10:small:decrypt-result-depends-on-schedule", case());
            return;
        }
        sweep(ctx, "small-decrypt", &ct, &dec_io, &dec, &case, 1, &format!("{}", i));
        // the same plaintext as a stream cut differently by another conforming encryptor (the read partition as
        // chunk sizes, closed by an EMPTY final chunk): same result, same fault behaviour
        if *len > 0 && i % 2 == 0 {
            let mut foreign_chunking = comp.clone();
            foreign_chunking.push(0);
            let ct2 = refspec::encode_body(&pt, &foreign_chunking, &key, aad);
            let case2 = || json!({"direction": "decrypt", "stream": "data chunks closed by an empty final chunk", "chunking": foreign_chunking, "ciphertext": hex(&ct2), "chunk_size": c, "key": hex(&key), "aad": hex(aad), "io": dec_io.describe()});
            let e0 = dec(&ct2, &Io::plain());
            let e1 = dec(&ct2, &dec_io);
            ctx.eval();
            if !(e0.outcome.is_ok() && e1.outcome.is_ok() && e0.out == pt && e1.out == pt) {
                ctx.violation("C10:small:decrypt-result-depends-on-schedule:empty-final-chunk", case2());
                return;
            }
            sweep(ctx, "small-decrypt", &ct2, &dec_io, &dec, &case2, 1, &format!("{}e", i));
            ctx.seen("small: stream closed by an empty final chunk swept");
        }
        // a tampered file too: the result class must not depend on the schedule, faults still surface
        if !ct.is_empty() && i % 5 == 0 {
            let mut bad = ct.clone();
            let l = bad.len();
            bad[l - 1] ^= 1;
            let b0 = dec(&bad, &Io::plain());
            let b1 = dec(&bad, &dec_io);
            ctx.eval();
            if b0.outcome.class() != b1.outcome.class() || b0.out != b1.out {
                ctx.violation("C10:small:decrypt-result-depends-on-schedule", case());
            }
        }
        // files that are NOT authentic (extended by trailing bytes, cut short): the verdict and the bytes written are the
        // fault-free ones whatever transient fault the source shows, and a real fault still surfaces as one - the sweep's
        // oracle compares every faulted run with the fault-free run of the same file
        if i % 3 == 0 {
            let mut variants: Vec<(&str, Vec<u8>)> = Vec::new();
            let mut ext = ct.clone();
            ext.push(0x5a);
            variants.push(("one byte appended", ext));
            let mut ext2 = ct.clone();
            ext2.extend_from_slice(&ct);
            variants.push(("the whole stream appended again", ext2));
            if ct.len() > 1 {
                variants.push(("last byte cut off", ct[..ct.len() - 1].to_vec()));
                variants.push(("cut in the middle", ct[..ct.len() / 2].to_vec()));
            }
            for (what, bad) in variants {
                let case3 = || json!({"direction": "decrypt", "stream": what, "ciphertext": hex(&bad), "chunk_size": c, "key": hex(&key), "aad": hex(aad), "io": dec_io.describe()});
                let u0 = dec(&bad, &Io::plain());
                let u1 = dec(&bad, &dec_io);
                ctx.eval();
                if u0.outcome.is_ok() || u0.outcome.class() != u1.outcome.class() || u0.out != u1.out {
                    ctx.violation("C10:small:decrypt-result-depends-on-schedule:unauthentic-stream", case3());
                    continue;
                }
                sweep(ctx, "small-decrypt-unauthentic", &bad, &dec_io, &dec, &case3, 1, &format!("{}u{}", i, what));
                ctx.seen("small: unauthentic stream swept");
            }
        }
        if i == 100 {
            ctx.sample("small-scope fault sweep", 1, || json!({"plaintext": hex(&pt), "read_partition": comp, "chunk_size": c, "fault_free_trace_encrypt": clean.log.shape(), "fault_free_trace_decrypt": d1.log.shape()}));
        }
    });
}

fn production_block(ctx: &Ctx) {
    let lens: Vec<usize> = ctx.tier.pick(vec![0, 100, 65536, 65536 * 2 + 17], vec![0, 1, 100, 65535, 65536, 65537, 65536 * 2 + 17, 65536 * 4]);
    par_for(lens.len() * 2, crate::util::ncpu(), |i| {
        let len = lens[i / 2];
        let keymode = i % 2 == 0;
        let mut rng = Rng::fork(ctx.seed, &format!("C10-prod-{}", i));
        let pt = rng.bytes(len);
        let mut io = match (i / 2) % 3 {
            0 => Io::plain(),
            1 => Io::new(Sched::fixed(30000), Sched::fixed(50000)),
            _ => Io::new(Sched::random(&mut rng, 16, 65536), Sched::random(&mut rng, 16, 70000)),
        };
        io.vectored = (i / 2) % 2 == 1;
        let stride = ctx.tier.pick(3, 1);
        if keymode {
            let k = fresh_keys(&mut rng);
            let (e, pl) = (rng.arr32(), rng.arr32());
            let enc = |inp: &[u8], io: &Io| key_encrypt_run(inp, io, &KeyEnc { s_priv: &k.s_priv, s_pub: &k.s_pub, r_pub: &k.r_pub, e_priv: Some(e), payload: Some(pl) });
            let case = || json!({"direction": "key_encrypt", "len": len, "sender_private": hex(&k.s_priv), "recipient_private": hex(&k.r_priv), "ephemeral": hex(&e), "payload_key": hex(&pl), "io": io.describe(), "plaintext": hex_short(&pt, 32)});
            let clean = enc(&pt, &io);
            if !clean.outcome.is_ok() {
                ctx.violation("C10:production:fault-free-encrypt-failed", case());
                return;
            }
            sweep(ctx, "production-key-encrypt", &pt, &io, &enc, &case, stride, &format!("{}", len));
            let dec = |inp: &[u8], io: &Io| key_decrypt_run(inp, io, &k.r_priv, &k.r_pub);
            let ct = clean.out;
            let case = || json!({"direction": "key_decrypt", "len": len, "recipient_private": hex(&k.r_priv), "io": io.describe(), "file_len": ct.len()});
            sweep(ctx, "production-key-decrypt", &ct, &io, &dec, &case, stride, &format!("{}", len));
            let mut ext = ct.clone();
            ext.push(0x5a);
            let case = || json!({"direction": "key_decrypt", "stream": "one byte appended to the authentic file", "len": len, "recipient_private": hex(&k.r_priv), "io": io.describe(), "file_len": ext.len()});
            sweep(ctx, "production-key-decrypt-extended", &ext, &io, &dec, &case, stride, &format!("{}x", len));
        } else {
            let pw = b"correct horse".to_vec();
            let salt = rng.arr32();
            let enc = |inp: &[u8], io: &Io| pass_encrypt_run(inp, io, &pw, salt);
            let case = || json!({"direction": "pass_encrypt", "len": len, "password": hex(&pw), "salt": hex(&salt), "io": io.describe(), "plaintext": hex_short(&pt, 32)});
            let clean = enc(&pt, &io);
            if !clean.outcome.is_ok() {
                ctx.violation("C10:production:fault-free-encrypt-failed", case());
                return;
            }
            // scrypt dominates: header-phase calls and a sample of the chunk-phase ones
            let pstride = stride * 2;
            sweep(ctx, "production-pass-encrypt", &pt, &io, &enc, &case, pstride, &format!("{}", len));
            let dec = |inp: &[u8], io: &Io| pass_decrypt_run(inp, io, &pw);
            let ct = clean.out;
            let case = || json!({"direction": "pass_decrypt", "len": len, "password": hex(&pw), "io": io.describe(), "file_len": ct.len()});
            sweep(ctx, "production-pass-decrypt", &ct, &io, &dec, &case, pstride, &format!("{}", len));
            let mut ext = ct.clone();
            ext.push(0x5a);
            let case = || json!({"direction": "pass_decrypt", "stream": "one byte appended to the authentic file", "len": len, "password": hex(&pw), "io": io.describe(), "file_len": ext.len()});
            sweep(ctx, "production-pass-decrypt-extended", &ext, &io, &dec, &case, pstride * 2, &format!("{}x", len));
        }
    });
}

/// The public entry points (header parsing included) over a family of conforming read schedules: every constant
/// size 1..=140, "first n then everything" for every n up to past the larger header, a few mixed lists, and
/// random small sizes. Oracle: the result is the one of the whole-buffer run (plaintext for decrypt, a complete
/// conforming file holding exactly the plaintext for encrypt - chunk boundaries legitimately follow the reads), whatever the schedule.
fn entry_point_schedules(ctx: &Ctx) {
    let mut scheds: Vec<Sched> = Vec::new();
    for k in 1..=140usize {
        scheds.push(Sched::fixed(k));
    }
    for n in 1..=140usize {
        scheds.push(Sched::list(vec![n], 1 << 20));
        scheds.push(Sched::list(vec![n, 1], 4096));
    }
    for l in [vec![3usize, 4096], vec![4, 32, 1], vec![4, 31, 2], vec![2, 2, 32, 96, 1], vec![35, 1, 96, 1], vec![131, 2], vec![100, 200, 300], vec![50, 250, 100, 200], vec![1, 2, 3, 5, 8, 13, 21, 34, 55, 89]] {
        scheds.push(Sched::list(l, 65536));
    }
    let lens: Vec<usize> = ctx.tier.pick(vec![0, 1, 37, 700, 65536 + 9], vec![0, 1, 2, 37, 131, 132, 700, 65535, 65536, 65536 + 9, 65536 * 2]);
    let mut rng0 = Rng::fork(ctx.seed, "C10-entry");
    for _ in 0..ctx.tier.pick(20, 200) {
        scheds.push(Sched::random(&mut rng0, 24, 200));
    }
    ctx.note("entry_point_schedules", json!({"schedules": scheds.len(), "plaintext_lengths": lens, "modes": ["key", "password"], "directions": ["decrypt (read schedule)", "encrypt (read schedule)"]}));
    let k = fresh_keys(&mut rng0);
    let (e, pl, salt) = (rng0.arr32(), rng0.arr32(), rng0.arr32());
    let pw = b"entry point password".to_vec();
    // password mode costs one scrypt per run: a sample of the schedules (all the "first n then everything" up to 40, every 7th of the rest)
    let work: Vec<(usize, usize, bool)> = (0..lens.len()).flat_map(|li| (0..scheds.len()).flat_map(move |si| [(li, si, true), (li, si, false)])).collect();
    let pass_len_ok = |li: usize| li < 3;
    par_for(work.len(), crate::util::ncpu(), |i| {
        let (li, si, keymode) = work[i];
        let mut rng = Rng::fork(ctx.seed, &format!("C10-entry-pt-{}", li));
        let pt = rng.bytes(lens[li]);
        let sched = scheds[si].clone();
        let io = Io::new(sched.clone(), Sched::all());
        if keymode {
            let clean = key_encrypt_run(&pt, &Io::plain(), &KeyEnc { s_priv: &k.s_priv, s_pub: &k.s_pub, r_pub: &k.r_pub, e_priv: Some(e), payload: Some(pl) });
            if !clean.outcome.is_ok() {
                return;
            }
            let case = |dir: &str| json!({"direction": dir, "len": lens[li], "plaintext": hex_short(&pt, 32), "sender_private": hex(&k.s_priv), "recipient_private": hex(&k.r_priv), "ephemeral": hex(&e), "payload_key": hex(&pl), "read_schedule": sched.describe()});
            let d = key_decrypt_run(&clean.out, &io, &k.r_priv, &k.r_pub);
            ctx.eval();
            if !(d.outcome.is_ok() && d.out == pt) {
                ctx.violation("C10:entry:key_decrypt-result-depends-on-read-schedule", case("key_decrypt"));
                return;
            }
            let en = key_encrypt_run(&pt, &io, &KeyEnc { s_priv: &k.s_priv, s_pub: &k.s_pub, r_pub: &k.r_pub, e_priv: Some(e), payload: Some(pl) });
            ctx.eval();
            // chunk boundaries legitimately follow the reads: the file must be a complete conforming file holding exactly the plaintext
            let back = refspec::decode_key_file(&en.out, &k.r_priv, &k.r_pub);
            if !en.outcome.is_ok() || !back.map(|d| d.body.complete() && d.body.plaintext() == pt).unwrap_or(false) {
                ctx.violation("C10:entry:key_encrypt-result-depends-on-read-schedule", case("key_encrypt"));
                return;
            }
            ctx.seen("entry: key mode, schedule-independent result");
            ctx.distinct(&format!("entry|key|{}|{}", li, si));
        } else {
            if !(pass_len_ok(li) && (si % 7 == 0 || (140..140 + 80).contains(&si))) {
                return;
            }
            let clean = pass_encrypt_run(&pt, &Io::plain(), &pw, salt);
            if !clean.outcome.is_ok() {
                return;
            }
            let case = |dir: &str| json!({"direction": dir, "len": lens[li], "plaintext": hex_short(&pt, 32), "password": hex(&pw), "salt": hex(&salt), "read_schedule": sched.describe()});
            let d = pass_decrypt_run(&clean.out, &io, &pw);
            ctx.eval();
            if !(d.outcome.is_ok() && d.out == pt) {
                ctx.violation("C10:entry:pass_decrypt-result-depends-on-read-schedule", case("pass_decrypt"));
                return;
            }
            let en = pass_encrypt_run(&pt, &io, &pw, salt);
            ctx.eval();
            let back = refspec::decode_pass_file(&en.out, &pw);
            if !en.outcome.is_ok() || !back.map(|d| d.body.complete() && d.body.plaintext() == pt).unwrap_or(false) {
                ctx.violation("C10:entry:pass_encrypt-result-depends-on-read-schedule", case("pass_encrypt"));
                return;
            }
            ctx.seen("entry: password mode, schedule-independent result");
            ctx.distinct(&format!("entry|pass|{}|{}", li, si));
        }
    });
}

/// Real OS faults through the CLI: every failing sink/source must give exit 1 and an Error: line.
fn cli_block(ctx: &Ctx) {
    let mut rng = Rng::fork(ctx.seed, "C10-cli");
    let alice = Ident::new("alice", "apw", &mut rng);
    let bob = Ident::new("bob", "bpw", &mut rng);
    let wd = WorkDir::new("c10");
    wd.write("kr.txt", crate::cli::keyring_text(&[(&alice, true), (&bob, true)]).as_bytes());
    let pt = rng.bytes(200_000);
    wd.write("plain.bin", &pt);
    let kf = refspec::encode_key_file(&alice.sk, &alice.pk, &bob.pk, &rng.arr32(), &rng.arr32(), &pt, &refspec::natural_chunking(pt.len(), 65536)).unwrap();
    wd.write("file.ktl", &kf);
    let pf = refspec::encode_pass_file(b"pw", &rng.arr32(), &pt, &refspec::natural_chunking(pt.len(), 65536));
    wd.write("pfile.ktl", &pf);
    std::fs::create_dir_all(wd.file("adir")).unwrap();
    let enc = ["encrypt", "plain.bin", "-t", "bob", "-f", "alice", "-k", "kr.txt", "--env-pass"];
    let dec = ["decrypt", "file.ktl", "-t", "bob", "-k", "kr.txt", "--env-pass"];
    let penc = ["password", "encrypt", "plain.bin", "--env-pass"];
    let pdec = ["password", "decrypt", "pfile.ktl", "--env-pass"];
    let mut cases: Vec<(String, Cmd)> = Vec::new();
    for (name, args, pass) in [("encrypt", &enc[..], "apw"), ("decrypt", &dec[..], "bpw"), ("password encrypt", &penc[..], "pw"), ("password decrypt", &pdec[..], "pw")] {
        cases.push((format!("{} > /dev/full", name), Cmd::new(&wd.path, args).pass(pass).stdout(Stdout::DevFull)));
        cases.push((format!("{} > closed pipe", name), Cmd::new(&wd.path, args).pass(pass).stdout(Stdout::ClosedPipe)));
        let mut a: Vec<&str> = args.to_vec();
        a.extend_from_slice(&["-o", "/dev/full"]);
        cases.push((format!("{} -o /dev/full", name), Cmd::new(&wd.path, &a).pass(pass)));
        let mut a: Vec<&str> = args.to_vec();
        a.extend_from_slice(&["-o", "missing-dir/out.bin"]);
        cases.push((format!("{} -o missing-dir/out", name), Cmd::new(&wd.path, &a).pass(pass)));
        let mut a: Vec<&str> = args.to_vec();
        a.extend_from_slice(&["-o", "adir"]);
        cases.push((format!("{} -o a-directory", name), Cmd::new(&wd.path, &a).pass(pass)));
        // input is a directory
        let mut a: Vec<&str> = args.to_vec();
        a[if name.starts_with("password") { 2 } else { 1 }] = "adir";
        a.extend_from_slice(&["-o", "never.bin"]);
        cases.push((format!("{} input is a directory", name), Cmd::new(&wd.path, &a).pass(pass)));
    }
    for (name, cmd) in cases {
        let o = cmd.run();
        ctx.eval();
        let case = || json!({"case": name, "command": cmd.describe(), "exit": o.exit.describe(), "stderr": o.stderr_s()});
        match &o.exit {
            Exit::Timeout => ctx.inconclusive(&format!("C10 cli '{}': timeout", name)),
            Exit::Code(1) if o.has_error_line() => {
                ctx.seen("cli: OS fault -> exit 1 + Error:");
                ctx.distinct(&format!("cli|{}", name));
            }
            Exit::Code(1) => ctx.violation("C10:cli:exit-1-without-error-line", case()),
            Exit::Code(0) => ctx.violation(&format!("C10:cli:success-despite-failing-io:{}", name.split(' ').last().unwrap_or("")), case()),
            other => ctx.violation(&format!("C10:cli:abnormal-termination:{}", other.describe()), case()),
        }
        ctx.sample("cli OS fault", 2, || case());
    }
    // a sink that really accepts fewer bytes than offered: file size limit with SIGXFSZ ignored
    // (write returns a short count at the limit, the next write fails with EFBIG)
    for (name, args, pass, total) in [
        ("decrypt", vec!["decrypt", "file.ktl", "-t", "bob", "-k", "kr.txt", "--env-pass", "-o", "lim.out"], "bpw", pt.len() as u64),
        ("password decrypt", vec!["password", "decrypt", "pfile.ktl", "--env-pass", "-o", "lim.out"], "pw", pt.len() as u64),
        ("encrypt", vec!["encrypt", "plain.bin", "-t", "bob", "-f", "alice", "-k", "kr.txt", "--env-pass", "-o", "lim.out"], "apw", pt.len() as u64 + 132 + 32 * 4),
    ] {
        let blocks = (total + 511) / 512;
        for lim in [1u64, blocks / 2, blocks - 1] {
            let _ = std::fs::remove_file(wd.file("lim.out"));
            let o = Cmd::new(&wd.path, &args).pass(pass).fsize_limit(lim).run();
            ctx.eval();
            let got = std::fs::read(wd.file("lim.out")).unwrap_or_default();
            let case = || json!({"case": format!("{} -o under ulimit -f {} (needs {})", name, lim, blocks), "exit": o.exit.describe(), "stderr": o.stderr_s(), "output_bytes": got.len()});
            match &o.exit {
                Exit::Code(1) if o.has_error_line() => {
                    ctx.seen("cli: OS short write then EFBIG -> exit 1 + Error:");
                    ctx.distinct(&format!("cli|fsize|{}|{}", name, lim));
                }
                Exit::Code(0) => ctx.violation(&format!("C10:cli:success-despite-short-write:{}", name.replace(' ', "-")), case()),
                Exit::Timeout => ctx.inconclusive("C10 cli: timeout"),
                other => ctx.violation(&format!("C10:cli:abnormal-termination:{}", other.describe()), case()),
            }
            if name == "decrypt" && !(got.len() <= pt.len() && got[..] == pt[..got.len()]) {
                ctx.violation("C10:cli:output-not-a-prefix-after-short-write", case());
            }
        }
    }
    // short reads reach the real binary through a dribbled stdin pipe; the result must not change
    let mut sizes: Vec<usize> = vec![777, 0]; // small first piece, then a pause longer than the key unlock
    sizes.extend((0..40).map(|_| rng.range(1, 40_000)));
    let o = Cmd::new(&wd.path, &["encrypt", "-t", "bob", "-f", "alice", "-k", "kr.txt", "--env-pass"]).pass("apw").stdin(Stdin::Dribble(pt.clone(), sizes)).run();
    ctx.eval();
    let ok = o.exit == Exit::Code(0)
        && match refspec::decode_key_file(&o.stdout, &bob.sk, &bob.pk) {
            Ok(d) => {
                ctx.seen(&format!("cli: dribbled stdin produced {} chunks", d.body.chunks.len()));
                d.body.complete() && d.body.plaintext() == pt && d.sender == alice.pk
            }
            Err(_) => false,
        };
    if !ok {
        ctx.violation("C10:cli:dribbled-stdin-changes-result", json!({"exit": o.exit.describe(), "stderr": o.stderr_s(), "stdout_len": o.stdout.len()}));
    } else {
        ctx.distinct("cli|dribble");
    }
}

pub fn run(ctx: &Ctx) {
    ctx.rule(
        "for each (input, schedule) pair a fault-free run fixes the number of read/write/flush calls and the reference output; then one run per fault point \
         (every call index x {Other, Interrupted, UnexpectedEof, WouldBlock} reads, {Other, Ok(0), Interrupted, BrokenPipe} writes, flush errors). Oracle: no \
         panic; a delivered non-transient fault => error of the failing side; Interrupted => retried-and-complete or error of that side; sink is a prefix of \
         the fault-free output. Small scope is exhaustive over read partitions (chunk size <=3); production drives key_*/pass_* at 64 KiB; the CLI is given \
         real failing sinks/sources. distinct_nontrivial counts distinct (case, call index, fault kind) executions",
    );
    ctx.assume("Interrupted is the only transient kind; std's read_exact/write_all retry it");
    small_block(ctx);
    production_block(ctx);
    entry_point_schedules(ctx);
    if !crate::lib_only() {
        cli_block(ctx);
    }
    ctx.require("small: stream closed by an empty final chunk swept", 20);
    ctx.require("small: unauthentic stream swept", 100);
    ctx.require("production-key-decrypt-extended: transient Read fault retried, same result", 5);
    ctx.require("fault-free run: every accepted byte was followed by a successful flush", 100);
    ctx.require("small-encrypt: Read fault -> error", 100);
    ctx.require("small-encrypt: Write fault -> error", 100);
    ctx.require("small-decrypt: Read fault -> error", 100);
    ctx.require("small-decrypt: Write fault -> error", 100);
    ctx.require("production-key-encrypt: Write fault -> error", 5);
    ctx.require("production-pass-decrypt: Read fault -> error", 5);
    ctx.require("entry: key mode, schedule-independent result", 500);
    ctx.require("entry: password mode, schedule-independent result", 50);
    ctx.require("cli: OS fault", 10);
    ctx.require("cli: OS short write", 6);
}
