//! C14 - generating a key into an existing keyring keeps every existing key.
//! Keyring-file history monitor: after every `key generate -o F` step the previous content
//! must be a byte prefix of the new content, the file must parse (real parser and an
//! independent tokenizer) and every key generated so far must be present and usable.

use crate::cli::{Cmd, Exit, Ident, Stdin, WorkDir};
use crate::ctx::Ctx;
#[cfg(feature = "kr")]
use crate::keyring::Keyring;
use crate::kio::guarded;
use crate::refspec;
use crate::util::{hex_short, par_for, Rng};
use serde_json::json;

/// Independent keyring tokenizer: (name, public key string, private key string) per [Key] section.
pub fn ref_parse(text: &str) -> Vec<(Option<String>, Option<String>, Option<String>)> {
    let mut out: Vec<(Option<String>, Option<String>, Option<String>)> = Vec::new();
    for line in text.lines() {
        let l = line.trim();
        if l.starts_with("[Key]") {
            out.push((None, None, None));
            continue;
        }
        if l.is_empty() || l.starts_with('#') {
            continue;
        }
        if let (Some(cur), Some((k, v))) = (out.last_mut(), l.split_once('=')) {
            match k.trim() {
                "Name" => cur.0 = Some(v.trim().to_string()),
                "PublicKey" => cur.1 = Some(v.trim().to_string()),
                "PrivateKey" => cur.2 = Some(v.trim().to_string()),
                _ => {}
            }
        }
    }
    out
}

struct Step {
    name: String,
    password: String,
}

/// Does the real binary accept this keyring text? (used when the in-process parser is unavailable)
#[allow(dead_code)]
fn tool_accepts(wd: &WorkDir, text: &str) -> bool {
    let p = wd.write("probe-keyring.txt", text.as_bytes());
    wd.write("probe.txt", b"x");
    // an unknown recipient name is reported only after the keyring parsed
    let o = Cmd::new(&wd.path, &["encrypt", "probe.txt", "-t", "no-such-name-kmon", "-f", "no-such-name-kmon", "-k", p.to_str().unwrap(), "--env-pass"]).pass("x").run();
    o.stderr_s().contains("not found")
}


/// A history whose names are near twins of one another (letter case, prefix, accent, composition): all are distinct
/// names, so all are generated into ONE keyring; afterwards EVERY key must be usable under its own name with its own
/// password - as sender (the file names exactly that key) and as recipient (only that key opens the file).
fn near_twin_history(ctx: &Ctx) {
    let families: Vec<Vec<&str>> = vec![
        vec!["bob", "Bob", "BOB", "bobby", "bo", "b\u{f6}b", "bob\u{301}"],
        vec!["Alice Example", "alice example", "Alice  Example", "Alice Example Jr", "Alice"],
        vec!["k\u{e9}y", "ke\u{301}y", "KE\u{301}Y", "key"],
    ];
    let n = ctx.tier.pick(2, families.len());
    crate::util::par_for(n, crate::util::ncpu(), |fi| {
        let fam = &families[(fi + ctx.seed as usize) % families.len()];
        let wd = WorkDir::new("c14t");
        let mut made: Vec<(String, String)> = Vec::new(); // (name, password)
        for (i, name) in fam.iter().enumerate() {
            let pw = format!("pw-{}-{}", fi, i);
            let before = std::fs::read(wd.file("twins.txt")).unwrap_or_default();
            let o = Cmd::new(&wd.path, &["key", "generate", "-o", "twins.txt", "--env-pass"]).pass(&pw).stdin(Stdin::Bytes(format!("{}\n", name).into_bytes())).run();
            ctx.eval();
            let after = std::fs::read(wd.file("twins.txt")).unwrap_or_default();
            if o.exit == Exit::Timeout {
                ctx.inconclusive("C14: timeout");
                return;
            }
            if o.exit != Exit::Code(0) {
                // a tool may refuse a name; then the keyring must be untouched and the name simply is not part of the history
                if after != before {
                    ctx.violation("C14:failed-generation-destroyed-or-altered-the-keyring", json!({"name": name, "exit": o.exit.describe(), "stderr": o.stderr_s()}));
                    return;
                }
                continue;
            }
            if after.len() <= before.len() || after[..before.len()] != before[..] {
                ctx.violation("C14:previous-content-is-not-a-prefix-of-the-new-content:near-twin-names", json!({"name": name, "names_so_far": made.iter().map(|m| m.0.clone()).collect::<Vec<_>>(), "len_before": before.len(), "len_after": after.len()}));
                return;
            }
            made.push((name.to_string(), pw));
        }
        let text = String::from_utf8_lossy(&std::fs::read(wd.file("twins.txt")).unwrap_or_default()).into_owned();
        let secs = ref_parse(&text);
        // what each NAME stands for, read independently from the file: the section with exactly that name
        let mut ids: Vec<(String, String, [u8; 32], [u8; 32])> = Vec::new();
        for (name, pw) in &made {
            let sec = secs.iter().filter(|s| s.0.as_deref() == Some(name.trim())).collect::<Vec<_>>();
            let sk = sec.first().and_then(|s| s.2.as_ref()).and_then(|l| refspec::unlock_sk(l, pw.as_bytes()).ok());
            match (sec.len(), sk) {
                (1, Some(sk)) => ids.push((name.clone(), pw.clone(), sk, refspec::pubkey_of(&sk))),
                _ => {
                    ctx.violation("C14:generated-key-missing-or-not-openable-with-its-password:near-twin-names", json!({"name": name, "sections_with_that_name": sec.len(), "names_in_file": secs.iter().map(|s| s.0.clone()).collect::<Vec<_>>()}));
                    return;
                }
            }
        }
        if ids.len() < 2 {
            ctx.inconclusive("C14 near-twin history: fewer than two names were accepted");
            return;
        }
        wd.write("m.txt", b"to and from a near twin");
        for i in 0..ids.len() {
            let (name, pw, sk, pk) = &ids[i];
            let (oname, _, osk, opk) = &ids[(i + 1) % ids.len()];
            // NAME as sender: the file must carry NAME's own key as sender and open under the other's key
            let e = Cmd::new(&wd.path, &["encrypt", "m.txt", "-t", oname, "-f", name, "-k", "twins.txt", "--env-pass"]).pass(pw).run();
            ctx.eval();
            let as_sender = e.exit == Exit::Code(0) && refspec::decode_key_file(&e.stdout, osk, opk).map(|d| d.body.complete() && d.sender == *pk).unwrap_or(false);
            // NAME as recipient: a file made by the reference for NAME's key must be opened by `-t NAME` with NAME's password
            let mut rng = Rng::fork(ctx.seed, &format!("C14-twin-{}-{}", fi, i));
            let f = refspec::encode_key_file(osk, opk, pk, &rng.arr32(), &rng.arr32(), b"for you", &[7]).unwrap();
            wd.write(&format!("r{}.ktl", i), &f);
            let d = Cmd::new(&wd.path, &["decrypt", &format!("r{}.ktl", i), "-t", name, "-k", "twins.txt", "--env-pass"]).pass(pw).run();
            ctx.eval();
            let as_recipient = d.exit == Exit::Code(0) && d.stdout == b"for you";
            let _ = sk;
            if as_sender && as_recipient {
                ctx.seen("near-twin names in one keyring: each key usable under its own name and password");
                ctx.distinct(&format!("twin|{}|{}", fi, name));
            } else {
                ctx.violation("C14:generated-keys-not-usable-by-the-tool:near-twin-names", json!({"name": name, "other": oname, "names_in_keyring": ids.iter().map(|x| x.0.clone()).collect::<Vec<_>>(), "usable_as_sender": as_sender, "usable_as_recipient": as_recipient,
                    "encrypt_exit": e.exit.describe(), "encrypt_stderr": e.stderr_s(), "decrypt_exit": d.exit.describe(), "decrypt_stderr": d.stderr_s()}));
                return;
            }
        }
    });
}

pub fn run(ctx: &Ctx) {
    ctx.rule(
        "histories of 1..6 `kestrel key generate -o F --env-pass` commands with distinct names and varied passwords from each initial state of F {absent, empty, one-key keyring with and \
         without trailing newline, keyring with comments and blank lines, two-key keyring}; after every step: old bytes are a prefix of the new bytes, the file parses with the real parser and \
         with an independent tokenizer, every key generated so far (and every initial key) is present, its private key unlocks under its own password (reference unlock) to the key whose public \
         key is listed; at the end encrypt/decrypt between pairs of names with the real binary. distinct_nontrivial counts distinct (initial state, step index) observations",
    );
    let histories = ctx.tier.pick(32, 144);
    par_for(histories, crate::util::ncpu(), |h| {
        let mut rng = Rng::fork(ctx.seed, &format!("C14-{}", h));
        let wd = WorkDir::new("c14");
        let init0 = Ident::new("initial-one", "init-pw-1", &mut rng);
        let init1 = Ident::new("initial two", "init-pw-2", &mut rng);
        let states: Vec<(&str, Option<String>, Vec<&Ident>)> = vec![
            ("absent", None, vec![]),
            ("empty file", Some(String::new()), vec![]),
            ("one-key keyring with trailing newline", Some(init0.entry(true)), vec![&init0]),
            ("one-key keyring without trailing newline", Some(init0.entry(true).trim_end().to_string()), vec![&init0]),
            ("keyring with comments and blank lines", Some(format!("# my keys\n\n{}\n# end of file\n\n", init0.entry(true))), vec![&init0]),
            ("two-key keyring, second entry public only", Some(format!("{}\n{}", init0.entry(true), init1.entry(false))), vec![&init0, &init1]),
        ];
        // large keyrings: many public-only entries (> 8 KiB, > 64 KiB) and a long comment block
        let many = |n: usize, rng: &mut Rng| -> String { (0..n).map(|i| format!("[Key]\nName = contact-{}\nPublicKey = {}\n", i, refspec::encode_pk(&refspec::pubkey_of(&rng.arr32())))).collect::<Vec<_>>().join("\n") };
        let big9k = format!("{}\n{}", init0.entry(true), many(110, &mut rng));
        let big70k = format!("{}\n{}", init0.entry(true), many(ctx.tier.pick(900, 2500), &mut rng));
        let comments = format!("{}\n{}", init0.entry(true), "# a line of commentary that makes the file longer than one buffer ........................\n".repeat(120));
        let mut states = states;
        states.push(("keyring larger than 8 KiB (110 contacts)", Some(big9k), vec![&init0]));
        states.push(("keyring with ~10 KiB of trailing comments", Some(comments), vec![&init0]));
        states.push(("keyring larger than 64 KiB (about a thousand contacts)", Some(big70k), vec![&init0]));
        // files whose next generation straddles a power-of-two size (padding is commentary)
        let pad_to = |target: usize, rng: &mut Rng| -> String {
            let head = format!("{}\n", init0.entry(true));
            let line = "# commentary ......................................................................................\n";
            let want = target - 40 - rng.range(0, 200);
            let mut t = String::with_capacity(target + 1000);
            t.push_str(&head);
            while t.len() + line.len() <= want {
                t.push_str(line);
            }
            while t.len() < want {
                t.push_str("#\n");
            }
            t
        };
        states.push(("keyring padded to just under 128 KiB", Some(pad_to(1 << 17, &mut rng)), vec![&init0]));
        states.push(("keyring padded to just under 1 MiB", Some(pad_to(1 << 20, &mut rng)), vec![&init0]));
        states.push(("keyring padded to just under 2 MiB", Some(pad_to(1 << 21, &mut rng)), vec![&init0]));
        if ctx.tier == crate::ctx::Tier::Thorough {
            states.push(("keyring padded to just under 4 MiB", Some(pad_to(1 << 22, &mut rng)), vec![&init0]));
            states.push(("keyring padded to just under 16 MiB", Some(pad_to(1 << 24, &mut rng)), vec![&init0]));
        }
        // F reached through symbolic links
        states.push(("symlink to an existing keyring (relative target)", Some(init0.entry(true)), vec![&init0]));
        states.push(("symlink to an existing keyring (absolute target)", Some(format!("{}\n{}", init0.entry(true), init1.entry(false))), vec![&init0, &init1]));
        states.push(("symlink to an existing keyring via a second link", Some(init0.entry(true)), vec![&init0]));
        states.push(("symlink whose target does not exist yet", None, vec![]));
        let (sname, init, init_ids) = &states[h % states.len()];
        let f = wd.file("keyring.txt");
        if let Some(text) = init {
            std::fs::write(&f, text).unwrap();
        }
        if sname.starts_with("symlink") {
            use std::os::unix::fs::symlink;
            let real = wd.file("real-keyring.txt");
            if init.is_some() {
                std::fs::rename(&f, &real).unwrap();
            }
            let target = if sname.contains("absolute") { real.clone() } else { std::path::PathBuf::from("real-keyring.txt") };
            if sname.contains("via a second link") {
                symlink(&target, wd.file("mid-link")).unwrap();
                symlink("mid-link", &f).unwrap();
            } else {
                symlink(&target, &f).unwrap();
            }
        }
        // thorough: one history in five is long (45 generations cross the 8 KiB mark from an empty file)
        let nsteps = if ctx.tier == crate::ctx::Tier::Thorough && h % 5 == 4 { 45 } else { 1 + (h / states.len()) % 6 };
        let nsteps = if sname.contains("padded") { nsteps.max(2) } else { nsteps };
        let pw_pool = ["", "simple", "p\u{e4}ss w\u{f6}rd \u{2713}", "a much longer password with spaces and symbols !@#$%^&*()", "simple"];
        let steps: Vec<Step> = (0..nsteps)
            .map(|i| {
                // one step in four uses a name of exactly 128 bytes (64 two-byte characters, unique per step)
                let name = if (h + i) % 4 == 3 { format!("{}{:03}{:03}", "\u{e9}".repeat(61), h % 1000, i) } else { format!("gen-{}-{} {}", h, i, ["x", "y z", "\u{e9}"][i % 3]) };
                Step { name, password: pw_pool[(h + i) % pw_pool.len()].to_string() }
            })
            .collect();
        // (name, password) of every private key that must be usable
        let mut expect: Vec<(String, Option<String>)> = init_ids.iter().map(|i| (i.name.clone(), if init.as_ref().map(|t| t.contains(&i.locked)).unwrap_or(false) { Some(i.password.clone()) } else { None })).collect();
        let extra_initial_sections = init.as_ref().map(|t| ref_parse(t).len()).unwrap_or(0) - init_ids.len();
        let mut ok_history = true;
        for (si, st) in steps.iter().enumerate() {
            // every other history also tries names the keyring format cannot hold (more than 128 BYTES, or
            // empty): the command must refuse them and leave the file exactly as it was
            if h % 2 == 1 && si % 2 == 0 {
                let bad = [("\u{e9}".repeat(100), "100 characters / 200 bytes"), ("\u{1f511}".repeat(40), "40 characters / 160 bytes"), ("n".repeat(129), "129 ASCII bytes"), (String::new(), "empty")];
                let (bad_name, what) = &bad[(h / 2 + si) % bad.len()];
                let before = std::fs::read(&f).ok();
                let o = Cmd::new(&wd.path, &["key", "generate", "-o", "keyring.txt", "--env-pass"]).pass("pw").stdin(Stdin::Bytes(format!("{}\n", bad_name).into_bytes())).run();
                ctx.eval();
                let after = std::fs::read(&f).ok();
                let d = || json!({"initial_state": sname, "step": si, "invalid_name": what, "exit": o.exit.describe(), "stderr": o.stderr_s(), "file_len_before": before.as_ref().map(|b| b.len()), "file_len_after": after.as_ref().map(|b| b.len())});
                if o.exit != Exit::Code(1) || after != before {
                    // accepted: the file must at least still be a keyring in which everything is usable
                    let text = String::from_utf8_lossy(after.as_deref().unwrap_or_default()).into_owned();
                    #[cfg(feature = "kr")]
                    let parses = matches!(guarded(|| Keyring::new(&text)), Ok(Ok(_)));
                    #[cfg(not(feature = "kr"))]
                    let parses = tool_accepts(&wd, &text);
                    if !text.is_empty() && !parses {
                        ctx.violation("C14:keyring-no-longer-parses:after-a-name-the-format-cannot-hold", d());
                        ok_history = false;
                        break;
                    }
                    ctx.violation("C14:key-generate-accepted-a-name-the-format-cannot-hold", d());
                    ok_history = false;
                    break;
                }
                ctx.seen("invalid name refused, keyring untouched");
            }
            let before = std::fs::read(&f).ok();
            let o = Cmd::new(&wd.path, &["key", "generate", "-o", "keyring.txt", "--env-pass"]).pass(&st.password).stdin(Stdin::Bytes(format!("{}\n", st.name).into_bytes())).run();
            ctx.eval();
            let after = std::fs::read(&f).unwrap_or_default();
            let after_text = String::from_utf8_lossy(&after).into_owned();
            let detail = || {
                json!({"initial_state": sname, "step": si, "steps_in_history": nsteps, "name": st.name, "password": st.password, "exit": o.exit.describe(), "stderr": o.stderr_s(),
                       "file_before_len": before.as_ref().map(|b| b.len()), "file_after_len": after.len(), "file_before_tail": before.as_ref().map(|b| String::from_utf8_lossy(&b[b.len().saturating_sub(400)..]).into_owned()), "file_after_tail": after_text.chars().rev().take(700).collect::<String>().chars().rev().collect::<String>()})
            };
            if o.exit == Exit::Timeout {
                ctx.inconclusive("C14: child timed out");
                ok_history = false;
                break;
            }
            if o.exit != Exit::Code(0) {
                ctx.violation("C14:key-generate-into-keyring-failed", detail());
                ok_history = false;
                break;
            }
            expect.push((st.name.clone(), Some(st.password.clone())));
                let state_key = if before.is_none() { "absent" } else if before.as_ref().unwrap().is_empty() { "empty" } else if before.as_ref().unwrap().len() > 8192 { "existing-keyring-over-8KiB" } else { "existing-keyring" };
            // 1. previous content is a byte prefix of the new content
            if let Some(b) = &before {
                if after.len() < b.len() || after[..b.len()] != b[..] {
                    ctx.violation(&format!("C14:previous-content-is-not-a-prefix-of-the-new-content:{}", state_key), detail());
                    ok_history = false;
                    break;
                }
            }
            // 2. parses: real parser and independent tokenizer
            #[cfg(not(feature = "kr"))]
            {
                // no in-process parser available: the tool itself must accept the file
                if !tool_accepts(&wd, &after_text) {
                    ctx.violation(&format!("C14:keyring-no-longer-parses:{}", state_key), detail());
                    ok_history = false;
                    break;
                }
            }
            #[cfg(feature = "kr")]
            let parsed = guarded(|| Keyring::new(&after_text));
            #[cfg(feature = "kr")]
            let kr = match parsed {
                Ok(Ok(k)) => k,
                Ok(Err(e)) => {
                    let mut v = detail();
                    v["parse_error"] = json!(e.to_string());
                    ctx.violation(&format!("C14:keyring-no-longer-parses:{}", state_key), v);
                    ok_history = false;
                    break;
                }
                Err(p) => {
                    ctx.violation(&format!("C14:parser-panic:{}", crate::kio::panic_site(&p)), detail());
                    ok_history = false;
                    break;
                }
            };
            let secs = ref_parse(&after_text);
            // 3. every key so far present and usable with its own password
            let mut all_ok = true;
            for (name, pw) in &expect {
                let sec = secs.iter().find(|s| s.0.as_deref() == Some(name.as_str()));
                #[cfg(feature = "kr")]
                let real: Option<String> = kr.get_key(name).map(|k| k.public_key.as_str().to_string());
                #[cfg(not(feature = "kr"))]
                let real: Option<String> = sec.and_then(|s| s.1.clone());
                match (sec, real) {
                    (Some(sec), Some(real_pk)) => {
                        let pk = sec.1.clone().unwrap_or_default();
                        if real_pk != pk {
                            ctx.violation("C14:parsers-disagree-on-an-entry", detail());
                            all_ok = false;
                            break;
                        }
                        if let Some(pw) = pw {
                            let locked = sec.2.clone().unwrap_or_default();
                            match refspec::unlock_sk(&locked, pw.as_bytes()) {
                                Ok(sk) if Some(refspec::pubkey_of(&sk)) == refspec::decode_pk(&pk) => {}
                                _ => {
                                    let mut v = detail();
                                    v["key"] = json!(name);
                                    ctx.violation("C14:key-in-keyring-not-usable-with-its-password", v);
                                    all_ok = false;
                                    break;
                                }
                            }
                        }
                    }
                    _ => {
                        let mut v = detail();
                        v["missing_key"] = json!(name);
                        ctx.violation(&format!("C14:earlier-key-missing-after-generation:{}", state_key), v);
                        all_ok = false;
                        break;
                    }
                }
            }
            if !all_ok {
                ok_history = false;
                break;
            }
            if secs.len() != expect.len() + extra_initial_sections {
                ctx.violation("C14:unexpected-number-of-entries", detail());
                ok_history = false;
                break;
            }
            if before.as_ref().map(|b| b.len().next_power_of_two() != after.len().next_power_of_two() && b.len() > 100_000).unwrap_or(false) {
                ctx.seen("step that carries the file across a power-of-two size above 100 kB");
            }
            if sname.starts_with("symlink") {
                ctx.seen("step through a symbolic link: prefix kept, parses, keys usable");
            }
            ctx.seen(&format!("step into {}: prefix kept, parses, {} keys usable", state_key, expect.len().min(7)));
            ctx.distinct(&format!("{}|step{}|of{}", sname, si, nsteps));
            if h == 3 && si == nsteps - 1 {
                ctx.sample("keyring history", 1, || json!({"initial_state": sname, "names": expect.iter().map(|e| e.0.clone()).collect::<Vec<_>>(), "final_file": after_text}));
            }
        }
        if !ok_history {
            return;
        }
        // a generation whose write fails (file size limit) must leave the keyring exactly as it was
        if h % 3 == 0 {
            let before = std::fs::read(&f).unwrap_or_default();
            if before.len() > 600 {
                let o = Cmd::new(&wd.path, &["key", "generate", "-o", "keyring.txt", "--env-pass"]).pass("pw").stdin(Stdin::Bytes(b"late-comer\n".to_vec())).fsize_limit(1).run();
                ctx.eval();
                let after = std::fs::read(&f).ok();
                if o.exit == Exit::Code(1) && after.as_deref() == Some(&before[..]) {
                    ctx.seen("generation whose write fails leaves the keyring untouched");
                } else if o.exit != Exit::Code(0) {
                    ctx.violation("C14:failed-generation-destroyed-or-altered-the-keyring", json!({"initial_state": sname, "exit": o.exit.describe(), "stderr": o.stderr_s(), "len_before": before.len(), "len_after": after.as_ref().map(|a| a.len())}));
                    return;
                }
            }
        }
        if expect.len() < 2 {
            return;
        }
        // end of history: the real binary can use the keys against each other
        let with_sk: Vec<&(String, Option<String>)> = expect.iter().filter(|e| e.1.is_some()).collect();
        if with_sk.len() >= 2 {
            let (a, b) = (with_sk[0], with_sk[with_sk.len() - 1]);
            let pairs = [(a, b), (b, a)];
            for (from, to) in pairs {
                wd.write("msg.txt", b"hello through the generated keyring");
                let e = Cmd::new(&wd.path, &["encrypt", "msg.txt", "-t", &to.0, "-f", &from.0, "-o", "msg.ktl", "-k", "keyring.txt", "--env-pass"]).pass(from.1.as_ref().unwrap()).run();
                let d = Cmd::new(&wd.path, &["decrypt", "msg.ktl", "-t", &to.0, "-o", "msg.out", "-k", "keyring.txt", "--env-pass"]).pass(to.1.as_ref().unwrap()).run();
                ctx.eval();
                let got = std::fs::read(wd.file("msg.out")).unwrap_or_default();
                if e.exit == Exit::Code(0) && d.exit == Exit::Code(0) && got == b"hello through the generated keyring" && d.stderr_s().contains(&from.0) {
                    ctx.seen("end of history: encrypt/decrypt between generated names works");
                    ctx.distinct(&format!("use|{}|{}", sname, nsteps));
                } else {
                    ctx.violation("C14:generated-keys-not-usable-by-the-tool", json!({"from": from.0, "to": to.0, "encrypt": e.exit.describe(), "encrypt_stderr": e.stderr_s(), "decrypt": d.exit.describe(), "decrypt_stderr": d.stderr_s(), "got": hex_short(&got, 60)}));
                }
                let _ = std::fs::remove_file(wd.file("msg.out"));
                let _ = std::fs::remove_file(wd.file("msg.ktl"));
            }
        }
    });
    near_twin_history(ctx);
    crate::ttylanes::c14(ctx);
    ctx.require("tty: three typed generations into one file, all keys usable", 3);
    ctx.require("step that carries the file across a power-of-two size", 3);
    ctx.require("step through a symbolic link", 4);
    ctx.require("step into existing-keyring", 10);
    ctx.require("step into existing-keyring-over-8KiB", 3);
    ctx.require("step into absent", 1);
    ctx.require("step into empty", 1);
    ctx.require("end of history", 4);
    ctx.require("near-twin names in one keyring", 8);
    ctx.require("invalid name refused, keyring untouched", 5);
}
