//! Process supervisor for the real `kestrel` binary (built from the working tree).
//! Every child runs in its own session (no controlling tty, so a password prompt can never
//! block), with an emptied environment, controlled stdin/stdout wiring and a private
//! working directory; exit status and ru_maxrss come from wait4.

use std::ffi::OsString;
use std::io::{Read, Write};
use std::path::{Path, PathBuf};
use std::process::{Command, Stdio};
use std::sync::atomic::{AtomicU64, Ordering};
use std::time::{Duration, Instant};

pub fn kestrel_bin() -> PathBuf {
    std::env::var_os("KESTREL_BIN").map(PathBuf::from).unwrap_or_else(|| PathBuf::from(format!("{}/harness/target/release/kestrel", crate::ctx::verif_root())))
}

pub fn kestrel_bin_checked() -> PathBuf {
    std::env::var_os("KESTREL_BIN_CHECKED").map(PathBuf::from).unwrap_or_else(|| PathBuf::from(format!("{}/harness/target/checked/kestrel", crate::ctx::verif_root())))
}

/// "Ambient decoys": about every second run of the real binary gets environment entries that the
/// documentation says are irrelevant for that command line - a KESTREL_KEYRING naming another keyring
/// (same common names, other keys) when -k is given, a KESTREL_NEW_PASSWORD when the command is not
/// change-pass, and an unrelated variable whose value is not UTF-8. On a correct tool nothing changes;
/// every lane of every property thereby also checks that nothing does. KMON_AMBIENT=never|always overrides.
static AMBIENT_TURN: AtomicU64 = AtomicU64::new(0);
static AMBIENT_APPLIED: [AtomicU64; 4] = [AtomicU64::new(0), AtomicU64::new(0), AtomicU64::new(0), AtomicU64::new(0)];
static AMBIENT_PLAIN: AtomicU64 = AtomicU64::new(0);

pub fn ambient_stats() -> serde_json::Value {
    serde_json::json!({
        "runs_without_decoys": AMBIENT_PLAIN.load(Ordering::SeqCst),
        "runs_with_a_decoy_KESTREL_KEYRING_next_to_-k": AMBIENT_APPLIED[0].load(Ordering::SeqCst),
        "runs_with_a_decoy_KESTREL_NEW_PASSWORD": AMBIENT_APPLIED[1].load(Ordering::SeqCst),
        "runs_with_an_unrelated_non_UTF-8_variable": AMBIENT_APPLIED[2].load(Ordering::SeqCst),
        "runs_with_stale_sibling_files_(.tmp,.part)_next_to_the_-o_path": AMBIENT_APPLIED[3].load(Ordering::SeqCst),
    })
}

fn decoy_keyring() -> &'static Path {
    static P: std::sync::OnceLock<PathBuf> = std::sync::OnceLock::new();
    P.get_or_init(|| {
        let dir = PathBuf::from(format!("{}/work/ambient-{}", crate::ctx::verif_root(), std::process::id()));
        let _ = std::fs::create_dir_all(&dir);
        let mut rng = crate::util::Rng::new(0x5eed_dec0);
        let mut text = String::new();
        for (n, pw) in [("alice", "apw"), ("bob", "bpw"), ("peer", "peer-pw"), ("partner", "partner-pw"), ("owner", "pw"), ("mallory", "pw"), ("carol", "pw"), ("initial-one", "init-pw-1")] {
            text.push_str(&Ident::new(n, pw, &mut rng).entry(true));
            text.push('\n');
        }
        let f = dir.join("decoy-keyring.txt");
        let _ = std::fs::write(&f, text);
        f
    })
}

pub fn remove_ambient_files() {
    let _ = std::fs::remove_dir_all(format!("{}/work/ambient-{}", crate::ctx::verif_root(), std::process::id()));
}

#[derive(Clone, Debug)]
pub enum Stdin {
    Null,
    Bytes(Vec<u8>),
    /// fed in pieces of the given sizes with a flush + tiny pause between them (forces short reads)
    Dribble(Vec<u8>, Vec<usize>),
    File(PathBuf),
    /// a pipe whose write end is closed at once (immediate EOF)
    Empty,
    /// this many zero bytes through a pipe
    Zeros(u64),
}

#[derive(Clone, Debug)]
pub enum Stdout {
    Capture,
    File(PathBuf),
    DevFull,
    /// a pipe whose read end is already closed (EPIPE on write; SIGPIPE is ignored by Rust binaries)
    ClosedPipe,
    Null,
    /// stdout is a pipe whose write end is O_NONBLOCK; the reader takes `first` bytes, pauses, then drains
    SlowNonBlocking { first: usize, pause_ms: u64 },
}

#[derive(Clone, Debug, PartialEq)]
pub enum Exit {
    Code(i32),
    Signal(i32),
    Timeout,
}

impl Exit {
    pub fn describe(&self) -> String {
        match self {
            Exit::Code(c) => format!("exit {}", c),
            Exit::Signal(s) => format!("signal {}", s),
            Exit::Timeout => "timeout".into(),
        }
    }
}

pub struct Output {
    pub exit: Exit,
    pub stdout: Vec<u8>,
    pub stderr: Vec<u8>,
    pub maxrss_kb: i64,
    pub wall: Duration,
    /// user + system CPU time of the child (from wait4): tells a spinning child from a blocked or starved one
    pub cpu_ms: u64,
}

impl Output {
    pub fn stderr_s(&self) -> String {
        String::from_utf8_lossy(&self.stderr).into_owned()
    }
    pub fn stdout_s(&self) -> String {
        String::from_utf8_lossy(&self.stdout).into_owned()
    }
    pub fn has_error_line(&self) -> bool {
        self.stderr_s().lines().any(|l| l.contains("Error:"))
    }
}

#[derive(Clone, Debug)]
pub struct Cmd {
    pub bin: PathBuf,
    pub args: Vec<OsString>,
    pub env: Vec<(String, OsString)>,
    pub stdin: Stdin,
    pub stdout: Stdout,
    pub cwd: PathBuf,
    pub timeout: Duration,
    /// RLIMIT_FSIZE in 512-byte blocks with SIGXFSZ ignored: a regular-file sink then accepts
    /// a short write at the limit and fails the next one (a real OS partial write)
    pub fsize_blocks: Option<u64>,
    /// shell commands run in the child before the tool is exec'ed (process state: cwd, descriptors, limits, umask)
    pub prelude: Option<String>,
}

impl Cmd {
    pub fn new(cwd: &Path, args: &[&str]) -> Cmd {
        Cmd {
            bin: kestrel_bin(),
            args: args.iter().map(OsString::from).collect(),
            env: vec![],
            stdin: Stdin::Null,
            stdout: Stdout::Capture,
            cwd: cwd.to_path_buf(),
            timeout: Duration::from_secs(120),
            fsize_blocks: None,
            prelude: None,
        }
    }
    /// Run `script` (sh) in the child just before exec'ing the tool.
    pub fn prelude(mut self, script: &str) -> Cmd {
        self.prelude = Some(script.to_string());
        self
    }
    pub fn fsize_limit(mut self, blocks: u64) -> Cmd {
        self.fsize_blocks = Some(blocks);
        self
    }
    pub fn os_args(cwd: &Path, args: Vec<OsString>) -> Cmd {
        Cmd { bin: kestrel_bin(), args, env: vec![], stdin: Stdin::Null, stdout: Stdout::Capture, cwd: cwd.to_path_buf(), timeout: Duration::from_secs(120), fsize_blocks: None, prelude: None }
    }
    pub fn env(mut self, k: &str, v: &str) -> Cmd {
        self.env.push((k.to_string(), OsString::from(v)));
        self
    }
    pub fn env_os(mut self, k: &str, v: OsString) -> Cmd {
        self.env.push((k.to_string(), v));
        self
    }
    pub fn pass(self, p: &str) -> Cmd {
        self.env("KESTREL_PASSWORD", p)
    }
    pub fn stdin(mut self, s: Stdin) -> Cmd {
        self.stdin = s;
        self
    }
    pub fn stdout(mut self, s: Stdout) -> Cmd {
        self.stdout = s;
        self
    }
    pub fn bin(mut self, b: PathBuf) -> Cmd {
        self.bin = b;
        self
    }
    pub fn describe(&self) -> String {
        let a: Vec<String> = self.args.iter().map(|a| format!("{:?}", a)).collect();
        let e: Vec<String> = self.env.iter().map(|(k, v)| format!("{}={:?}", k, v)).collect();
        let si = match &self.stdin {
            Stdin::Null => "null".to_string(),
            Stdin::Bytes(b) => format!("pipe({} bytes)", b.len()),
            Stdin::Dribble(b, s) => format!("dribble({} bytes in {} pieces)", b.len(), s.len()),
            Stdin::File(p) => format!("file({})", p.display()),
            Stdin::Empty => "empty-pipe".to_string(),
            Stdin::Zeros(n) => format!("pipe({} zero bytes)", n),
        };
        format!("kestrel {} env[{}] stdin={} stdout={:?}{}", a.join(" "), e.join(" "), si, self.stdout, format!("{}{}", self.fsize_blocks.map(|b| format!(" [ulimit -f {} with SIGXFSZ ignored]", b)).unwrap_or_default(), self.prelude.as_ref().map(|p| format!(" [sh prelude: {}]", p)).unwrap_or_default()))
    }

    pub fn run(&self) -> Output {
        let start = Instant::now();
        // A new session (no controlling terminal) through the setsid(1) wrapper rather than a
        // pre_exec hook: without pre_exec std can use posix_spawn, which does not copy the page
        // tables of this multi-threaded monitor for every child.
        let mut c = Command::new("/usr/bin/setsid");
        c.arg("-w");
        if self.fsize_blocks.is_some() || self.prelude.is_some() {
            let mut script = String::new();
            if let Some(blocks) = self.fsize_blocks {
                script.push_str(&format!("trap '' 25; ulimit -f {}; ", blocks));
            }
            if let Some(p) = &self.prelude {
                script.push_str(p);
                script.push_str("; ");
            }
            script.push_str("exec \"$@\"");
            c.arg("/bin/sh");
            c.arg("-c");
            c.arg(script);
            c.arg("sh");
        }
        c.arg(&self.bin);
        c.args(&self.args);
        c.env_clear();
        for (k, v) in &self.env {
            c.env(k, v);
        }
        let mode = std::env::var("KMON_AMBIENT").unwrap_or_default();
        let is_kestrel = self.bin.file_name().map(|n| n == "kestrel").unwrap_or(false);
        let ambient = is_kestrel && mode != "never" && (mode == "always" || AMBIENT_TURN.fetch_add(1, Ordering::SeqCst) % 2 == 1);
        if ambient {
            let has = |k: &str| self.env.iter().any(|(n, _)| n == k);
            let arg = |a: &str| self.args.iter().any(|x| x == a);
            if (arg("-k") || arg("--keyring")) && !has("KESTREL_KEYRING") {
                c.env("KESTREL_KEYRING", decoy_keyring());
                AMBIENT_APPLIED[0].fetch_add(1, Ordering::SeqCst);
            }
            if !arg("change-pass") && !has("KESTREL_NEW_PASSWORD") {
                c.env("KESTREL_NEW_PASSWORD", "kmon decoy new password");
                AMBIENT_APPLIED[1].fetch_add(1, Ordering::SeqCst);
            }
            // stale sibling files next to the -o path, as an interrupted earlier run of some tool could leave them
            if let Some(i) = self.args.iter().position(|x| x == "-o" || x == "--output") {
                if let Some(o) = self.args.get(i + 1).and_then(|x| x.to_str()) {
                    let plain_name = !o.is_empty() && !o.contains('/') && !o.starts_with('-') && !o.starts_with('.') && o.len() < 200;
                    if plain_name && self.cwd.starts_with(format!("{}/work", crate::ctx::verif_root())) {
                        static STALE: std::sync::OnceLock<String> = std::sync::OnceLock::new();
                        let stale = STALE.get_or_init(|| {
                            let mut rng = crate::util::Rng::new(0x57a1e);
                            let id = Ident::new("stale", "stale", &mut rng);
                            let mut t = String::new();
                            while t.len() < 200_000 {
                                t.push_str(&format!("[Key]\nName = stale-{}\nPublicKey = {}\nPrivateKey = {}\n\n", t.len(), crate::refspec::encode_pk(&crate::refspec::pubkey_of(&rng.arr32())), id.locked));
                            }
                            t
                        });
                        for suffix in [".tmp", ".part"] {
                            let p = self.cwd.join(format!("{}{}", o, suffix));
                            if !p.exists() {
                                let _ = std::fs::write(&p, stale);
                            }
                        }
                        AMBIENT_APPLIED[3].fetch_add(1, Ordering::SeqCst);
                    }
                }
            }
            if !has("KMON_UNRELATED") {
                use std::os::unix::ffi::OsStringExt;
                c.env("KMON_UNRELATED", OsString::from_vec(vec![b'x', 0xff, 0xfe, b'y']));
                AMBIENT_APPLIED[2].fetch_add(1, Ordering::SeqCst);
            }
        } else if is_kestrel {
            AMBIENT_PLAIN.fetch_add(1, Ordering::SeqCst);
        }
        c.current_dir(&self.cwd);
        let mut closed_pipe_keep: Option<i32> = None;
        match &self.stdin {
            Stdin::Null => {
                c.stdin(Stdio::null());
            }
            Stdin::File(p) => {
                c.stdin(Stdio::from(std::fs::File::open(p).expect("stdin file")));
            }
            _ => {
                c.stdin(Stdio::piped());
            }
        }
        match &self.stdout {
            Stdout::Capture => {
                c.stdout(Stdio::piped());
            }
            Stdout::File(p) => {
                c.stdout(Stdio::from(std::fs::File::create(p).expect("stdout file")));
            }
            Stdout::DevFull => {
                c.stdout(Stdio::from(std::fs::OpenOptions::new().write(true).open("/dev/full").expect("/dev/full")));
            }
            Stdout::Null => {
                c.stdout(Stdio::null());
            }
            Stdout::SlowNonBlocking { .. } => {
                // wired below (needs a reader thread)
            }
            Stdout::ClosedPipe => {
                let mut fds = [0i32; 2];
                unsafe {
                    assert_eq!(libc::pipe2(fds.as_mut_ptr(), libc::O_CLOEXEC), 0);
                    libc::close(fds[0]);
                    use std::os::unix::io::FromRawFd;
                    c.stdout(Stdio::from(std::fs::File::from_raw_fd(fds[1])));
                }
                closed_pipe_keep = Some(fds[1]);
            }
        }
        let mut slow_reader: Option<std::thread::JoinHandle<Vec<u8>>> = None;
        if let Stdout::SlowNonBlocking { first, pause_ms } = &self.stdout {
            let mut fds = [0i32; 2];
            unsafe {
                assert_eq!(libc::pipe2(fds.as_mut_ptr(), libc::O_CLOEXEC), 0);
                let fl = libc::fcntl(fds[1], libc::F_GETFL);
                libc::fcntl(fds[1], libc::F_SETFL, fl | libc::O_NONBLOCK);
                use std::os::unix::io::FromRawFd;
                c.stdout(Stdio::from(std::fs::File::from_raw_fd(fds[1])));
                let mut rd = std::fs::File::from_raw_fd(fds[0]);
                let (first, pause) = (*first, *pause_ms);
                slow_reader = Some(std::thread::spawn(move || {
                    let mut got = Vec::new();
                    let mut buf = vec![0u8; first.max(1)];
                    let mut taken = 0;
                    while taken < first {
                        match rd.read(&mut buf[..first - taken]) {
                            Ok(0) | Err(_) => return got,
                            Ok(n) => {
                                got.extend_from_slice(&buf[..n]);
                                taken += n;
                            }
                        }
                    }
                    std::thread::sleep(Duration::from_millis(pause));
                    let _ = rd.read_to_end(&mut got);
                    got
                }));
            }
        }
        let _ = closed_pipe_keep;
        c.stderr(Stdio::piped());
        let mut child = match c.spawn() {
            Ok(ch) => ch,
            Err(e) => {
                return Output { exit: Exit::Code(-1), stdout: vec![], stderr: format!("kmon: spawn failed: {}", e).into_bytes(), maxrss_kb: 0, wall: start.elapsed(), cpu_ms: 0 };
            }
        };
        let pid = child.id() as i32;
        let stdin_h = child.stdin.take();
        let stdout_h = child.stdout.take();
        let stderr_h = child.stderr.take();
        let stdin_spec = self.stdin.clone();
        let child_done = std::sync::Arc::new(std::sync::atomic::AtomicBool::new(false));
        let child_done2 = child_done.clone();
        let feeder = std::thread::spawn(move || {
            if let Some(mut h) = stdin_h {
                match stdin_spec {
                    Stdin::Bytes(b) => {
                        let _ = h.write_all(&b);
                    }
                    Stdin::Zeros(n) => {
                        let block = vec![0u8; 1 << 20];
                        let mut left = n;
                        while left > 0 {
                            let k = (left as usize).min(block.len());
                            if h.write_all(&block[..k]).is_err() {
                                break;
                            }
                            left -= k as u64;
                        }
                    }
                    Stdin::Dribble(b, sizes) => {
                        let mut off = 0;
                        let mut i = 0;
                        while off < b.len() {
                            // a size of 0 in the script is a long pause (longer than the key derivation
                            // the tool performs before its first read), so the next read is really short
                            if child_done2.load(Ordering::SeqCst) {
                                break;
                            }
                            if sizes.get(i).copied() == Some(0) {
                                for _ in 0..9 {
                                    if child_done2.load(Ordering::SeqCst) {
                                        break;
                                    }
                                    std::thread::sleep(Duration::from_millis(50));
                                }
                                i += 1;
                                continue;
                            }
                            let n = sizes.get(i).copied().unwrap_or(65536).max(1).min(b.len() - off);
                            if h.write_all(&b[off..off + n]).is_err() {
                                break;
                            }
                            let _ = h.flush();
                            off += n;
                            i += 1;
                            std::thread::sleep(Duration::from_millis(2));
                        }
                    }
                    _ => {}
                }
                drop(h);
            }
        });
        let out_t = std::thread::spawn(move || {
            let mut v = Vec::new();
            if let Some(mut h) = stdout_h {
                let _ = h.read_to_end(&mut v);
            }
            v
        });
        let err_t = std::thread::spawn(move || {
            let mut v = Vec::new();
            if let Some(mut h) = stderr_h {
                let _ = h.read_to_end(&mut v);
            }
            v
        });
        let mut status: i32 = 0;
        let mut ru: libc::rusage = unsafe { std::mem::zeroed() };
        let mut exit = Exit::Timeout;
        let mut sleep_us = 200u64;
        loop {
            let r = unsafe { libc::wait4(pid, &mut status, libc::WNOHANG, &mut ru) };
            if r == pid {
                exit = if libc::WIFEXITED(status) {
                    Exit::Code(libc::WEXITSTATUS(status))
                } else if libc::WIFSIGNALED(status) {
                    Exit::Signal(libc::WTERMSIG(status))
                } else {
                    Exit::Code(-2)
                };
                break;
            }
            if r < 0 {
                exit = Exit::Code(-3);
                break;
            }
            if start.elapsed() > self.timeout {
                unsafe {
                    libc::kill(-pid, libc::SIGKILL);
                    libc::kill(pid, libc::SIGKILL);
                    libc::wait4(pid, &mut status, 0, &mut ru);
                }
                break;
            }
            std::thread::sleep(Duration::from_micros(sleep_us));
            sleep_us = (sleep_us * 2).min(5000);
        }
        child_done.store(true, Ordering::SeqCst);
        std::mem::forget(child);
        // the Command still holds our copy of the pipe's write end: drop it so the slow reader sees EOF
        drop(c);
        let _ = feeder.join();
        let mut stdout = out_t.join().unwrap_or_default();
        if let Some(h) = slow_reader {
            stdout = h.join().unwrap_or_default();
        }
        let stderr = err_t.join().unwrap_or_default();
        let cpu_ms = (ru.ru_utime.tv_sec as u64 + ru.ru_stime.tv_sec as u64) * 1000 + (ru.ru_utime.tv_usec as u64 + ru.ru_stime.tv_usec as u64) / 1000;
        Output { exit, stdout, stderr, maxrss_kb: ru.ru_maxrss as i64, wall: start.elapsed(), cpu_ms }
    }
}

static DIR_COUNTER: AtomicU64 = AtomicU64::new(0);

/// A private scratch directory under $VERIF_ROOT/work, removed on drop.
pub struct WorkDir {
    pub path: PathBuf,
}

impl WorkDir {
    pub fn new(tag: &str) -> WorkDir {
        let n = DIR_COUNTER.fetch_add(1, Ordering::Relaxed);
        let path = PathBuf::from(format!("{}/work/{}-{}-{}", crate::ctx::verif_root(), tag, std::process::id(), n));
        std::fs::create_dir_all(&path).expect("create work dir");
        WorkDir { path }
    }
    pub fn file(&self, name: &str) -> PathBuf {
        self.path.join(name)
    }
    pub fn write(&self, name: &str, data: &[u8]) -> PathBuf {
        let p = self.path.join(name);
        std::fs::write(&p, data).expect("write work file");
        p
    }
    pub fn s(&self, name: &str) -> String {
        self.path.join(name).to_string_lossy().into_owned()
    }
}

impl Drop for WorkDir {
    fn drop(&mut self) {
        let _ = std::fs::remove_dir_all(&self.path);
    }
}

/// A keyring entry produced by the reference (not by the code under test).
#[derive(Clone)]
pub struct Ident {
    pub name: String,
    pub sk: [u8; 32],
    pub pk: [u8; 32],
    pub password: String,
    pub locked: String,
    pub encoded_pk: String,
}

impl Ident {
    pub fn new(name: &str, password: &str, rng: &mut crate::util::Rng) -> Ident {
        let sk = rng.arr32();
        let pk = crate::refspec::pubkey_of(&sk);
        let locked = crate::refspec::lock_sk(&sk, password.as_bytes(), &rng.arr32());
        Ident { name: name.to_string(), sk, pk, password: password.to_string(), locked, encoded_pk: crate::refspec::encode_pk(&pk) }
    }
    pub fn entry(&self, with_private: bool) -> String {
        if with_private {
            format!("[Key]\nName = {}\nPublicKey = {}\nPrivateKey = {}\n", self.name, self.encoded_pk, self.locked)
        } else {
            format!("[Key]\nName = {}\nPublicKey = {}\n", self.name, self.encoded_pk)
        }
    }
}

pub fn keyring_text(entries: &[(&Ident, bool)]) -> String {
    entries.iter().map(|(i, p)| i.entry(*p)).collect::<Vec<_>>().join("\n")
}
