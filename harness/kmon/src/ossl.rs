//! Hand-written FFI to OpenSSL's libcrypto: the independent primitive oracle.
//! Nothing here shares code with kestrel-crypto or orion.

use libc::{c_char, c_int, c_uchar, c_void, size_t};

#[allow(non_camel_case_types)]
type EVP_CIPHER_CTX = c_void;
#[allow(non_camel_case_types)]
type EVP_CIPHER = c_void;
#[allow(non_camel_case_types)]
type EVP_MD = c_void;
#[allow(non_camel_case_types)]
type EVP_PKEY = c_void;
#[allow(non_camel_case_types)]
type EVP_PKEY_CTX = c_void;
#[allow(non_camel_case_types)]
type ENGINE = c_void;

const EVP_CTRL_AEAD_SET_IVLEN: c_int = 0x9;
const EVP_CTRL_AEAD_GET_TAG: c_int = 0x10;
const EVP_CTRL_AEAD_SET_TAG: c_int = 0x11;
const EVP_PKEY_X25519: c_int = 1034;

#[link(name = "crypto")]
extern "C" {
    fn EVP_CIPHER_CTX_new() -> *mut EVP_CIPHER_CTX;
    fn EVP_CIPHER_CTX_free(ctx: *mut EVP_CIPHER_CTX);
    fn EVP_chacha20_poly1305() -> *const EVP_CIPHER;
    fn EVP_CIPHER_CTX_ctrl(ctx: *mut EVP_CIPHER_CTX, t: c_int, arg: c_int, ptr: *mut c_void) -> c_int;
    fn EVP_EncryptInit_ex(
        ctx: *mut EVP_CIPHER_CTX,
        cipher: *const EVP_CIPHER,
        engine: *mut ENGINE,
        key: *const c_uchar,
        iv: *const c_uchar,
    ) -> c_int;
    fn EVP_EncryptUpdate(
        ctx: *mut EVP_CIPHER_CTX,
        out: *mut c_uchar,
        outl: *mut c_int,
        inp: *const c_uchar,
        inl: c_int,
    ) -> c_int;
    fn EVP_EncryptFinal_ex(ctx: *mut EVP_CIPHER_CTX, out: *mut c_uchar, outl: *mut c_int) -> c_int;
    fn EVP_DecryptInit_ex(
        ctx: *mut EVP_CIPHER_CTX,
        cipher: *const EVP_CIPHER,
        engine: *mut ENGINE,
        key: *const c_uchar,
        iv: *const c_uchar,
    ) -> c_int;
    fn EVP_DecryptUpdate(
        ctx: *mut EVP_CIPHER_CTX,
        out: *mut c_uchar,
        outl: *mut c_int,
        inp: *const c_uchar,
        inl: c_int,
    ) -> c_int;
    fn EVP_DecryptFinal_ex(ctx: *mut EVP_CIPHER_CTX, out: *mut c_uchar, outl: *mut c_int) -> c_int;

    fn SHA256(d: *const c_uchar, n: size_t, md: *mut c_uchar) -> *mut c_uchar;
    fn EVP_sha256() -> *const EVP_MD;
    fn HMAC(
        md: *const EVP_MD,
        key: *const c_void,
        key_len: c_int,
        d: *const c_uchar,
        n: size_t,
        out: *mut c_uchar,
        out_len: *mut libc::c_uint,
    ) -> *mut c_uchar;
    fn EVP_PBE_scrypt(
        pass: *const c_char,
        passlen: size_t,
        salt: *const c_uchar,
        saltlen: size_t,
        n: u64,
        r: u64,
        p: u64,
        maxmem: u64,
        key: *mut c_uchar,
        keylen: size_t,
    ) -> c_int;

    fn EVP_PKEY_new_raw_private_key(t: c_int, e: *mut ENGINE, key: *const c_uchar, len: size_t) -> *mut EVP_PKEY;
    fn EVP_PKEY_new_raw_public_key(t: c_int, e: *mut ENGINE, key: *const c_uchar, len: size_t) -> *mut EVP_PKEY;
    fn EVP_PKEY_get_raw_public_key(k: *const EVP_PKEY, out: *mut c_uchar, len: *mut size_t) -> c_int;
    fn EVP_PKEY_free(k: *mut EVP_PKEY);
    fn EVP_PKEY_CTX_new(k: *mut EVP_PKEY, e: *mut ENGINE) -> *mut EVP_PKEY_CTX;
    fn EVP_PKEY_CTX_free(c: *mut EVP_PKEY_CTX);
    fn EVP_PKEY_derive_init(c: *mut EVP_PKEY_CTX) -> c_int;
    fn EVP_PKEY_derive_set_peer(c: *mut EVP_PKEY_CTX, peer: *mut EVP_PKEY) -> c_int;
    fn EVP_PKEY_derive(c: *mut EVP_PKEY_CTX, key: *mut c_uchar, keylen: *mut size_t) -> c_int;
    fn ERR_clear_error();
}

static EMPTY: [u8; 1] = [0];

fn p(b: &[u8]) -> *const c_uchar {
    if b.is_empty() {
        EMPTY.as_ptr()
    } else {
        b.as_ptr()
    }
}

/// RFC 8439 AEAD seal: returns ciphertext || tag.
pub fn aead_seal(key: &[u8; 32], nonce: &[u8; 12], aad: &[u8], pt: &[u8]) -> Vec<u8> {
    unsafe {
        let ctx = EVP_CIPHER_CTX_new();
        assert!(!ctx.is_null());
        assert_eq!(EVP_EncryptInit_ex(ctx, EVP_chacha20_poly1305(), std::ptr::null_mut(), std::ptr::null(), std::ptr::null()), 1);
        assert_eq!(EVP_CIPHER_CTX_ctrl(ctx, EVP_CTRL_AEAD_SET_IVLEN, 12, std::ptr::null_mut()), 1);
        assert_eq!(EVP_EncryptInit_ex(ctx, std::ptr::null(), std::ptr::null_mut(), key.as_ptr(), nonce.as_ptr()), 1);
        let mut outl: c_int = 0;
        if !aad.is_empty() {
            assert_eq!(EVP_EncryptUpdate(ctx, std::ptr::null_mut(), &mut outl, aad.as_ptr(), aad.len() as c_int), 1);
        }
        let mut out = vec![0u8; pt.len() + 16];
        let mut total = 0usize;
        if !pt.is_empty() {
            assert_eq!(EVP_EncryptUpdate(ctx, out.as_mut_ptr(), &mut outl, pt.as_ptr(), pt.len() as c_int), 1);
            total += outl as usize;
        }
        assert_eq!(EVP_EncryptFinal_ex(ctx, out.as_mut_ptr().add(total), &mut outl), 1);
        total += outl as usize;
        assert_eq!(total, pt.len());
        assert_eq!(
            EVP_CIPHER_CTX_ctrl(ctx, EVP_CTRL_AEAD_GET_TAG, 16, out.as_mut_ptr().add(total) as *mut c_void),
            1
        );
        EVP_CIPHER_CTX_free(ctx);
        out
    }
}

/// RFC 8439 AEAD open on ciphertext || tag. None on authentication failure or if shorter than a tag.
pub fn aead_open(key: &[u8; 32], nonce: &[u8; 12], aad: &[u8], ct_tag: &[u8]) -> Option<Vec<u8>> {
    if ct_tag.len() < 16 {
        return None;
    }
    let (ct, tag) = ct_tag.split_at(ct_tag.len() - 16);
    unsafe {
        let ctx = EVP_CIPHER_CTX_new();
        assert!(!ctx.is_null());
        assert_eq!(EVP_DecryptInit_ex(ctx, EVP_chacha20_poly1305(), std::ptr::null_mut(), std::ptr::null(), std::ptr::null()), 1);
        assert_eq!(EVP_CIPHER_CTX_ctrl(ctx, EVP_CTRL_AEAD_SET_IVLEN, 12, std::ptr::null_mut()), 1);
        assert_eq!(EVP_DecryptInit_ex(ctx, std::ptr::null(), std::ptr::null_mut(), key.as_ptr(), nonce.as_ptr()), 1);
        let mut outl: c_int = 0;
        if !aad.is_empty() {
            assert_eq!(EVP_DecryptUpdate(ctx, std::ptr::null_mut(), &mut outl, aad.as_ptr(), aad.len() as c_int), 1);
        }
        let mut out = vec![0u8; ct.len() + 1];
        let mut total = 0usize;
        if !ct.is_empty() {
            assert_eq!(EVP_DecryptUpdate(ctx, out.as_mut_ptr(), &mut outl, ct.as_ptr(), ct.len() as c_int), 1);
            total += outl as usize;
        }
        let mut tagbuf = [0u8; 16];
        tagbuf.copy_from_slice(tag);
        assert_eq!(EVP_CIPHER_CTX_ctrl(ctx, EVP_CTRL_AEAD_SET_TAG, 16, tagbuf.as_mut_ptr() as *mut c_void), 1);
        let ok = EVP_DecryptFinal_ex(ctx, out.as_mut_ptr().add(total), &mut outl);
        EVP_CIPHER_CTX_free(ctx);
        if ok != 1 {
            ERR_clear_error();
            return None;
        }
        total += outl as usize;
        out.truncate(total);
        Some(out)
    }
}

pub fn sha256(data: &[u8]) -> [u8; 32] {
    let mut out = [0u8; 32];
    unsafe {
        SHA256(p(data), data.len(), out.as_mut_ptr());
    }
    out
}

pub fn hmac_sha256(key: &[u8], data: &[u8]) -> [u8; 32] {
    let mut out = [0u8; 32];
    let mut len: libc::c_uint = 0;
    unsafe {
        let r = HMAC(
            EVP_sha256(),
            p(key) as *const c_void,
            key.len() as c_int,
            p(data),
            data.len(),
            out.as_mut_ptr(),
            &mut len,
        );
        assert!(!r.is_null());
    }
    assert_eq!(len, 32);
    out
}

/// RFC 5869 HKDF-SHA256 built on OpenSSL's HMAC.
pub fn hkdf_sha256(salt: &[u8], ikm: &[u8], info: &[u8], len: usize) -> Vec<u8> {
    assert!(len <= 255 * 32);
    let zero = [0u8; 32];
    let prk = hmac_sha256(if salt.is_empty() { &zero } else { salt }, ikm);
    let mut okm = Vec::with_capacity(len + 32);
    let mut t: Vec<u8> = Vec::new();
    let mut i = 1u8;
    while okm.len() < len {
        let mut m = t.clone();
        m.extend_from_slice(info);
        m.push(i);
        t = hmac_sha256(&prk, &m).to_vec();
        okm.extend_from_slice(&t);
        i = i.wrapping_add(1);
    }
    okm.truncate(len);
    okm
}

/// RFC 7914 scrypt through EVP_PBE_scrypt. None if OpenSSL refuses the parameters.
pub fn scrypt(pw: &[u8], salt: &[u8], n: u64, r: u64, pp: u64, dk_len: usize) -> Option<Vec<u8>> {
    let mut out = vec![0u8; dk_len.max(1)];
    let ok = unsafe {
        EVP_PBE_scrypt(
            p(pw) as *const c_char,
            pw.len(),
            p(salt),
            salt.len(),
            n,
            r,
            pp,
            2u64 << 30,
            out.as_mut_ptr(),
            dk_len,
        )
    };
    if ok != 1 {
        unsafe { ERR_clear_error() };
        return None;
    }
    out.truncate(dk_len);
    Some(out)
}

/// X25519(k, u) via EVP_PKEY_derive. None if OpenSSL reports failure (all-zero output).
pub fn x25519(k: &[u8; 32], u: &[u8; 32]) -> Option<[u8; 32]> {
    unsafe {
        let sk = EVP_PKEY_new_raw_private_key(EVP_PKEY_X25519, std::ptr::null_mut(), k.as_ptr(), 32);
        let pk = EVP_PKEY_new_raw_public_key(EVP_PKEY_X25519, std::ptr::null_mut(), u.as_ptr(), 32);
        assert!(!sk.is_null() && !pk.is_null());
        let ctx = EVP_PKEY_CTX_new(sk, std::ptr::null_mut());
        assert!(!ctx.is_null());
        assert_eq!(EVP_PKEY_derive_init(ctx), 1);
        let mut res = None;
        if EVP_PKEY_derive_set_peer(ctx, pk) == 1 {
            let mut out = [0u8; 32];
            let mut len: size_t = 32;
            if EVP_PKEY_derive(ctx, out.as_mut_ptr(), &mut len) == 1 && len == 32 {
                res = Some(out);
            }
        }
        ERR_clear_error();
        EVP_PKEY_CTX_free(ctx);
        EVP_PKEY_free(sk);
        EVP_PKEY_free(pk);
        res
    }
}

pub fn x25519_public(k: &[u8; 32]) -> [u8; 32] {
    unsafe {
        let sk = EVP_PKEY_new_raw_private_key(EVP_PKEY_X25519, std::ptr::null_mut(), k.as_ptr(), 32);
        assert!(!sk.is_null());
        let mut out = [0u8; 32];
        let mut len: size_t = 32;
        assert_eq!(EVP_PKEY_get_raw_public_key(sk, out.as_mut_ptr(), &mut len), 1);
        EVP_PKEY_free(sk);
        out
    }
}
