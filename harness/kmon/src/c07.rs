//! C07 - fresh randomness everywhere; no (key, nonce) pair reused.
//! History monitor: every random 32-byte field of every output of a history goes into one
//! set; any repeated value (same class or another) refutes the property. Per file, the
//! reference opens chunk i under nonce i and checks the counter field.

use crate::cli::{Cmd, Exit, Ident, Stdin, WorkDir};
use crate::ctx::Ctx;
use crate::ioscript::Sched;
use crate::kio::*;
use crate::refspec;
use crate::util::{hex, Rng};
use serde_json::json;
use std::collections::HashMap;
use std::sync::Mutex;

pub struct History {
    seen: Mutex<HashMap<[u8; 32], (String, String)>>,
    per_class: Mutex<HashMap<String, Vec<[u8; 32]>>>,
}

impl History {
    pub fn new() -> History {
        History { seen: Mutex::new(HashMap::new()), per_class: Mutex::new(HashMap::new()) }
    }
    /// Record a value; a repeat is a violation.
    pub fn add(&self, ctx: &Ctx, class: &str, origin: &str, v: &[u8; 32]) {
        ctx.eval();
        ctx.seen(&format!("values recorded: {}", class));
        self.per_class.lock().unwrap().entry(class.to_string()).or_default().push(*v);
        let mut g = self.seen.lock().unwrap();
        if let Some((c0, o0)) = g.get(v) {
            let mut classes = [c0.clone(), class.to_string()];
            classes.sort();
            ctx.violation(
                &format!("C07:repeated-value:{}/{}", classes[0], classes[1]),
                json!({"value": hex(v), "first": {"class": c0, "origin": o0}, "second": {"class": class, "origin": origin}}),
            );
        } else {
            g.insert(*v, (class.to_string(), origin.to_string()));
            ctx.distinct(&format!("{}|{}", class, hex(v)));
        }
    }
    /// Degenerate byte positions: over >= 100 samples of a class, a byte position that takes
    /// <= 8 distinct values is not fresh randomness (a uniform byte would show > 60).
    pub fn entropy_screen(&self, ctx: &Ctx) {
        let g = self.per_class.lock().unwrap();
        for (class, vals) in g.iter() {
            if vals.len() < 100 {
                continue;
            }
            let mut worst = 256usize;
            for pos in 0..32 {
                let mut set = [false; 256];
                for v in vals {
                    set[v[pos] as usize] = true;
                }
                let d = set.iter().filter(|x| **x).count();
                // byte 31 of an X25519 public key has its top bit clear: still 128 values
                worst = worst.min(d);
                if d <= 8 {
                    ctx.violation(&format!("C07:low-entropy-field:{}", class), json!({"class": class, "byte_position": pos, "distinct_values": d, "samples": vals.len(), "example": hex(&vals[0])}));
                    break;
                }
            }
            ctx.seen(&format!("entropy screen: {} ({} samples, min distinct byte values {})", class, vals.len(), worst));
        }
    }
}

/// Nonce audit of one file body: chunk i opened under nonce i by the reference, counter field == i.
pub fn nonce_audit(ctx: &Ctx, what: &str, body: &refspec::Body, expect_pt: &[u8], case: &dyn Fn() -> serde_json::Value) {
    ctx.eval();
    if !body.complete() || body.plaintext() != expect_pt {
        ctx.violation(&format!("C07:nonce-audit:chunk-does-not-open-under-its-index:{}", what), case());
        return;
    }
    for (i, c) in body.chunks.iter().enumerate() {
        if c.counter_field != i as u64 {
            let mut v = case();
            v["chunk"] = json!(i);
            v["counter_field"] = json!(c.counter_field);
            ctx.violation(&format!("C07:nonce-audit:counter-field-differs-from-index:{}", what), v);
            return;
        }
    }
    ctx.seen_n("chunks opened under nonce = index", body.chunks.len() as u64);
}

fn library_history(ctx: &Ctx, hist: &History) {
    let n = ctx.tier.pick(4800, 120_000);
    let threads = 16usize;
    let mut rng = Rng::fork(ctx.seed, "C07-lib");
    let s = rng.arr32();
    let s_pub = refspec::pubkey_of(&s);
    let r = rng.arr32();
    let r_pub = refspec::pubkey_of(&r);
    let pt = b"identical plaintext for every call".to_vec();
    // identical calls, from 16 threads at once, randomness left to the implementation
    std::thread::scope(|sc| {
        for t in 0..threads {
            let pt = &pt;
            sc.spawn(move || {
                for i in 0..n / threads {
                    let io = if i % 50 == 0 { Io::new(Sched::fixed(1), Sched::all()) } else { Io::plain() };
                    let e = key_encrypt_run(pt, &io, &KeyEnc { s_priv: &s, s_pub: &s_pub, r_pub: &r_pub, e_priv: None, payload: None });
                    if !e.outcome.is_ok() {
                        ctx.violation("C07:library:encrypt-failed", json!({"result": e.outcome.class()}));
                        return;
                    }
                    let origin = format!("key_encrypt call {} on thread {}", i, t);
                    hist.add(ctx, "ephemeral public key", &origin, &e.out[4..36].try_into().unwrap());
                    match refspec::decode_key_file(&e.out, &r, &r_pub) {
                        Ok(d) => {
                            hist.add(ctx, "payload key", &origin, &d.payload_key);
                            hist.add(ctx, "file key", &origin, &d.file_key);
                            if i % 50 == 0 {
                                nonce_audit(ctx, "key_encrypt", &d.body, pt, &|| json!({"file": hex(&e.out)}));
                            }
                        }
                        Err(why) => ctx.violation("C07:library:reference-cannot-open-file", json!({"why": why, "file": hex(&e.out)})),
                    }
                    // interleaved with key generation and raw CSPRNG draws
                    let k = kestrel_crypto::PrivateKey::generate();
                    hist.add(ctx, "generated private key", &origin, &k.as_bytes().try_into().unwrap());
                    let raw = kestrel_crypto::secure_random(32);
                    hist.add(ctx, "secure_random(32)", &origin, &raw.try_into().unwrap());
                }
            });
        }
    });
    // one long single-thread sequence of the cheap draws (state carried between calls shows only here)
    {
        let draws = ctx.tier.pick(30_000, 600_000);
        for i in 0..draws {
            let origin = format!("single-thread draw {}", i);
            if i % 2 == 0 {
                let k = kestrel_crypto::PrivateKey::generate();
                hist.add(ctx, "generated private key", &origin, &k.as_bytes().try_into().unwrap());
            } else {
                let raw = kestrel_crypto::secure_random(32);
                hist.add(ctx, "secure_random(32)", &origin, &raw.try_into().unwrap());
            }
        }
        // other request sizes interleaved with 32-byte draws must not disturb freshness either
        let mut seen_odd = std::collections::HashSet::new();
        for i in 0..2000usize {
            let l = [1usize, 7, 16, 33, 100, 1000, 4096, 5000][i % 8];
            let v = kestrel_crypto::secure_random(l);
            ctx.eval();
            if v.len() != l {
                ctx.violation("C07:secure_random-wrong-length", json!({"asked": l, "got": v.len()}));
            }
            if l >= 16 && !seen_odd.insert(v[..16].to_vec()) {
                ctx.violation("C07:repeated-value:secure_random(n)/secure_random(n)", json!({"length": l, "prefix": hex(&v[..16])}));
            }
            let k = kestrel_crypto::secure_random(32);
            hist.add(ctx, "secure_random(32)", "interleaved with other sizes", &k.try_into().unwrap());
        }
    }
    ctx.note("library_history", json!({"key_encrypt_calls": n / threads * threads, "threads": threads, "inputs": "identical sender, recipient, plaintext; ephemeral and payload key = None"}));
    // nonce audit at depth: chunk loop with c = 1 crosses counter 2^16
    let key = rng.arr32();
    let long = rng.bytes(ctx.tier.pick(66_000, 200_000));
    let e = chunks_encrypt_run(&long, &Io::plain(), &key, &[], 1);
    let body = refspec::decode_body(&e.out, 0, &key, &[], 1);
    nonce_audit(ctx, "chunk-loop c=1", &body, &long, &|| json!({"len": long.len(), "chunk_size": 1}));
    // production size multi-chunk in both modes
    let big = rng.bytes(65536 * 3 + 5);
    let e = key_encrypt_run(&big, &Io::new(Sched::list(vec![65536, 100, 65536], 65536), Sched::all()), &KeyEnc { s_priv: &s, s_pub: &s_pub, r_pub: &r_pub, e_priv: None, payload: None });
    if let Ok(d) = refspec::decode_key_file(&e.out, &r, &r_pub) {
        nonce_audit(ctx, "key_encrypt 64KiB", &d.body, &big, &|| json!({"len": big.len()}));
    } else {
        ctx.violation("C07:library:reference-cannot-open-file", json!({"len": big.len()}));
    }
    let salt = rng.arr32();
    let e = pass_encrypt_run(&big, &Io::plain(), b"pw", salt);
    match refspec::decode_pass_file(&e.out, b"pw") {
        Ok(d) => nonce_audit(ctx, "pass_encrypt 64KiB", &d.body, &big, &|| json!({"len": big.len()})),
        Err(_) => ctx.violation("C07:library:reference-cannot-open-file", json!({"mode": "password"})),
    }
}


/// "Within one file, chunk i is sealed exactly once under nonce i" must also hold for files written while the plaintext
/// source or the ciphertext sink MISBEHAVED TRANSIENTLY: a read or write that was interrupted (and, if the call still
/// returned Ok, retried) at every call index. Whatever the encryptor returns, every record it emitted must open under
/// nonce = its index and no index may occur twice; an Ok run must give the complete plaintext.
fn nonce_audit_under_transient_faults(ctx: &Ctx) {
    use crate::ioscript::Fault;
    let mut rng = Rng::fork(ctx.seed, "C07-faults");
    // small scope through the hooked chunk loop (chunk sizes 2 and 3), and production size through key_encrypt
    for c in [2u32, 3] {
        for len in [0usize, 1, 5, 7, 9] {
            let pt = rng.bytes(len);
            let key = rng.arr32();
            let base = chunks_encrypt_run(&pt, &Io::plain(), &key, &[], c);
            let (reads, writes) = (base.log.count(crate::ioscript::Op::Read), base.log.count(crate::ioscript::Op::Write));
            for side in 0..2 {
                for k in 0..(if side == 0 { reads } else { writes }) {
                    let mut io = Io::plain();
                    if side == 0 {
                        io.rfaults = vec![(k, Fault::Kind(std::io::ErrorKind::Interrupted))];
                    } else {
                        io.wfaults = vec![(k, Fault::Kind(std::io::ErrorKind::Interrupted))];
                    }
                    let e = chunks_encrypt_run(&pt, &io, &key, &[], c);
                    ctx.eval();
                    let body = refspec::decode_body(&e.out, 0, &key, &[], c as usize);
                    let case = || json!({"chunk_size": c, "len": len, "interrupted": if side == 0 { "read" } else { "write" }, "at_call": k, "result": e.outcome.class(), "written": hex(&e.out)});
                    // every record that was written completely must be the record of ITS index under nonce = index:
                    // the reference opens records in order with nonce = position, so a repeated or skipped nonce stops it early
                    let recs_written = count_complete_records(&e.out, c as usize);
                    if body.chunks.len() < recs_written {
                        ctx.violation("C07:nonce-audit:record-written-under-another-nonce-than-its-index:after-a-transient-fault", case());
                        continue;
                    }
                    if e.outcome.is_ok() && (!body.complete() || body.plaintext() != pt) {
                        ctx.violation("C07:nonce-audit:chunk-does-not-open-under-its-index:after-a-transient-fault", case());
                        continue;
                    }
                    ctx.seen("nonce audit under a transient fault: every emitted record opens under nonce = index");
                    ctx.distinct(&format!("faultaudit|{}|{}|{}|{}", c, len, side, k));
                }
            }
        }
    }
    let (s, r) = (rng.arr32(), rng.arr32());
    let (s_pub, r_pub) = (refspec::pubkey_of(&s), refspec::pubkey_of(&r));
    let big = rng.bytes(65536 * 3 + 17);
    for k in 0..6usize {
        let mut io = Io::plain();
        io.rfaults = vec![(k, Fault::Kind(std::io::ErrorKind::Interrupted))];
        let e = key_encrypt_run(&big, &io, &KeyEnc { s_priv: &s, s_pub: &s_pub, r_pub: &r_pub, e_priv: None, payload: None });
        ctx.eval();
        let case = || json!({"len": big.len(), "interrupted_read_call": k, "result": e.outcome.class(), "bytes_written": e.out.len()});
        if e.out.len() < 132 {
            ctx.seen("nonce audit under a transient fault: nothing beyond the header was written");
            continue;
        }
        match refspec::decode_key_file(&e.out, &r, &r_pub) {
            Ok(d) => {
                let recs_written = (e.out.len() - 132) / (65536 + 32);
                if d.body.chunks.len() < recs_written.min(3) || (e.outcome.is_ok() && (!d.body.complete() || d.body.plaintext() != big)) {
                    ctx.violation("C07:nonce-audit:chunk-does-not-open-under-its-index:after-a-transient-fault:key_encrypt", case());
                } else {
                    ctx.seen("nonce audit under a transient fault: every emitted record opens under nonce = index");
                    ctx.distinct(&format!("faultaudit|prod|{}", k));
                }
            }
            Err(why) => ctx.violation("C07:library:reference-cannot-open-file", json!({"why": why, "interrupted_read_call": k})),
        }
    }
}

/// Number of complete records (16-byte header + body + 16-byte tag, body length from the header) at the start of `b`.
fn count_complete_records(b: &[u8], max_chunk: usize) -> usize {
    let (mut off, mut n) = (0usize, 0usize);
    while off + 16 <= b.len() {
        let len = u32::from_be_bytes([b[off + 12], b[off + 13], b[off + 14], b[off + 15]]) as usize;
        if len > max_chunk || off + 32 + len > b.len() {
            break;
        }
        off += 32 + len;
        n += 1;
    }
    n
}

fn cli_history(ctx: &Ctx, hist: &History) {
    let n = ctx.tier.pick(30, 800);
    let mut rng = Rng::fork(ctx.seed, "C07-cli");
    let alice = Ident::new("alice", "apw", &mut rng);
    let bob = Ident::new("bob", "bpw", &mut rng);
    let wd = WorkDir::new("c07");
    wd.write("kr.txt", crate::cli::keyring_text(&[(&alice, true), (&bob, true)]).as_bytes());
    wd.write("p.txt", b"the same plaintext every time\n");
    // the locked keys of the given keyring take part in the history too (their salts must never come back)
    for id in [&alice, &bob] {
        let blob = crate::util::unb64(&id.locked).unwrap();
        hist.add(ctx, "locked-key salt", &format!("initial keyring entry {}", id.name), &blob[4..36].try_into().unwrap());
    }
    let work: Vec<usize> = (0..n).collect();
    let wdp = &wd;
    crate::util::par_for(work.len(), crate::util::ncpu(), |i| {
        // 1. identical `encrypt` invocations
        let o = Cmd::new(&wdp.path, &["encrypt", "p.txt", "-t", "bob", "-f", "alice", "-k", "kr.txt", "--env-pass"]).pass("apw").run();
        if o.exit != Exit::Code(0) {
            if o.exit == Exit::Timeout {
                ctx.inconclusive("C07 cli: timeout");
            } else {
                ctx.violation("C07:cli:encrypt-failed", json!({"exit": o.exit.describe(), "stderr": o.stderr_s()}));
            }
            return;
        }
        let origin = format!("kestrel encrypt run {}", i);
        if o.stdout.len() >= 132 {
            hist.add(ctx, "ephemeral public key", &origin, &o.stdout[4..36].try_into().unwrap());
        }
        match refspec::decode_key_file(&o.stdout, &bob.sk, &bob.pk) {
            Ok(d) => {
                hist.add(ctx, "payload key", &origin, &d.payload_key);
                hist.add(ctx, "file key", &origin, &d.file_key);
            }
            Err(why) => ctx.violation("C07:cli:reference-cannot-open-file", json!({"why": why})),
        }
        // 2. identical `password encrypt` invocations
        let o = Cmd::new(&wdp.path, &["password", "encrypt", "p.txt", "--env-pass"]).pass("same password").run();
        if o.exit == Exit::Code(0) && o.stdout.len() >= 36 {
            hist.add(ctx, "password-file salt", &format!("kestrel password encrypt run {}", i), &o.stdout[4..36].try_into().unwrap());
        } else {
            ctx.violation("C07:cli:password-encrypt-failed", json!({"exit": o.exit.describe(), "stderr": o.stderr_s()}));
        }
        // 3. identical `key generate` invocations (same name, same password)
        let o = Cmd::new(&wdp.path, &["key", "generate", "--env-pass"]).pass("genpw").stdin(Stdin::Bytes(b"samename\n".to_vec())).run();
        let text = o.stdout_s();
        let sk_line = text.lines().find_map(|l| l.strip_prefix("PrivateKey = ")).map(|s| s.trim().to_string());
        let pk_line = text.lines().find_map(|l| l.strip_prefix("PublicKey = ")).map(|s| s.trim().to_string());
        let mut latest = None;
        match (o.exit == Exit::Code(0), sk_line, pk_line) {
            (true, Some(skl), Some(pkl)) => {
                let origin = format!("kestrel key generate run {}", i);
                match (crate::util::unb64(&skl), refspec::unlock_sk(&skl, b"genpw"), refspec::decode_pk(&pkl)) {
                    (Some(blob), Ok(sk), Some(pk)) if blob.len() == 84 => {
                        hist.add(ctx, "locked-key salt", &origin, &blob[4..36].try_into().unwrap());
                        hist.add(ctx, "generated private key", &origin, &sk);
                        hist.add(ctx, "generated public key", &origin, &pk);
                        latest = Some(skl);
                    }
                    _ => ctx.violation("C07:cli:generated-key-not-openable-by-reference", json!({"stdout": text})),
                }
            }
            _ => ctx.violation("C07:cli:key-generate-failed", json!({"exit": o.exit.describe(), "stderr": o.stderr_s(), "stdout": text})),
        }
        // 4. change-pass chains: old -> new with the SAME password both times, twice
        let mut cur = latest.unwrap_or_else(|| alice.locked.clone());
        let mut pw = if cur == alice.locked { "apw".to_string() } else { "genpw".to_string() };
        for step in 0..2 {
            let o = Cmd::new(&wdp.path, &["key", "change-pass", &cur, "--env-pass"]).pass(&pw).env("KESTREL_NEW_PASSWORD", "newpw").run();
            let text = o.stdout_s();
            match text.lines().find_map(|l| l.strip_prefix("PrivateKey = ")).map(|s| s.trim().to_string()) {
                Some(newl) if o.exit == Exit::Code(0) => {
                    if let Some(blob) = crate::util::unb64(&newl).filter(|b| b.len() == 84) {
                        hist.add(ctx, "locked-key salt", &format!("kestrel key change-pass run {} step {}", i, step), &blob[4..36].try_into().unwrap());
                    } else {
                        ctx.violation("C07:cli:change-pass-output-not-a-locked-key", json!({"stdout": text}));
                    }
                    cur = newl;
                    pw = "newpw".to_string();
                }
                _ => {
                    ctx.violation("C07:cli:change-pass-failed", json!({"exit": o.exit.describe(), "stderr": o.stderr_s()}));
                    break;
                }
            }
        }
    });
    ctx.note("cli_history", json!({"rounds": n, "per_round": "encrypt, password encrypt, key generate, change-pass x2 - each a fresh process with identical inputs"}));
}

/// Informational only: how many bytes each command asks the kernel for.
fn strace_getrandom(ctx: &Ctx) {
    let mut rng = Rng::fork(ctx.seed, "C07-strace");
    let alice = Ident::new("alice", "apw", &mut rng);
    let bob = Ident::new("bob", "bpw", &mut rng);
    let wd = WorkDir::new("c07s");
    wd.write("kr.txt", crate::cli::keyring_text(&[(&alice, true), (&bob, true)]).as_bytes());
    wd.write("p.txt", b"x");
    let mut info = serde_json::Map::new();
    let cmds: Vec<(&str, Vec<&str>, &str)> = vec![
        ("encrypt", vec!["encrypt", "p.txt", "-t", "bob", "-f", "alice", "-k", "kr.txt", "--env-pass"], "apw"),
        ("password encrypt", vec!["password", "encrypt", "p.txt", "--env-pass"], "pw"),
    ];
    for (name, args, pw) in cmds {
        let log = wd.file("strace.log");
        let mut full: Vec<String> = vec!["-f".into(), "-e".into(), "trace=getrandom".into(), "-o".into(), log.to_string_lossy().into_owned(), crate::cli::kestrel_bin().to_string_lossy().into_owned()];
        full.extend(args.iter().map(|s| s.to_string()));
        let a: Vec<&str> = full.iter().map(|s| s.as_str()).collect();
        let o = Cmd::new(&wd.path, &a).bin("/usr/bin/strace".into()).pass(pw).run();
        let text = std::fs::read_to_string(&log).unwrap_or_default();
        let mut bytes = 0u64;
        let mut calls = 0u64;
        for l in text.lines().filter(|l| l.contains("getrandom(")) {
            if let Some(n) = l.rsplit("= ").next().and_then(|x| x.trim().parse::<u64>().ok()) {
                bytes += n;
                calls += 1;
            }
        }
        info.insert(name.to_string(), json!({"exit": o.exit.describe(), "getrandom_calls": calls, "bytes_returned": bytes}));
    }
    ctx.note("informational_strace_getrandom", serde_json::Value::Object(info));
}

pub fn run(ctx: &Ctx) {
    ctx.rule(
        "history-wide uniqueness: ephemeral keys (file bytes 4..36), payload and file keys (recovered by the reference decryptor with the recipient key), \
         generated private/public keys and every salt (password files, locked keys from key generate and change-pass, reference unlock) from N identical \
         invocations - library calls from 16 threads with randomness left to the implementation, and fresh CLI processes - all enter one set keyed by value; \
         per-class byte-position screen for degenerate fields; per file the reference opens chunk i under nonce i and compares the counter field. \
         distinct_nontrivial = number of distinct random values recorded",
    );
    ctx.assume("uniqueness over N samples only exposes sources with roughly < 2*log2(N) bits of entropy; entropy quality beyond that is assumed of getrandom");
    let hist = History::new();
    library_history(ctx, &hist);
    nonce_audit_under_transient_faults(ctx);
    if !crate::lib_only() {
        cli_history(ctx, &hist);
    }
    hist.entropy_screen(ctx);
    if !crate::lib_only() {
        strace_getrandom(ctx);
    }
    ctx.require("values recorded: ephemeral public key", 200);
    ctx.require("values recorded: payload key", 200);
    ctx.require("nonce audit under a transient fault: every emitted record opens under nonce = index", 40);
    ctx.require("values recorded: locked-key salt", 50);
    ctx.require("values recorded: password-file salt", 20);
    ctx.require("chunks opened under nonce = index", 60_000);
}
