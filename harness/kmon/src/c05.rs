//! C05 - sender identity needs its private key; only the addressed key decrypts; low-order
//! recipients are refused.

use crate::cli::{Cmd, Exit, Ident, WorkDir};
use crate::ctx::Ctx;
use crate::ioscript::{Op, Res};
use crate::kio::*;
use crate::refspec::{self, Dh, WriteSpec, KEY_MAGIC};
use crate::util::{hex, par_for, Rng};
use crate::x25519_ref::{low_order_all, x25519_raw};
use serde_json::json;

fn wrote(run: &Run) -> bool {
    !run.out.is_empty() || run.log.events().iter().any(|e| e.op == Op::Write && matches!(e.res, Res::N(n) if n > 0))
}

struct Pair {
    sk: [u8; 32],
    pk: [u8; 32],
}

fn pair(rng: &mut Rng) -> Pair {
    let sk = rng.arr32();
    Pair { sk, pk: refspec::pubkey_of(&sk) }
}

fn matrix(ctx: &Ctx) {
    let rounds = ctx.tier.pick(12, 600);
    par_for(rounds, crate::util::ncpu(), |round| {
        let mut rng = Rng::fork(ctx.seed, &format!("C05-matrix-{}", round));
        let keys = [pair(&mut rng), pair(&mut rng), pair(&mut rng), pair(&mut rng)];
        let pt = rng.bytes_in(0, 40);
        for used in 0..4 {
            for claimed in 0..4 {
                for rcpt in 0..4 {
                    let e = key_encrypt_run(&pt, &Io::plain(), &KeyEnc { s_priv: &keys[used].sk, s_pub: &keys[claimed].pk, r_pub: &keys[rcpt].pk, e_priv: None, payload: None });
                    ctx.eval();
                    if !e.outcome.is_ok() {
                        ctx.violation("C05:matrix:encrypt-failed", json!({"used": hex(&keys[used].sk), "claimed": hex(&keys[claimed].pk), "recipient": hex(&keys[rcpt].pk), "result": e.outcome.class()}));
                        continue;
                    }
                    for dk in 0..4 {
                        for dpub in 0..4 {
                            // the full 4x4 decrypt matrix on a rotating quarter of the files, the diagonal always
                            if dk != dpub && (used + claimed + rcpt + round) % 4 != 0 {
                                continue;
                            }
                            let d = key_decrypt_run(&e.out, &Io::plain(), &keys[dk].sk, &keys[dpub].pk);
                            ctx.eval();
                            let expect_ok = used == claimed && dk == rcpt && dpub == rcpt;
                            // right private key but a different recipient_public argument: the statement does not
                            // say which way this goes (an implementation may derive the public key itself)
                            let either = used == claimed && dk == rcpt && dpub != rcpt;
                            if either {
                                match &d.outcome {
                                    Outcome::Panic(p) => ctx.violation(&format!("C05:matrix:panic:{}", panic_site(p)), json!({"indices": [used, claimed, rcpt, dk, dpub]})),
                                    Outcome::Ok(Some(s)) if *s != keys[used].pk || d.out != pt => ctx.violation("C05:matrix:wrong-sender-or-plaintext-reported", json!({"indices": [used, claimed, rcpt, dk, dpub], "file": hex(&e.out)})),
                                    o => ctx.seen(&format!("matrix: right private key, other recipient_public argument -> {}", if o.is_ok() { "accepted" } else { "rejected" })),
                                }
                                continue;
                            }
                            let case = || {
                                json!({"private_key_used": hex(&keys[used].sk), "public_key_claimed": hex(&keys[claimed].pk), "recipient_addressed": hex(&keys[rcpt].pk),
                                   "decrypting_private": hex(&keys[dk].sk), "recipient_public_argument": hex(&keys[dpub].pk), "file": hex(&e.out), "result": d.outcome.class(),
                                   "indices": [used, claimed, rcpt, dk, dpub]})
                            };
                            match (&d.outcome, expect_ok) {
                                (Outcome::Panic(p), _) => ctx.violation(&format!("C05:matrix:panic:{}", panic_site(p)), case()),
                                (Outcome::Ok(Some(s)), true) => {
                                    if *s != keys[used].pk || d.out != pt {
                                        ctx.violation("C05:matrix:wrong-sender-or-plaintext-reported", case());
                                    } else {
                                        ctx.seen("matrix: honest file accepted, sender = embedded key");
                                    }
                                }
                                (Outcome::Ok(_), false) => {
                                    let why = if used != claimed { "claimed-key-does-not-match-private-key-used" } else { "decrypted-under-a-key-it-was-not-addressed-to" };
                                    ctx.violation(&format!("C05:matrix:accepted:{}", why), case());
                                }
                                (_, true) => ctx.violation("C05:matrix:honest-file-rejected", case()),
                                (_, false) => {
                                    if wrote(&d) {
                                        ctx.violation("C05:matrix:bytes-released-by-rejected-file", case());
                                    } else {
                                        let why = if used != claimed { "mismatched sender" } else { "wrong private key" };
                                        ctx.seen(&format!("matrix: rejected ({})", why));
                                        ctx.distinct(&format!("matrix|{}|{}{}{}{}{}", round, used, claimed, rcpt, dk, dpub));
                                    }
                                }
                            }
                        }
                    }
                }
            }
        }
    });
}

/// Build a whole file around a (possibly forged) handshake.
fn forged_file(w: &WriteSpec, pt: &[u8]) -> Vec<u8> {
    let wr = refspec::noise_x_write_general(w);
    let fk = refspec::file_key(&w.payload, &wr.h);
    let mut f = KEY_MAGIC.to_vec();
    f.extend_from_slice(&wr.message);
    f.extend_from_slice(&refspec::encode_body(pt, &[pt.len()], &fk, &[]));
    f
}

fn forger(ctx: &Ctx) {
    let rounds = ctx.tier.pick(10, 500);
    let low = low_order_all();
    par_for(rounds, crate::util::ncpu(), |round| {
        let mut rng = Rng::fork(ctx.seed, &format!("C05-forge-{}", round));
        let victim = pair(&mut rng);
        let attacker = pair(&mut rng);
        let rcpt = pair(&mut rng);
        let e = pair(&mut rng);
        let pt = b"forged".to_vec();
        let payload = rng.arr32().to_vec();
        let base = |claimed: [u8; 32], es: Dh, ss: Dh, e_pub: [u8; 32]| WriteSpec { prologue: KEY_MAGIC.to_vec(), rs_mixed: rcpt.pk, e_pub, es, s_claimed: claimed, ss, payload: payload.clone() };
        let honest_es = Dh::Compute(e.sk, rcpt.pk);
        let mut variants: Vec<(String, WriteSpec, bool)> = Vec::new();
        // control: the forger with the right private keys builds an acceptable file
        variants.push(("control: honest keys".into(), base(victim.pk, honest_es.clone(), Dh::Compute(victim.sk, rcpt.pk), e.pk), true));
        // claim the victim's key without its private key
        variants.push(("claim victim, ss = zeros".into(), base(victim.pk, honest_es.clone(), Dh::Value([0; 32]), e.pk), false));
        variants.push(("claim victim, ss = DH(e, rs) reused".into(), base(victim.pk, honest_es.clone(), honest_es.clone(), e.pk), false));
        variants.push(("claim victim, ss omitted".into(), base(victim.pk, honest_es.clone(), Dh::Omit, e.pk), false));
        variants.push(("claim victim, ss = random".into(), base(victim.pk, honest_es.clone(), Dh::Value(rng.arr32()), e.pk), false));
        variants.push(("claim victim, ss = DH(attacker, rs)".into(), base(victim.pk, honest_es.clone(), Dh::Compute(attacker.sk, rcpt.pk), e.pk), false));
        variants.push(("claim victim, ss = DH(e, victim)".into(), base(victim.pk, honest_es.clone(), Dh::Compute(e.sk, victim.pk), e.pk), false));
        variants.push(("claim victim, ss = victim public key bytes".into(), base(victim.pk, honest_es.clone(), Dh::Value(victim.pk), e.pk), false));
        // es dropped symmetrically (a decryptor that does not mix es would accept)
        variants.push(("es omitted, honest ss".into(), base(attacker.pk, Dh::Omit, Dh::Compute(attacker.sk, rcpt.pk), e.pk), false));
        variants.push(("es = zeros, honest ss".into(), base(attacker.pk, Dh::Value([0; 32]), Dh::Compute(attacker.sk, rcpt.pk), e.pk), false));
        // recipient key not bound: handshake computed for another recipient key mixed into h
        let mut w = base(attacker.pk, honest_es.clone(), Dh::Compute(attacker.sk, rcpt.pk), e.pk);
        w.rs_mixed = victim.pk;
        variants.push(("other key mixed into h as recipient".into(), w, false));
        let mut w = base(attacker.pk, honest_es.clone(), Dh::Compute(attacker.sk, rcpt.pk), e.pk);
        w.prologue = vec![];
        variants.push(("prologue omitted".into(), w, false));
        // low-order claimed static keys: DH(r, low) = 0, so ss = zeros is what a non-checking decryptor computes
        for lo in &low {
            variants.push((format!("claim low-order static {} with ss = zeros", &hex(lo)[..8]), base(*lo, honest_es.clone(), Dh::Value([0; 32]), e.pk), false));
        }
        // ... and with other substitutes a decryptor might use for the refused Diffie-Hellman: the empty string, a single
        // zero byte, 16 or 64 zero bytes, the low-order point itself
        for lo in &low {
            for (what, sub) in [("the empty string", vec![]), ("one zero byte", vec![0u8]), ("16 zero bytes", vec![0u8; 16]), ("64 zero bytes", vec![0u8; 64]), ("the point itself", lo.to_vec())] {
                variants.push((format!("claim low-order static {} with ss = {}", &hex(lo)[..8], what), base(*lo, honest_es.clone(), Dh::Bytes(sub.clone()), e.pk), false));
                variants.push((format!("low-order ephemeral {} and low-order static with es = ss = {}: all from public data", &hex(lo)[..8], what), base(*lo, Dh::Bytes(sub.clone()), Dh::Bytes(sub), *lo), false));
            }
        }
        // ... or might simply SKIP the MixKey step when the Diffie-Hellman is refused
        for lo in &low {
            variants.push((format!("claim low-order static {} with the ss step omitted", &hex(lo)[..8]), base(*lo, honest_es.clone(), Dh::Omit, e.pk), false));
            variants.push((format!("low-order ephemeral {} with the es step omitted, attacker static", &hex(lo)[..8]), base(attacker.pk, Dh::Omit, Dh::Compute(attacker.sk, rcpt.pk), *lo), false));
            variants.push((format!("low-order ephemeral {} and low-order static with both steps omitted: all from public data", &hex(lo)[..8]), base(*lo, Dh::Omit, Dh::Omit, *lo), false));
        }
        // ... or might be left with a STALE value when the Diffie-Hellman is refused: the previous token's output (es, which
        // the forger knows), or other bytes the forger knows that happen to sit in a reused buffer (the ephemeral public
        // key just read, the recipient's or the claimed public key)
        for lo in &low {
            variants.push((format!("claim low-order static {} with ss = DH(e, rs) again (stale buffer)", &hex(lo)[..8]), base(*lo, honest_es.clone(), honest_es.clone(), e.pk), false));
            variants.push((format!("claim low-order static {} with ss = the ephemeral public key", &hex(lo)[..8]), base(*lo, honest_es.clone(), Dh::Value(e.pk), e.pk), false));
            variants.push((format!("claim low-order static {} with ss = the recipient public key", &hex(lo)[..8]), base(*lo, honest_es.clone(), Dh::Value(rcpt.pk), e.pk), false));
        }
        // low-order ephemeral: es = zeros from public data alone, combined with honest and low-order statics
        for lo in &low {
            variants.push((format!("low-order ephemeral {} (es = zeros), attacker static", &hex(lo)[..8]), base(attacker.pk, Dh::Value([0; 32]), Dh::Compute(attacker.sk, rcpt.pk), *lo), false));
            variants.push((format!("low-order ephemeral {} and low-order static: all from public data", &hex(lo)[..8]), base(*lo, Dh::Value([0; 32]), Dh::Value([0; 32]), *lo), false));
        }
        for (name, w, expect_ok) in &variants {
            let f = forged_file(w, &pt);
            let d = key_decrypt_run(&f, &Io::plain(), &rcpt.sk, &rcpt.pk);
            ctx.eval();
            let case = || json!({"forgery": name, "recipient_private": hex(&rcpt.sk), "victim_public": hex(&victim.pk), "file": hex(&f), "result": d.outcome.class()});
            let class = name.split(|c| c == ',' || c == ':').next().unwrap_or(name).trim().to_string();
            match (&d.outcome, expect_ok) {
                (Outcome::Panic(p), _) => ctx.violation(&format!("C05:forger:panic:{}", panic_site(p)), case()),
                (Outcome::Ok(Some(s)), true) if *s == victim.pk && d.out == pt => ctx.seen("forger control accepted (forger builds valid files)"),
                (_, true) => ctx.inconclusive(&format!("forger control file was not accepted ({}): the forger or the decryptor is broken", d.outcome.class())),
                (Outcome::Ok(_), false) => {
                    let kind = if name.contains("low-order ephemeral") { "low-order-ephemeral" } else if name.contains("low-order static") { "low-order-static" } else { "without-sender-private-key" };
                    ctx.violation(&format!("C05:forger:forged-file-accepted:{}", kind), case());
                }
                (_, false) => {
                    if wrote(&d) {
                        ctx.violation("C05:forger:bytes-released-by-rejected-file", case());
                    } else {
                        ctx.seen(&format!("forger rejected: {}", if class.starts_with("claim low-order") { "claim low-order static".to_string() } else if class.starts_with("low-order ephemeral") { "low-order ephemeral".to_string() } else { class }));
                        ctx.distinct(&format!("forge|{}|{}", round, name));
                    }
                }
            }
            if round == 0 {
                ctx.sample("forged handshake", 3, || case());
            }
        }
        // false-alarm guard: a non-canonical encoding of the right point (top bit set) is the same key for X25519
        let mut nc = victim.pk;
        nc[31] |= 0x80;
        let f = forged_file(&base(nc, honest_es.clone(), Dh::Compute(victim.sk, rcpt.pk), e.pk), &pt);
        let d = key_decrypt_run(&f, &Io::plain(), &rcpt.sk, &rcpt.pk);
        ctx.eval();
        ctx.seen(&format!("observation: top-bit variant of the true sender key -> {}", if d.outcome.is_ok() { "accepted (same curve point)" } else { "rejected" }));
    });
}

fn low_order_recipient(ctx: &Ctx) {
    let low = low_order_all();
    let mut rng = Rng::fork(ctx.seed, "C05-lowrcpt");
    let wd = WorkDir::new("c05");
    for (i, lo) in low.iter().enumerate() {
        for rep in 0..ctx.tier.pick(2, 10) {
            let s = pair(&mut rng);
            let pt = rng.bytes_in(0, 100);
            let (e, pl) = if rep % 2 == 0 { (None, None) } else { (Some(rng.arr32()), Some(rng.arr32())) };
            let r = key_encrypt_run(&pt, &Io::plain(), &KeyEnc { s_priv: &s.sk, s_pub: &s.pk, r_pub: lo, e_priv: e, payload: pl });
            ctx.eval();
            let case = || json!({"recipient_public": hex(lo), "sender_private": hex(&s.sk), "result": r.outcome.class(), "bytes_written": r.out.len()});
            match &r.outcome {
                Outcome::Panic(p) => ctx.violation(&format!("C05:low-order-recipient:panic:{}", panic_site(p)), case()),
                Outcome::Ok(_) => ctx.violation("C05:low-order-recipient:file-produced", case()),
                _ if wrote(&r) => ctx.violation("C05:low-order-recipient:bytes-written-before-refusal", case()),
                o => {
                    ctx.seen(&format!("low-order recipient refused by key_encrypt: {}", crate::c03::short_class(o)));
                    ctx.distinct(&format!("lowrcpt|{}|{}", i, rep));
                }
            }
        }
        // through the CLI: a keyring entry with a valid checksum over a low-order key
        let alice = Ident::new("alice", "apw", &mut rng);
        let kr = format!("{}\n[Key]\nName = mallory\nPublicKey = {}\n", alice.entry(true), refspec::encode_pk(lo));
        wd.write("kr.txt", kr.as_bytes());
        wd.write("p.txt", b"secret");
        let out = wd.file(&format!("out{}.ktl", i));
        let o = Cmd::new(&wd.path, &["encrypt", "p.txt", "-t", "mallory", "-f", "alice", "-o", out.to_str().unwrap(), "-k", "kr.txt", "--env-pass"]).pass("apw").run();
        ctx.eval();
        let case = || json!({"recipient_public": hex(lo), "command": "kestrel encrypt p.txt -t mallory -f alice -o OUT -k kr.txt --env-pass", "exit": o.exit.describe(), "stderr": o.stderr_s(), "output_exists": out.exists()});
        match &o.exit {
            Exit::Timeout => ctx.inconclusive("C05 cli: timeout"),
            Exit::Code(1) if o.has_error_line() && !out.exists() => {
                ctx.seen("low-order recipient refused by the CLI: exit 1, no output file");
                ctx.distinct(&format!("lowrcpt-cli|{}", i));
            }
            Exit::Code(0) => ctx.violation("C05:cli:low-order-recipient:file-produced", case()),
            Exit::Code(1) if out.exists() => ctx.violation("C05:cli:low-order-recipient:output-file-created", case()),
            other => ctx.violation(&format!("C05:cli:low-order-recipient:{}", other.describe()), case()),
        }
        if i == 2 {
            ctx.sample("low-order recipient via CLI", 1, || case());
        }
    }
    // the key a file is encrypted to is the one the user NAMED: keyrings with near-twin names
    for (i, (twin, target)) in [("Bob", "bob"), ("bob", "Bob"), ("bob ", "bob"), ("b\u{f6}b", "bob"), ("bob2", "bob")].iter().enumerate() {
        let alice = Ident::new("alice", "apw", &mut rng);
        let other = Ident::new(twin.trim_end(), "x", &mut rng);
        let wanted = Ident::new(target, "y", &mut rng);
        if other.name == wanted.name {
            continue;
        }
        for order in 0..2 {
            let kr = if order == 0 { crate::cli::keyring_text(&[(&alice, true), (&other, false), (&wanted, false)]) } else { crate::cli::keyring_text(&[(&wanted, false), (&alice, true), (&other, false)]) };
            wd.write("twins.txt", kr.as_bytes());
            wd.write("p.txt", b"for the named key only");
            let o = Cmd::new(&wd.path, &["encrypt", "p.txt", "-t", target, "-f", "alice", "-k", "twins.txt", "--env-pass"]).pass("apw").run();
            ctx.eval();
            let case = || json!({"keyring_names": ["alice", other.name, wanted.name], "order": order, "addressed": target, "exit": o.exit.describe(), "stderr": o.stderr_s()});
            if o.exit != Exit::Code(0) {
                ctx.violation("C05:cli:encrypt-to-a-named-key-failed", case());
                continue;
            }
            let right = refspec::decode_key_file(&o.stdout, &wanted.sk, &wanted.pk).map(|d| d.body.complete()).unwrap_or(false);
            let wrong = refspec::decode_key_file(&o.stdout, &other.sk, &other.pk).is_ok();
            if !right || wrong {
                ctx.violation("C05:cli:file-encrypted-to-another-key-than-the-one-named", case());
            } else {
                ctx.seen("cli: file decrypts only under the key that was named");
                ctx.distinct(&format!("named|{}|{}", i, order));
            }
        }
    }
    // the keyring given with -k decides whom "bob" is, even if the environment names another keyring
    {
        let alice = Ident::new("alice", "apw", &mut rng);
        let bob = Ident::new("bob", "bpw", &mut rng);
        let carol_as_bob = Ident::new("bob", "cpw", &mut rng);
        let mallory_as_alice = Ident::new("alice", "mpw", &mut rng);
        wd.write("real.ring", crate::cli::keyring_text(&[(&alice, true), (&bob, true)]).as_bytes());
        wd.write("other.ring", crate::cli::keyring_text(&[(&mallory_as_alice, true), (&carol_as_bob, true)]).as_bytes());
        wd.write("p.txt", b"to the bob of real.ring");
        let o = Cmd::new(&wd.path, &["encrypt", "p.txt", "-t", "bob", "-f", "alice", "-k", "real.ring", "--env-pass"]).pass("apw").env("KESTREL_KEYRING", "other.ring").run();
        ctx.eval();
        let right = refspec::decode_key_file(&o.stdout, &bob.sk, &bob.pk).map(|d| d.body.complete() && d.sender == alice.pk).unwrap_or(false);
        let wrong = refspec::decode_key_file(&o.stdout, &carol_as_bob.sk, &carol_as_bob.pk).is_ok();
        if o.exit == Exit::Code(0) && right && !wrong {
            ctx.seen("cli: -k keyring decides the addressed key although KESTREL_KEYRING names another");
            ctx.distinct("named|k-vs-env|encrypt");
        } else {
            ctx.violation("C05:cli:file-encrypted-to-another-key-than-the-one-named", json!({"case": "-k real.ring with KESTREL_KEYRING=other.ring", "exit": o.exit.describe(), "stderr": o.stderr_s(), "decrypts_under_named_key": right, "decrypts_under_the_other_keyrings_key": wrong}));
        }
        // reporting: a file made with mallory's key must not be announced under alice's name
        let forged = refspec::encode_key_file(&mallory_as_alice.sk, &mallory_as_alice.pk, &bob.pk, &rng.arr32(), &rng.arr32(), b"hi", &[2]).unwrap();
        wd.write("m.ktl", &forged);
        let o = Cmd::new(&wd.path, &["decrypt", "m.ktl", "-t", "bob", "-k", "real.ring", "--env-pass"]).pass("bpw").env("KESTREL_KEYRING", "other.ring").run();
        ctx.eval();
        let err = o.stderr_s();
        if o.exit == Exit::Code(0) && !err.contains("File from: alice") && err.contains(&mallory_as_alice.encoded_pk) {
            ctx.seen("cli: sender unknown to the -k keyring is reported as unknown, not under a name from KESTREL_KEYRING");
            ctx.distinct("named|k-vs-env|decrypt");
        } else {
            ctx.violation("C05:cli:sender-reported-under-a-name-whose-key-did-not-take-part", json!({"exit": o.exit.describe(), "stderr": err}));
        }
    }
    // a keyring in which the name "alice" stands for two different keys: a file made with the second key must
    // never be announced as "from alice" (the tool may refuse the keyring, or report the key as unknown)
    {
        let alice = Ident::new("alice", "apw", &mut rng);
        let bob = Ident::new("bob", "bpw", &mut rng);
        let mallory_as_alice = Ident::new("alice", "mpw", &mut rng);
        for (order, text) in [crate::cli::keyring_text(&[(&alice, true), (&bob, true), (&mallory_as_alice, false)]), crate::cli::keyring_text(&[(&mallory_as_alice, false), (&bob, true), (&alice, true)])].iter().enumerate() {
            wd.write("two-alices.txt", text.as_bytes());
            let forged = refspec::encode_key_file(&mallory_as_alice.sk, &mallory_as_alice.pk, &bob.pk, &rng.arr32(), &rng.arr32(), b"hi", &[2]).unwrap();
            wd.write("m2.ktl", &forged);
            let o = Cmd::new(&wd.path, &["decrypt", "m2.ktl", "-t", "bob", "-k", "two-alices.txt", "--env-pass"]).pass("bpw").run();
            ctx.eval();
            let err = o.stderr_s();
            // acceptable: exit 1 (keyring refused); not acceptable: success naming alice while alice's key took no part
            if o.exit == Exit::Code(1) {
                ctx.seen("cli: ambiguous keyring refused (no sender named)");
                ctx.distinct(&format!("named|two-alices|{}", order));
            } else {
                ctx.violation("C05:cli:sender-reported-under-a-name-whose-key-did-not-take-part", json!({"case": "keyring with two entries named alice; file made with the second one's key", "order": order, "exit": o.exit.describe(), "stderr": err}));
            }
        }
    }
    // keyrings of many sizes (3 .. 1000 contacts, unsorted): the name reported for an authentic file is the
    // name of the entry that holds the sender's key, wherever it stands; an unlisted sender is never named
    {
        let wd = WorkDir::new("c05big");
        let sizes: Vec<usize> = ctx.tier.pick(vec![3usize, 33, 65, 130, 300], vec![3usize, 17, 33, 64, 65, 66, 130, 257, 300, 1000, 4000]);
        for (si, n) in sizes.iter().enumerate() {
            let alice = Ident::new("alice", "apw", &mut rng);
            let bob = Ident::new("bob", "bpw", &mut rng);
            let stranger = Ident::new("stranger", "spw", &mut rng);
            for pos in [0usize, n / 2, n - 1] {
                let mut entries: Vec<String> = (0..*n).map(|i| format!("[Key]\nName = contact-{:04}\nPublicKey = {}\n", i, refspec::encode_pk(&refspec::pubkey_of(&rng.arr32())))).collect();
                entries[pos] = alice.entry(false);
                let bob_at = (pos + n / 3 + 1) % n;
                entries[if bob_at == pos { (pos + 1) % n } else { bob_at }] = bob.entry(true);
                wd.write("big.txt", entries.join("\n").as_bytes());
                for (who, from) in [("alice", &alice), ("stranger", &stranger)] {
                    let f = refspec::encode_key_file(&from.sk, &from.pk, &bob.pk, &rng.arr32(), &rng.arr32(), b"hello", &[5]).unwrap();
                    wd.write("big.ktl", &f);
                    let o = Cmd::new(&wd.path, &["decrypt", "big.ktl", "-t", "bob", "-k", "big.txt", "--env-pass"]).pass("bpw").run();
                    ctx.eval();
                    let err = o.stderr_s();
                    let named: Option<String> = err.lines().find_map(|l| l.split("File from: ").nth(1)).map(|x| x.trim().to_string());
                    let case = || json!({"keyring_entries": n, "sender": who, "sender_entry_position": pos, "exit": o.exit.describe(), "stderr": err});
                    if o.exit == Exit::Timeout {
                        ctx.inconclusive("C05 cli: timeout");
                    } else if o.exit != Exit::Code(0) || o.stdout != b"hello" {
                        ctx.violation("C05:cli:authentic-file-not-decrypted-with-a-large-keyring", case());
                    } else if who == "alice" && named.as_deref() != Some("alice") {
                        ctx.violation("C05:cli:sender-reported-under-a-name-whose-key-did-not-take-part", case());
                    } else if who == "stranger" && named.is_some() {
                        ctx.violation("C05:cli:unlisted-sender-reported-under-a-keyring-name", case());
                    } else {
                        ctx.seen("cli: sender named correctly (or reported unknown) with keyrings of many sizes");
                        ctx.distinct(&format!("bigring|{}|{}|{}|{}", si, n, pos, who));
                    }
                }
            }
        }
    }
    // decoy entries whose PublicKey TEXT is a near twin of the sender's encoded key (letter case swapped at one or
    // all positions, one character replaced, same first 32 bytes region with a recomputed checksum over other
    // bytes): such an entry decodes to 36 bytes, so the parser loads it, but it holds another key. The sender may
    // be named only through an entry whose decoded key IS the authenticated sender key; with the real entry absent
    // the key must be reported as unknown (a tool that refuses such a keyring outright is fine as well).
    {
        let wd = WorkDir::new("c05twin");
        let rounds = ctx.tier.pick(3, 20);
        for round in 0..rounds {
            let alice = Ident::new("alice", "apw", &mut rng);
            let bob = Ident::new("bob", "bpw", &mut rng);
            let text: Vec<char> = alice.encoded_pk.chars().collect();
            let letters: Vec<usize> = (0..text.len()).filter(|&i| text[i].is_ascii_alphabetic()).collect();
            let swap = |idx: &[usize]| -> String {
                let mut t = text.clone();
                for &i in idx {
                    t[i] = if t[i].is_ascii_lowercase() { t[i].to_ascii_uppercase() } else { t[i].to_ascii_lowercase() };
                }
                t.into_iter().collect()
            };
            let mut decoys: Vec<(String, String)> = Vec::new();
            decoys.push(("all letters case-swapped".into(), swap(&letters)));
            for k in 0..4 {
                let i = letters[(rng.below(letters.len() as u64)) as usize];
                decoys.push((format!("case of character {} swapped", i), swap(&[i])));
                let _ = k;
            }
            decoys.push(("first letter case-swapped".into(), swap(&letters[..1])));
            decoys.push(("last letter case-swapped".into(), swap(&letters[letters.len() - 1..])));
            // one character replaced by its alphabet neighbour
            {
                let i = rng.below(text.len() as u64) as usize;
                let mut t = text.clone();
                t[i] = if t[i] == 'A' { 'B' } else { 'A' };
                decoys.push((format!("character {} replaced", i), t.into_iter().collect()));
            }
            // a well-formed entry (valid checksum) for the key obtained from the case-swapped bytes
            if let Some(blob) = crate::util::unb64(&swap(&letters)) {
                if blob.len() == 36 {
                    let mut k = [0u8; 32];
                    k.copy_from_slice(&blob[..32]);
                    decoys.push(("case-swapped key bytes with a recomputed checksum".into(), refspec::encode_pk(&k)));
                }
            }
            let f = refspec::encode_key_file(&alice.sk, &alice.pk, &bob.pk, &rng.arr32(), &rng.arr32(), b"twin keys", &[9]).unwrap();
            wd.write("t.ktl", &f);
            for (di, (what, dtext)) in decoys.iter().enumerate() {
                if *dtext == alice.encoded_pk {
                    continue;
                }
                let decoy = format!("[Key]\nName = mallory\nPublicKey = {}\n", dtext);
                for (layout, kr) in [
                    ("decoy before the sender", format!("{}\n{}\n{}", decoy, alice.entry(false), bob.entry(true))),
                    ("decoy after the sender", format!("{}\n{}\n{}", bob.entry(true), alice.entry(false), decoy)),
                    ("sender absent", format!("{}\n{}", decoy, bob.entry(true))),
                ] {
                    wd.write("twin.txt", kr.as_bytes());
                    let o = Cmd::new(&wd.path, &["decrypt", "t.ktl", "-t", "bob", "-k", "twin.txt", "--env-pass"]).pass("bpw").run();
                    ctx.eval();
                    let err = o.stderr_s();
                    let named: Option<String> = err.lines().find_map(|l| l.split("File from: ").nth(1)).map(|x| x.trim().to_string());
                    let case = || json!({"decoy": what, "decoy_public_key_text": dtext, "sender_public_key_text": alice.encoded_pk, "layout": layout, "exit": o.exit.describe(), "stderr": err});
                    match &o.exit {
                        Exit::Timeout => ctx.inconclusive("C05 cli: timeout"),
                        Exit::Code(1) if o.has_error_line() => {
                            ctx.seen("cli: keyring with a near-twin key text refused");
                            ctx.distinct(&format!("twinkey|{}|{}|{}|refused", round, di, layout));
                        }
                        Exit::Code(0) if named.as_deref() == Some("mallory") => ctx.violation("C05:cli:sender-reported-under-a-name-whose-key-did-not-take-part:near-twin-key-text", case()),
                        Exit::Code(0) if layout != "sender absent" && named.as_deref() != Some("alice") => ctx.violation("C05:cli:listed-sender-not-named:near-twin-key-text", case()),
                        Exit::Code(0) if layout == "sender absent" && (named.is_some() || !err.contains(&alice.encoded_pk)) => ctx.violation("C05:cli:unlisted-sender-reported-under-a-keyring-name", case()),
                        Exit::Code(0) => {
                            ctx.seen("cli: near-twin key text never names the sender");
                            ctx.distinct(&format!("twinkey|{}|{}|{}", round, di, layout));
                        }
                        other => ctx.violation(&format!("C05:cli:near-twin-key-text:{}", other.describe()), case()),
                    }
                }
            }
        }
    }
    // sanity of the oracle's low-order list: each is really low order for a clamped scalar
    for lo in &low {
        if x25519_raw(&rng.arr32(), lo) != [0u8; 32] {
            ctx.inconclusive("low-order list is wrong");
        }
    }
}

pub fn run(ctx: &Ctx) {
    ctx.rule(
        "per round four fresh key pairs: real key_encrypt over all 64 (private used, public claimed, recipient) triples, each file decrypted under the key \
         matrix; expected Ok iff the claimed key is the public key of the private key used, the decrypting key is the one addressed and the recipient_public \
         argument matches. Forger family (independent Noise X writer): handshakes built without the claimed sender's private key (ss zero/reused/omitted/random/\
         attacker's), es dropped, recipient key or prologue not bound, every low-order encoding as claimed static and as ephemeral. Low-order recipients through \
         key_encrypt and the CLI. distinct_nontrivial counts distinct rejected (round, combination) cases and refused low-order recipients",
    );
    ctx.assume("X25519 / ChaCha20-Poly1305 are secure: the monitor observes rejection of forgeries it can construct, not infeasibility of forging");
    ctx.assume("a non-canonical encoding of the true sender point (top bit set) is the same key for X25519: recorded as observation only");
    matrix(ctx);
    forger(ctx);
    low_order_recipient(ctx);
    ctx.require("matrix: honest file accepted", 100);
    ctx.require("matrix: rejected", 500);
    ctx.require("forger control accepted", 5);
    ctx.require("forger rejected", 100);
    ctx.require("low-order recipient refused by key_encrypt", 14);
    ctx.require("low-order recipient refused by the CLI", 14);
    ctx.require("cli: file decrypts only under the key that was named", 6);
    ctx.require("cli: sender named correctly (or reported unknown) with keyrings of many sizes", 20);
}
