//! C13 - a failed command never creates or clobbers the output file prematurely.
//! Output-path state monitor across (command x failure cause x prior state).

use crate::cli::{keyring_text, Cmd, Exit, Ident, Stdin, WorkDir};
use crate::ctx::Ctx;
use crate::refspec;
use crate::util::{hex_short, par_for, Rng};
use crate::x25519_ref::low_order_canonical;
use serde_json::json;
use std::os::unix::fs::MetadataExt;

struct Case {
    command: &'static str,
    cause: String,
    args: Vec<String>,
    env: Vec<(String, String)>,
    stdin: Stdin,
    /// files to create in the run directory before the command
    files: Vec<(String, Vec<u8>)>,
    /// Some(prefix): a later-chunk failure, the output must hold exactly these bytes afterwards
    later_chunk_prefix: Option<Vec<u8>>,
    /// the command may legitimately succeed (then the run is not a failure case and nothing is judged); if it
    /// fails, it must have failed before touching the output path
    may_succeed: bool,
}

/// prior states of the output path: absent, short content, 400 kB content, dangling symbolic link, symbolic link to a file
const NSTATES: usize = 5;
const PRIOR: &[u8] = b"PRECIOUS EXISTING CONTENT - must survive a failed command\n";

fn s(x: &str) -> String {
    x.to_string()
}

/// Everything in a run directory (one level of sub-directories): name -> "file:<len>:<hash>", "link:<target>", "dir".
/// Symbolic links are NOT followed, so a link that was replaced, removed or had its target created shows up.
pub fn dir_snapshot(dir: &std::path::Path) -> std::collections::BTreeMap<String, String> {
    fn walk(base: &std::path::Path, d: &std::path::Path, depth: usize, out: &mut std::collections::BTreeMap<String, String>) {
        let rd = match std::fs::read_dir(d) {
            Ok(r) => r,
            Err(_) => return,
        };
        for e in rd.flatten() {
            let p = e.path();
            let name = p.strip_prefix(base).unwrap_or(&p).to_string_lossy().to_string();
            let md = match std::fs::symlink_metadata(&p) {
                Ok(m) => m,
                Err(_) => continue,
            };
            let ft = md.file_type();
            if ft.is_symlink() {
                out.insert(name, format!("link:{}", std::fs::read_link(&p).map(|t| t.to_string_lossy().to_string()).unwrap_or_default()));
            } else if ft.is_dir() {
                out.insert(name, "dir".into());
                if depth < 1 {
                    walk(base, &p, depth + 1, out);
                }
            } else if ft.is_file() {
                let bytes = std::fs::read(&p).unwrap_or_default();
                let mut h: u64 = 0xcbf29ce484222325;
                for b in &bytes {
                    h ^= *b as u64;
                    h = h.wrapping_mul(0x100000001b3);
                }
                out.insert(name, format!("file:{}:{:016x}:ino{}", bytes.len(), h, md.ino()));
            } else {
                out.insert(name, "other".into());
            }
        }
    }
    let mut out = std::collections::BTreeMap::new();
    walk(dir, dir, 0, &mut out);
    out
}

pub fn run(ctx: &Ctx) {
    ctx.rule(
        "for each command that writes an output file (encrypt, decrypt, password encrypt, password decrypt, key generate) x each failure cause of the statement (bad arguments, missing input, \
         missing / malformed keyring, unknown name, entry without private key, wrong password, unset password variable, wrong magic, flipped header bit, corrupted / truncated first chunk, low-order \
         recipient, input == output, ...) x prior state of the output path {absent, present with known content}: snapshot (existence, bytes, inode), run the real binary, compare; exit must be 1. \
         Later-chunk failures: the path must hold exactly the authenticated prefix. distinct_nontrivial counts distinct (command, cause, prior state) runs",
    );
    let mut rng = Rng::fork(ctx.seed, "C13");
    let alice = Ident::new("alice", "apw", &mut rng);
    let bob = Ident::new("bob", "bpw", &mut rng);
    let kr = keyring_text(&[(&alice, true), (&bob, true)]);
    let kr_pubonly = keyring_text(&[(&alice, false), (&bob, false)]);
    let lows = low_order_canonical();
    let kr_low = format!("{}\n[Key]\nName = mallory\nPublicKey = {}\n", alice.entry(true), refspec::encode_pk(&lows[2]));
    let pt3 = rng.bytes(65536 * 2 + 100);
    let chunking = vec![65536usize, 65536, 100];
    let kf = refspec::encode_key_file(&alice.sk, &alice.pk, &bob.pk, &rng.arr32(), &rng.arr32(), &pt3, &chunking).unwrap();
    let pf = refspec::encode_pass_file(b"ppw", &rng.arr32(), &pt3, &chunking);
    let small_kf = refspec::encode_key_file(&alice.sk, &alice.pk, &bob.pk, &rng.arr32(), &rng.arr32(), b"hello", &[5]).unwrap();
    let small_pf = refspec::encode_pass_file(b"ppw", &rng.arr32(), b"hello", &[5]);
    let base_files = |extra: Vec<(String, Vec<u8>)>| -> Vec<(String, Vec<u8>)> {
        let mut v = vec![(s("kr.txt"), kr.clone().into_bytes()), (s("plain.txt"), b"some plaintext\n".to_vec())];
        v.extend(extra);
        v
    };
    let env_pw = |p: &str| vec![(s("KESTREL_PASSWORD"), s(p))];
    let mut cases: Vec<Case> = Vec::new();
    let mut add = |command: &'static str, cause: &str, args: &[&str], env: Vec<(String, String)>, stdin: Stdin, files: Vec<(String, Vec<u8>)>, later: Option<Vec<u8>>| {
        cases.push(Case { command, cause: cause.to_string(), args: args.iter().map(|a| a.to_string()).collect(), env, stdin, files, later_chunk_prefix: later, may_succeed: false });
    };
    // ---------------- encrypt ----------------
    let e_ok = ["encrypt", "plain.txt", "-t", "bob", "-f", "alice", "-o", "OUT", "-k", "kr.txt", "--env-pass"];
    add("encrypt", "bad arguments: missing --from", &["encrypt", "plain.txt", "-t", "bob", "-o", "OUT", "-k", "kr.txt", "--env-pass"], env_pw("apw"), Stdin::Null, base_files(vec![]), None);
    add("encrypt", "bad arguments: two input files", &["encrypt", "plain.txt", "other.txt", "-t", "bob", "-f", "alice", "-o", "OUT", "-k", "kr.txt", "--env-pass"], env_pw("apw"), Stdin::Null, base_files(vec![]), None);
    add("encrypt", "bad arguments: unknown option", &["encrypt", "plain.txt", "-t", "bob", "-f", "alice", "-o", "OUT", "-k", "kr.txt", "--env-pass", "--frob"], env_pw("apw"), Stdin::Null, base_files(vec![]), None);
    add("encrypt", "missing input file", &["encrypt", "nope.txt", "-t", "bob", "-f", "alice", "-o", "OUT", "-k", "kr.txt", "--env-pass"], env_pw("apw"), Stdin::Null, base_files(vec![]), None);
    add("encrypt", "missing keyring file", &["encrypt", "plain.txt", "-t", "bob", "-f", "alice", "-o", "OUT", "-k", "nokr.txt", "--env-pass"], env_pw("apw"), Stdin::Null, base_files(vec![]), None);
    add("encrypt", "no keyring given and KESTREL_KEYRING unset", &["encrypt", "plain.txt", "-t", "bob", "-f", "alice", "-o", "OUT", "--env-pass"], env_pw("apw"), Stdin::Null, base_files(vec![]), None);
    add("encrypt", "malformed keyring", &e_ok, env_pw("apw"), Stdin::Null, vec![(s("kr.txt"), b"[Key]\nName = alice\n".to_vec()), (s("plain.txt"), b"x".to_vec())], None);
    add("encrypt", "keyring is not UTF-8", &e_ok, env_pw("apw"), Stdin::Null, vec![(s("kr.txt"), vec![0xff, 0xfe, 0xfd]), (s("plain.txt"), b"x".to_vec())], None);
    add("encrypt", "unknown recipient name", &["encrypt", "plain.txt", "-t", "nobody", "-f", "alice", "-o", "OUT", "-k", "kr.txt", "--env-pass"], env_pw("apw"), Stdin::Null, base_files(vec![]), None);
    add("encrypt", "unknown sender name", &["encrypt", "plain.txt", "-t", "bob", "-f", "nobody", "-o", "OUT", "-k", "kr.txt", "--env-pass"], env_pw("apw"), Stdin::Null, base_files(vec![]), None);
    add("encrypt", "sender entry without private key", &e_ok, env_pw("apw"), Stdin::Null, vec![(s("kr.txt"), kr_pubonly.clone().into_bytes()), (s("plain.txt"), b"x".to_vec())], None);
    add("encrypt", "wrong password", &e_ok, env_pw("not-apw"), Stdin::Null, base_files(vec![]), None);
    add("encrypt", "unset password variable", &e_ok, vec![], Stdin::Null, base_files(vec![]), None);
    add("encrypt", "low-order recipient (refused key exchange)", &["encrypt", "plain.txt", "-t", "mallory", "-f", "alice", "-o", "OUT", "-k", "kr.txt", "--env-pass"], env_pw("apw"), Stdin::Null, vec![(s("kr.txt"), kr_low.clone().into_bytes()), (s("plain.txt"), b"x".to_vec())], None);
    add("encrypt", "recipient key with a bad checksum", &["encrypt", "plain.txt", "-t", "bad", "-f", "alice", "-o", "OUT", "-k", "kr.txt", "--env-pass"], env_pw("apw"), Stdin::Null,
        vec![(s("kr.txt"), format!("{}\n[Key]\nName = bad\nPublicKey = {}\n", alice.entry(true), { let mut b = crate::util::unb64(&bob.encoded_pk).unwrap(); b[35] ^= 1; crate::util::b64(&b) }).into_bytes()), (s("plain.txt"), b"x".to_vec())], None);
    add("encrypt", "input == output", &["encrypt", "OUT", "-t", "bob", "-f", "alice", "-o", "OUT", "-k", "kr.txt", "--env-pass"], env_pw("apw"), Stdin::Null, base_files(vec![]), None);
    add("encrypt", "unknown recipient, input from stdin", &["encrypt", "-t", "nobody", "-f", "alice", "-o", "OUT", "-k", "kr.txt", "--env-pass"], env_pw("apw"), Stdin::Bytes(b"data".to_vec()), base_files(vec![]), None);
    // ---------------- decrypt ----------------
    let d_ok = ["decrypt", "in.ktl", "-t", "bob", "-o", "OUT", "-k", "kr.txt", "--env-pass"];
    let with_in = |bytes: &[u8]| base_files(vec![(s("in.ktl"), bytes.to_vec())]);
    add("decrypt", "bad arguments: missing --to", &["decrypt", "in.ktl", "-o", "OUT", "-k", "kr.txt", "--env-pass"], env_pw("bpw"), Stdin::Null, with_in(&small_kf), None);
    add("decrypt", "bad arguments: --from given", &["decrypt", "in.ktl", "-t", "bob", "-f", "alice", "-o", "OUT", "-k", "kr.txt", "--env-pass"], env_pw("bpw"), Stdin::Null, with_in(&small_kf), None);
    add("decrypt", "missing input file", &["decrypt", "nope.ktl", "-t", "bob", "-o", "OUT", "-k", "kr.txt", "--env-pass"], env_pw("bpw"), Stdin::Null, with_in(&small_kf), None);
    add("decrypt", "missing keyring file", &["decrypt", "in.ktl", "-t", "bob", "-o", "OUT", "-k", "nokr.txt", "--env-pass"], env_pw("bpw"), Stdin::Null, with_in(&small_kf), None);
    add("decrypt", "malformed keyring", &d_ok, env_pw("bpw"), Stdin::Null, vec![(s("kr.txt"), b"Name = outside\n".to_vec()), (s("in.ktl"), small_kf.clone())], None);
    add("decrypt", "unknown name", &["decrypt", "in.ktl", "-t", "nobody", "-o", "OUT", "-k", "kr.txt", "--env-pass"], env_pw("bpw"), Stdin::Null, with_in(&small_kf), None);
    add("decrypt", "recipient entry without private key", &d_ok, env_pw("bpw"), Stdin::Null, vec![(s("kr.txt"), kr_pubonly.clone().into_bytes()), (s("in.ktl"), small_kf.clone())], None);
    add("decrypt", "wrong password", &d_ok, env_pw("not-bpw"), Stdin::Null, with_in(&small_kf), None);
    add("decrypt", "unset password variable", &d_ok, vec![], Stdin::Null, with_in(&small_kf), None);
    add("decrypt", "file addressed to another key", &["decrypt", "in.ktl", "-t", "alice", "-o", "OUT", "-k", "kr.txt", "--env-pass"], env_pw("apw"), Stdin::Null, with_in(&small_kf), None);
    let mut x = small_kf.clone();
    x[3] = 0x77;
    add("decrypt", "wrong magic", &d_ok, env_pw("bpw"), Stdin::Null, with_in(&x), None);
    add("decrypt", "password-mode magic", &d_ok, env_pw("bpw"), Stdin::Null, with_in(&small_pf), None);
    for (i, off) in [4usize, 40, 90, 131].iter().enumerate() {
        let mut x = kf.clone();
        x[*off] ^= 1 << (i as u8);
        add("decrypt", &format!("flipped header bit at {}", off), &d_ok, env_pw("bpw"), Stdin::Null, with_in(&x), None);
    }
    let mut x = kf.clone();
    x[132 + 16 + 777] ^= 1;
    add("decrypt", "corrupted first chunk", &d_ok, env_pw("bpw"), Stdin::Null, with_in(&x), None);
    let mut x = kf.clone();
    x[132 + 11] ^= 1;
    add("decrypt", "first chunk header changed", &d_ok, env_pw("bpw"), Stdin::Null, with_in(&x), None);
    add("decrypt", "truncated first chunk", &d_ok, env_pw("bpw"), Stdin::Null, with_in(&kf[..132 + 40000]), None);
    add("decrypt", "truncated inside the handshake", &d_ok, env_pw("bpw"), Stdin::Null, with_in(&kf[..90]), None);
    add("decrypt", "empty input", &d_ok, env_pw("bpw"), Stdin::Null, with_in(&[]), None);
    add("decrypt", "input == output", &["decrypt", "OUT", "-t", "bob", "-o", "OUT", "-k", "kr.txt", "--env-pass"], env_pw("bpw"), Stdin::Null, base_files(vec![]), None);
    let mut x = kf.clone();
    x[200] ^= 1;
    add("decrypt", "corrupted first chunk, input from stdin", &["decrypt", "-t", "bob", "-o", "OUT", "-k", "kr.txt", "--env-pass"], env_pw("bpw"), Stdin::Bytes(x), base_files(vec![]), None);
    // later-chunk failures: exactly the authenticated prefix
    for k in [1usize, 2] {
        let off = 132 + k * 65568 + 16 + 5;
        let mut x = kf.clone();
        x[off] ^= 1;
        add("decrypt", &format!("corrupted chunk {} of 3 (later chunk)", k), &d_ok, env_pw("bpw"), Stdin::Null, with_in(&x), Some(pt3[..k * 65536].to_vec()));
        add("decrypt", &format!("truncated in chunk {} of 3 (later chunk)", k), &d_ok, env_pw("bpw"), Stdin::Null, with_in(&kf[..off]), Some(pt3[..k * 65536].to_vec()));
    }
    // ---------------- password encrypt ----------------
    let pe_ok = ["password", "encrypt", "plain.txt", "-o", "OUT", "--env-pass"];
    add("password encrypt", "bad arguments: two input files", &["password", "encrypt", "plain.txt", "b.txt", "-o", "OUT", "--env-pass"], env_pw("ppw"), Stdin::Null, base_files(vec![]), None);
    add("password encrypt", "bad arguments: unknown option", &["password", "encrypt", "plain.txt", "-o", "OUT", "--env-pass", "-t", "bob"], env_pw("ppw"), Stdin::Null, base_files(vec![]), None);
    add("password encrypt", "missing input file", &["password", "encrypt", "nope.txt", "-o", "OUT", "--env-pass"], env_pw("ppw"), Stdin::Null, base_files(vec![]), None);
    add("password encrypt", "unset password variable", &pe_ok, vec![], Stdin::Null, base_files(vec![]), None);
    add("password encrypt", "input == output", &["password", "encrypt", "OUT", "-o", "OUT", "--env-pass"], env_pw("ppw"), Stdin::Null, base_files(vec![]), None);
    add("password encrypt", "no password source at all (no tty)", &["password", "encrypt", "plain.txt", "-o", "OUT"], vec![], Stdin::Null, base_files(vec![]), None);
    // ---------------- password decrypt ----------------
    let pd_ok = ["password", "decrypt", "in.ktl", "-o", "OUT", "--env-pass"];
    add("password decrypt", "missing input file", &["password", "decrypt", "nope.ktl", "-o", "OUT", "--env-pass"], env_pw("ppw"), Stdin::Null, with_in(&small_pf), None);
    add("password decrypt", "bad arguments: two input files", &["password", "decrypt", "in.ktl", "x", "-o", "OUT", "--env-pass"], env_pw("ppw"), Stdin::Null, with_in(&small_pf), None);
    add("password decrypt", "wrong password", &pd_ok, env_pw("not-ppw"), Stdin::Null, with_in(&pf), None);
    add("password decrypt", "unset password variable", &pd_ok, vec![], Stdin::Null, with_in(&small_pf), None);
    add("password decrypt", "key-mode magic", &pd_ok, env_pw("ppw"), Stdin::Null, with_in(&small_kf), None);
    let mut x = small_pf.clone();
    x[2] ^= 0x10;
    add("password decrypt", "wrong magic", &pd_ok, env_pw("ppw"), Stdin::Null, with_in(&x), None);
    let mut x = pf.clone();
    x[20] ^= 4;
    add("password decrypt", "flipped header (salt) bit", &pd_ok, env_pw("ppw"), Stdin::Null, with_in(&x), None);
    let mut x = pf.clone();
    x[36 + 16 + 9] ^= 1;
    add("password decrypt", "corrupted first chunk", &pd_ok, env_pw("ppw"), Stdin::Null, with_in(&x), None);
    add("password decrypt", "truncated first chunk", &pd_ok, env_pw("ppw"), Stdin::Null, with_in(&pf[..36 + 30000]), None);
    add("password decrypt", "truncated header", &pd_ok, env_pw("ppw"), Stdin::Null, with_in(&pf[..20]), None);
    add("password decrypt", "input == output", &["password", "decrypt", "OUT", "-o", "OUT", "--env-pass"], env_pw("ppw"), Stdin::Null, base_files(vec![]), None);
    let off = 36 + 65568 + 16 + 5;
    let mut x = pf.clone();
    x[off] ^= 1;
    add("password decrypt", "corrupted chunk 1 of 3 (later chunk)", &pd_ok, env_pw("ppw"), Stdin::Null, with_in(&x), Some(pt3[..65536].to_vec()));
    // ---------------- later-chunk failures in files made of SHORT chunks (as written from a pipe) ----------------
    {
        let shapes: Vec<(&str, Vec<usize>)> = vec![
            ("ten chunks of 1000 bytes", vec![1000; 10]),
            ("chunks of 65536, 100, 65536, 5", vec![65536, 100, 65536, 5]),
            ("forty chunks of 7 bytes", vec![7; 40]),
            ("chunks of 65535, 65535, 2", vec![65535, 65535, 2]),
        ];
        for (shape, ch) in shapes {
            let total: usize = ch.iter().sum();
            let ptx = rng.bytes(total);
            let skf = refspec::encode_key_file(&alice.sk, &alice.pk, &bob.pk, &rng.arr32(), &rng.arr32(), &ptx, &ch).unwrap();
            let spf = refspec::encode_pass_file(b"ppw", &rng.arr32(), &ptx, &ch);
            // record k starts at header + sum(32 + len_i, i < k)
            let rec_start = |hdr: usize, k: usize| hdr + ch[..k].iter().map(|l| l + 32).sum::<usize>();
            for bad in [1usize, ch.len() / 2, ch.len() - 1] {
                if bad == 0 {
                    continue;
                }
                let prefix: Vec<u8> = ptx[..ch[..bad].iter().sum::<usize>()].to_vec();
                let mut x = skf.clone();
                let at = rec_start(132, bad) + 16 + ch[bad].min(3);
                x[at] ^= 1;
                add("decrypt", &format!("corrupted chunk {} of {} (later chunk, {})", bad, ch.len(), shape), &d_ok, env_pw("bpw"), Stdin::Null, with_in(&x), Some(prefix.clone()));
                add("decrypt", &format!("truncated in chunk {} of {} (later chunk, {})", bad, ch.len(), shape), &d_ok, env_pw("bpw"), Stdin::Null, with_in(&skf[..rec_start(132, bad) + 9]), Some(prefix.clone()));
                let mut x = spf.clone();
                let at = rec_start(36, bad) + 16 + ch[bad].min(3);
                x[at] ^= 1;
                add("password decrypt", &format!("corrupted chunk {} of {} (later chunk, {})", bad, ch.len(), shape), &pd_ok, env_pw("ppw"), Stdin::Null, with_in(&x), Some(prefix.clone()));
            }
        }
    }
    // ---------------- large inputs: a later chunk fails far into a file of many MiB ----------------
    for (bi, big_len) in ctx.tier.pick(vec![17usize << 20], vec![1usize << 20, 17 << 20, 33 << 20, 65 << 20]).into_iter().enumerate() {
        let big_pt = rng.bytes(big_len + 5);
        let chunking = refspec::natural_chunking(big_pt.len(), 65536);
        let nchunks = chunking.len();
        let big_kf = refspec::encode_key_file(&alice.sk, &alice.pk, &bob.pk, &rng.arr32(), &rng.arr32(), &big_pt, &chunking).unwrap();
        let big_pf = refspec::encode_pass_file(b"ppw", &rng.arr32(), &big_pt, &chunking);
        for bad_chunk in [5usize, nchunks - 2] {
            if bi > 0 && bad_chunk == 5 {
                continue;
            }
            let mut x = big_kf.clone();
            x[132 + bad_chunk * 65568 + 16 + 7] ^= 1;
            add("decrypt", &format!("corrupted chunk {} of {} (later chunk, {} MiB input)", bad_chunk, nchunks, big_len >> 20), &d_ok, env_pw("bpw"), Stdin::Null, with_in(&x), Some(big_pt[..bad_chunk * 65536].to_vec()));
            let mut x = big_pf.clone();
            x[36 + bad_chunk * 65568 + 16 + 7] ^= 1;
            add("password decrypt", &format!("corrupted chunk {} of {} (later chunk, {} MiB input)", bad_chunk, nchunks, big_len >> 20), &pd_ok, env_pw("ppw"), Stdin::Null, with_in(&x), Some(big_pt[..bad_chunk * 65536].to_vec()));
        }
    }
    // ---------------- key generate ----------------
    add("key generate", "empty name", &["key", "generate", "-o", "OUT", "--env-pass"], env_pw("gpw"), Stdin::Bytes(b"\n".to_vec()), vec![], None);
    add("key generate", "no name at all (stdin at EOF)", &["key", "generate", "-o", "OUT", "--env-pass"], env_pw("gpw"), Stdin::Null, vec![], None);
    add("key generate", "name longer than 128 bytes", &["key", "generate", "-o", "OUT", "--env-pass"], env_pw("gpw"), Stdin::Bytes(format!("{}\n", "n".repeat(129)).into_bytes()), vec![], None);
    add("key generate", "unset password variable", &["key", "generate", "-o", "OUT", "--env-pass"], vec![], Stdin::Bytes(b"joe\n".to_vec()), vec![], None);
    add("key generate", "bad arguments: unknown option", &["key", "generate", "-o", "OUT", "--env-pass", "--frob"], env_pw("gpw"), Stdin::Bytes(b"joe\n".to_vec()), vec![], None);
    add("key generate", "no password source at all (no tty)", &["key", "generate", "-o", "OUT"], vec![], Stdin::Bytes(b"joe\n".to_vec()), vec![], None);

    // ---------------- keyrings with a DAMAGED UNRELATED entry (valid text, wrong checksum) ----------------
    // The tool may ignore such an entry (the command then succeeds: not a failure case) or refuse the keyring; if it
    // fails - at whatever point it notices - the output path must not have been touched.
    {
        let mut blob = crate::util::unb64(&refspec::encode_pk(&refspec::pubkey_of(&rng.arr32()))).unwrap();
        blob[35] ^= 0x55;
        let dave = format!("[Key]\nName = dave\nPublicKey = {}\n", crate::util::b64(&blob));
        let kr_first = format!("{}\n{}", dave, kr);
        let kr_mid = format!("{}\n{}\n{}", alice.entry(true), dave, bob.entry(true));
        let kr_last = format!("{}\n{}", kr, dave);
        let kr_noalice = format!("{}\n{}", dave, bob.entry(true));
        for (pos, k) in [("first", &kr_first), ("between sender and recipient", &kr_mid), ("last", &kr_last), ("first, sender not listed", &kr_noalice)] {
            let files = vec![(s("kr.txt"), k.clone().into_bytes()), (s("plain.txt"), b"some plaintext\n".to_vec()), (s("in.ktl"), small_kf.clone())];
            cases.push(Case { command: "decrypt", cause: format!("damaged unrelated keyring entry ({})", pos), args: d_ok.iter().map(|a| a.to_string()).collect(), env: env_pw("bpw"), stdin: Stdin::Null, files: files.clone(), later_chunk_prefix: None, may_succeed: true });
            if !pos.contains("not listed") {
                cases.push(Case { command: "encrypt", cause: format!("damaged unrelated keyring entry ({})", pos), args: e_ok.iter().map(|a| a.to_string()).collect(), env: env_pw("apw"), stdin: Stdin::Null, files, later_chunk_prefix: None, may_succeed: true });
            }
        }
    }
    // the output path itself varies: plain, long, multi-byte characters at every alignment, odd characters
    let mut out_names: Vec<String> = vec!["OUT".into()];
    for (pad, ch, n) in [(0usize, "\u{e9}", 40usize), (1, "\u{e9}", 40), (0, "\u{20ac}", 30), (1, "\u{20ac}", 30), (2, "\u{20ac}", 30), (0, "\u{1f511}", 20), (1, "\u{1f511}", 20), (2, "\u{1f511}", 20), (3, "\u{1f511}", 20)] {
        out_names.push(format!("{}{}.bin", "a".repeat(pad), ch.repeat(n)));
    }
    out_names.push(format!("{}.decrypted", "long-ascii-name-".repeat(12)));
    out_names.push("name with spaces and 'quotes' \"x\".out".into());
    out_names.push("line\nbreak.out".into());
    out_names.push(".hidden".into());
    out_names.push("n".repeat(255));
    out_names.push(format!("r\u{e9}sum\u{e9}-{}\u{2713}.bin", "x".repeat(29)));
    let name_rounds = ctx.tier.pick(4, out_names.len());
    let wd = WorkDir::new("c13");
    let per_round = cases.len() * NSTATES;
    let total = per_round * name_rounds;
    ctx.note("matrix", json!({"cases": cases.len(), "prior_states": ["absent", "present with short known content", "present with 400 kB of known content", "dangling symbolic link (target absent)", "symbolic link to a file with known content"], "executions": total}));
    let wdp = &wd;
    let (small_kf_ref, small_pf_ref) = (small_kf.clone(), small_pf.clone());
    par_for(total, crate::util::ncpu(), |jfull| {
        let (round, j) = (jfull / per_round, jfull % per_round);
        let out_name: &str = if round == 0 { "OUT" } else { &out_names[1 + (j + round * 7 + ctx.seed as usize) % (out_names.len() - 1)] };
        let case = &cases[j / NSTATES];
        let state = j % NSTATES;
        let present = state == 1 || state == 2;
        // third prior state: content LONGER than anything the command could write (a stale tail would show)
        let long_prior: Vec<u8> = if state == 2 { (0..400_000u32).map(|i| (i % 251) as u8).collect() } else { PRIOR.to_vec() };
        let dir = wdp.path.join(format!("c{}", jfull));
        std::fs::create_dir_all(&dir).unwrap();
        for (name, bytes) in &case.files {
            std::fs::write(dir.join(name), bytes).unwrap();
        }
        let out = dir.join(out_name);
        // "input == output" needs the path to exist as the input: prior content is the input itself
        let uses_out_as_input = case.cause.contains("input == output");
        if uses_out_as_input {
            // the path is the INPUT too: it holds something the command could really work on (a valid ciphertext for the
            // decrypting commands), so that "input and output are the same file" is the only reason to fail
            let content: &[u8] = match case.command {
                "decrypt" => &small_kf_ref,
                "password decrypt" => &small_pf_ref,
                _ => &long_prior,
            };
            std::fs::write(&out, content).unwrap();
        } else if present {
            std::fs::write(&out, &long_prior).unwrap();
        } else if state == 3 {
            // dangling link: the path "exists" only as a link; its target is absent (and must stay absent)
            let _ = std::os::unix::fs::symlink("link-target-that-does-not-exist.bin", &out);
        } else if state == 4 {
            // the link's target holds content LONGER than anything the command could write (a stale tail would show)
            let long: Vec<u8> = (0..400_000u32).map(|i| (i % 249) as u8).collect();
            std::fs::write(dir.join("link-target.bin"), if jfull % 2 == 0 { &long[..] } else { PRIOR }).unwrap();
            let _ = std::os::unix::fs::symlink("link-target.bin", &out);
        }
        // stale siblings of the output path (as an interrupted earlier run of some tool could leave them): part of the
        // directory state that a failed command must leave alone (created here so that the supervisor's own ambient
        // copies do not appear as changes)
        for suffix in [".tmp", ".part"] {
            let _ = std::fs::write(dir.join(format!("{}{}", out_name, suffix)), b"stale sibling left by an earlier interrupted run\n");
        }
        let snap_before = dir_snapshot(&dir);
        let before = std::fs::metadata(&out).ok().map(|m| (m.ino(), m.len()));
        let before_bytes = std::fs::read(&out).ok();
        let a: Vec<&str> = case.args.iter().map(|x| if x == "OUT" { out_name } else { x.as_str() }).collect();
        let mut cmd = Cmd::new(&dir, &a).stdin(case.stdin.clone());
        for (k, v) in &case.env {
            cmd = cmd.env(k, v);
        }
        let o = cmd.run();
        ctx.eval();
        let after_bytes = std::fs::read(&out).ok();
        let after = std::fs::metadata(&out).ok().map(|m| (m.ino(), m.len()));
        let snap_after = dir_snapshot(&dir);
        // what changed anywhere in the run directory (the output path's own entry is judged separately for later-chunk failures)
        let changed: Vec<String> = {
            let mut v = Vec::new();
            for (k, a) in &snap_after {
                match snap_before.get(k) {
                    None => v.push(format!("created: {} ({})", k, a.split(":ino").next().unwrap_or(a))),
                    Some(b) if b != a => v.push(format!("changed: {} ({} -> {})", k, b.split(":ino").next().unwrap_or(b), a.split(":ino").next().unwrap_or(a))),
                    _ => {}
                }
            }
            for k in snap_before.keys() {
                if !snap_after.contains_key(k) {
                    v.push(format!("removed: {}", k));
                }
            }
            v
        };
        let prior_state = match state {
            3 if !uses_out_as_input => "dangling symbolic link",
            4 if !uses_out_as_input => "symbolic link to a file",
            _ if before_bytes.is_none() => "absent",
            _ if before_bytes.as_ref().unwrap().len() > 1000 => "present, 400 kB",
            _ => "present",
        };
        let detail = || {
            json!({"command": cmd.describe(), "cause": case.cause, "prior_state": prior_state, "exit": o.exit.describe(), "stderr": o.stderr_s(),
                   "output_before": before_bytes.as_ref().map(|b| hex_short(b, 40)), "output_after": after_bytes.as_ref().map(|b| hex_short(b, 40)), "output_after_len": after_bytes.as_ref().map(|b| b.len()), "directory_changes": changed})
        };
        let cause_key: String = case.cause.split(|c| c == ':' || c == '(' || c == ',').next().unwrap_or("").trim().replace(' ', "-");
        let sigbase = format!("C13:{}:{}", case.command.replace(' ', "-"), cause_key);
        if o.exit == Exit::Timeout {
            ctx.inconclusive("C13: child timed out");
        } else if case.may_succeed && o.exit == Exit::Code(0) {
            ctx.seen("command with a damaged unrelated keyring entry succeeded (not a failure case)");
        } else if o.exit != Exit::Code(1) {
            ctx.violation(&format!("{}:exit-status-{}", sigbase, o.exit.describe().replace(' ', "-")), detail());
        } else if let Some(prefix) = &case.later_chunk_prefix {
            // apart from the output path (and, behind a link, the file it points to) nothing in the directory may change
            let others: Vec<&String> = changed.iter().filter(|c| !(c.contains(&format!(": {} ", out_name)) || c.ends_with(&format!(": {}", out_name)) || c.contains(": link-target"))).collect();
            if after_bytes.as_deref() != Some(&prefix[..]) {
                ctx.violation(&format!("{}:output-is-not-exactly-the-authenticated-prefix", sigbase), detail());
            } else if !others.is_empty() {
                ctx.violation(&format!("{}:later-chunk-failure-changed-other-files", sigbase), detail());
            } else if state >= 3 && !std::fs::symlink_metadata(&out).map(|m| m.file_type().is_symlink()).unwrap_or(false) {
                ctx.violation(&format!("{}:symbolic-link-at-the-output-path-replaced", sigbase), detail());
            } else {
                ctx.seen("later-chunk failure: output holds exactly the authenticated prefix, exit 1");
                ctx.distinct(&format!("{}|{}|{}|{}", case.command, case.cause, prior_state, out_name));
                if out_name != "OUT" {
                    ctx.seen("later-chunk failure onto an unusual output name");
                }
            }
        } else if before_bytes.is_none() && after_bytes.is_some() {
            ctx.violation(&format!("{}:output-file-created-by-a-failed-command", sigbase), detail());
        } else if before_bytes.is_some() && after_bytes != before_bytes {
            ctx.violation(&format!("{}:existing-output-file-clobbered-by-a-failed-command", sigbase), detail());
        } else if before.map(|b| b.0) != after.map(|a| a.0) {
            ctx.violation(&format!("{}:existing-output-file-replaced-by-a-failed-command", sigbase), detail());
        } else if !changed.is_empty() {
            // e.g. the target of a dangling link created, the link itself removed, a stray temporary file left behind
            ctx.violation(&format!("{}:failed-command-created-removed-or-changed-a-file:{}", sigbase, prior_state.replace(' ', "-")), detail());
        } else {
            ctx.seen(&format!("{}: failed before any authenticated output, path untouched ({})", case.command, prior_state));
            ctx.distinct(&format!("{}|{}|{}|{}", case.command, case.cause, prior_state, out_name));
        }
        if jfull % 29 == 0 {
            ctx.sample("failed command", 3, || detail());
        }
        let _ = std::fs::remove_dir_all(&dir);
    });
    // the output path is a symlink to an existing file: a failed command must leave link and target alone
    {
        let d = wd.path.join("symlink");
        std::fs::create_dir_all(&d).unwrap();
        std::fs::write(d.join("kr.txt"), &kr).unwrap();
        std::fs::write(d.join("target.bin"), PRIOR).unwrap();
        let _ = std::os::unix::fs::symlink("target.bin", d.join("OUT"));
        let mut bad = small_kf.clone();
        bad[50] ^= 1;
        std::fs::write(d.join("bad.ktl"), &bad).unwrap();
        for (what, args, pw) in [
            ("decrypt with a flipped header bit", vec!["decrypt", "bad.ktl", "-t", "bob", "-o", "OUT", "-k", "kr.txt", "--env-pass"], "bpw"),
            ("encrypt to an unknown name", vec!["encrypt", "kr.txt", "-t", "nobody", "-f", "alice", "-o", "OUT", "-k", "kr.txt", "--env-pass"], "apw"),
            ("password decrypt of a key file", vec!["password", "decrypt", "bad.ktl", "-o", "OUT", "--env-pass"], "x"),
        ] {
            let o = Cmd::new(&d, &args).pass(pw).run();
            ctx.eval();
            let is_link = std::fs::symlink_metadata(d.join("OUT")).map(|m| m.file_type().is_symlink()).unwrap_or(false);
            let target = std::fs::read(d.join("target.bin")).unwrap_or_default();
            if o.exit == Exit::Code(1) && is_link && target == PRIOR {
                ctx.seen("symlinked output path: failed command left link and target intact");
                ctx.distinct(&format!("symlink|{}", what));
            } else {
                ctx.violation("C13:symlinked-output:existing-target-clobbered-or-link-replaced-by-a-failed-command", json!({"case": what, "exit": o.exit.describe(), "still_a_symlink": is_link, "target_len": target.len(), "stderr": o.stderr_s()}));
            }
        }
    }
    // key generate onto an existing keyring whose write fails (file size limit): exit 1 and the keyring is still
    // there, byte for byte - a failed command must not destroy what the path held
    {
        let d = wd.path.join("genfail");
        std::fs::create_dir_all(&d).unwrap();
        let existing = format!("{}\n{}", alice.entry(true), bob.entry(true));
        for (what, limit) in [("no byte can be written", 1u64), ("the write is cut short", 2u64)] {
            std::fs::write(d.join("ring.txt"), &existing).unwrap();
            let o = Cmd::new(&d, &["key", "generate", "-o", "ring.txt", "--env-pass"]).pass("gpw").stdin(Stdin::Bytes(b"newkey\n".to_vec())).fsize_limit(limit).run();
            ctx.eval();
            let after = std::fs::read(d.join("ring.txt")).ok();
            let intact_prefix = after.as_ref().map(|a| a.len() >= existing.len() && a[..existing.len()] == *existing.as_bytes()).unwrap_or(false);
            if o.exit == Exit::Code(1) && intact_prefix {
                ctx.seen("key generate whose write fails: existing keyring still present with its content");
                ctx.distinct(&format!("genfail|{}", what));
            } else if o.exit == Exit::Code(0) {
                // the limit did not bite (keyring shorter than expected): not a verdict
                ctx.seen("key generate under a size limit succeeded (limit not reached)");
            } else {
                ctx.violation("C13:key-generate:write-failure:existing-keyring-destroyed-or-altered", json!({"case": what, "existing_len": existing.len(), "limit_blocks": limit, "exit": o.exit.describe(), "stderr": o.stderr_s(), "file_after_len": after.as_ref().map(|a| a.len())}));
            }
        }
    }
    ctx.require("key generate whose write fails", 1);
    ctx.require("symlinked output path", 3);
    ctx.require("encrypt: failed before", 20);
    ctx.require("decrypt: failed before", 30);
    ctx.require("password encrypt: failed before", 8);
    ctx.require("password decrypt: failed before", 14);
    ctx.require("key generate: failed before", 8);
    ctx.require("later-chunk failure", 8);
    ctx.require("later-chunk failure onto an unusual output name", 8);
}
