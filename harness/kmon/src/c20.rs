//! C20 - key containers erase their secret bytes when dropped.
//! The global allocator inspects each *watched* heap block at the moment it is released
//! (before forwarding to the system allocator). Inline PayloadKey values are observed in a
//! Box (watched block) and in a slot dropped with drop_in_place and read back. The same
//! program also runs under Miri (kmiri c20), which checks zeroize's unsafe volatile writes.

use crate::allocmon;
use crate::ctx::Ctx;
use crate::kio::*;
use crate::util::{hex, Rng};
use kestrel_crypto::{PayloadKey, PrivateKey};
use serde_json::json;

struct Watched {
    slot: usize,
    what: String,
}

fn watch_sk(k: &PrivateKey, what: &str) -> Watched {
    Watched { slot: allocmon::watch(k.as_bytes().as_ptr(), 32), what: what.to_string() }
}

thread_local! {
    /// blocks that were still allocated when their handle went away (a container may share its bytes
    /// between clones): judged when the block is released, at the latest at the next quiescent point
    static PENDING: std::cell::RefCell<Vec<(Watched, String)>> = const { std::cell::RefCell::new(Vec::new()) };
}

fn settle(ctx: &Ctx, w: Watched, order: &str) {
    if w.slot != usize::MAX && allocmon::verdict(w.slot).0 == 0 {
        PENDING.with(|p| p.borrow_mut().push((w, order.to_string())));
        return;
    }
    settle_now(ctx, w, order)
}

/// Quiescent point: every handle made so far has been dropped. A block that is still allocated now was
/// leaked rather than released; the statement says nothing about memory that is never released, so
/// this is reported as inconclusive, not as a violation.
fn quiescent(ctx: &Ctx) {
    let pending: Vec<(Watched, String)> = PENDING.with(|p| p.borrow_mut().drain(..).collect());
    for (w, order) in pending {
        if allocmon::verdict(w.slot).0 == 0 {
            allocmon::unwatch(w.slot);
            ctx.inconclusive(&format!("C20: the block of a {} ({}) was never released although every handle was dropped (leaked, cannot be judged)", w.what, order));
        } else {
            ctx.seen("judged at a later release than the handle's own drop (bytes shared between handles)");
            settle_now(ctx, w, &order);
        }
    }
}

fn settle_now(ctx: &Ctx, w: Watched, order: &str) {
    ctx.eval();
    if w.slot == usize::MAX {
        ctx.inconclusive("watch table full");
        return;
    }
    let (st, nz) = allocmon::verdict(w.slot);
    let stale = allocmon::stale_copy(w.slot);
    allocmon::unwatch(w.slot);
    if let Some(off) = stale {
        let ctor = w.what.split(' ').next().unwrap_or("");
        ctx.violation(&format!("C20:copy-of-the-secret-left-in-the-released-block:{}", ctor), json!({"container": w.what, "drop_order": order, "copy_found_at_block_offset": off, "note": "the live 32 bytes were judged separately; this copy sits in the same allocation behind them (e.g. spare capacity)"}));
        return;
    }
    let ctor = w.what.split(' ').next().unwrap_or("");
    match st {
        1 => {
            ctx.seen(&format!("released all-zero: {}", w.what));
            ctx.distinct(&format!("{}|{}", w.what, order));
        }
        2 => ctx.violation(&format!("C20:secret-bytes-present-at-release:{}", ctor), json!({"container": w.what, "drop_order": order, "nonzero_bytes_at_release": nz})),
        _ => ctx.violation(&format!("C20:container-never-released:{}", ctor), json!({"container": w.what, "drop_order": order})),
    }
}

fn permutations(n: usize) -> Vec<Vec<usize>> {
    fn rec(cur: &mut Vec<usize>, used: &mut Vec<bool>, n: usize, out: &mut Vec<Vec<usize>>) {
        if cur.len() == n {
            out.push(cur.clone());
            return;
        }
        for i in 0..n {
            if !used[i] {
                used[i] = true;
                cur.push(i);
                rec(cur, used, n, out);
                cur.pop();
                used[i] = false;
            }
        }
    }
    let mut out = Vec::new();
    rec(&mut Vec::new(), &mut vec![false; n], n, &mut out);
    out
}

fn control(ctx: &Ctx, rng: &mut Rng) -> bool {
    // positive control: a plain Vec<u8> with key-like bytes must read NON-zero at release,
    // otherwise the monitor cannot see anything and the run is inconclusive
    let mut v = rng.bytes(32);
    v[0] |= 1;
    let slot = allocmon::watch(v.as_ptr(), 32);
    drop(v);
    let (st, _) = allocmon::verdict(slot);
    allocmon::unwatch(slot);
    if st != 2 {
        ctx.inconclusive("positive control failed: a plain Vec<u8> read as zero (or unreleased) at dealloc");
        return false;
    }
    ctx.seen("control: plain Vec<u8> is non-zero at release (monitor can see)");
    true
}

pub fn run(ctx: &Ctx) {
    ctx.rule(
        "every PrivateKey made through each constructor (generate, try_from, clone, clone of clone) is registered by the address of its buffer; the global \
         allocator inspects the block at dealloc and records whether all 32 bytes are zero; drop orders: all permutations of 5 values, scope exit, explicit drop, \
         mem::replace, struct field, Vec, panic unwinding. PayloadKey: inside a Box (watched block) and in a MaybeUninit slot dropped in place and read back. The \
         same program runs under Miri. A plain Vec<u8> is the positive control in every run. distinct_nontrivial counts distinct (constructor, drop order) cases",
    );
    ctx.assume("register / stack copies made by the compiler are invisible to an allocator- or Miri-level observation");
    let mut rng = Rng::fork(ctx.seed, "C20");
    if !control(ctx, &mut rng) {
        return;
    }
    // all permutations of drop order over 5 keys built by different constructors
    let perms = permutations(5);
    let rounds = ctx.tier.pick(1, 40);
    for round in 0..rounds {
        for p in &perms {
            let raw = rng.bytes(32);
            let k0 = PrivateKey::try_from(&raw[..]).unwrap();
            let k1 = PrivateKey::generate();
            let k2 = k0.clone();
            let k3 = k2.clone();
            let k4 = k1.clone();
            let names = ["try_from", "generate", "clone of try_from", "clone of clone", "clone of generate"];
            let mut keys: Vec<Option<PrivateKey>> = vec![Some(k0), Some(k1), Some(k2), Some(k3), Some(k4)];
            let watched: Vec<Watched> = keys.iter().zip(names.iter()).map(|(k, n)| watch_sk(k.as_ref().unwrap(), n)).collect();
            for &i in p {
                let k = keys[i].take();
                drop(k);
            }
            let order = format!("perm{:?}", p);
            for w in watched {
                settle(ctx, w, &order);
            }
            quiescent(ctx);
            if round == 0 && p == &perms[17] {
                ctx.sample("drop-order permutation", 1, || json!({"constructors": names, "drop_order": p, "verdict": "all five blocks all-zero at dealloc"}));
            }
        }
    }
    // other ways a value goes away
    for rep in 0..ctx.tier.pick(20, 400) {
        let raw = rng.bytes(32);
        // scope exit
        let w = {
            let k = PrivateKey::try_from(&raw[..]).unwrap();
            watch_sk(&k, "try_from")
        };
        settle(ctx, w, "scope exit");
        // mem::replace / Option::take
        let mut holder = Some(PrivateKey::generate());
        let w = watch_sk(holder.as_ref().unwrap(), "generate");
        let old = std::mem::replace(&mut holder, Some(PrivateKey::try_from(&raw[..]).unwrap()));
        let w2 = watch_sk(holder.as_ref().unwrap(), "try_from");
        drop(old);
        settle(ctx, w, "mem::replace");
        holder = None;
        let _ = &holder;
        settle(ctx, w2, "overwritten by assignment");
        // overwriting an existing key: clone_from, plain assignment, Option::replace, Vec::clear/truncate
        {
            let mut a = PrivateKey::try_from(&raw[..]).unwrap();
            let b = PrivateKey::generate();
            let wa = watch_sk(&a, "try_from");
            a.clone_from(&b);
            settle(ctx, wa, "overwritten by clone_from");
            let wa2 = watch_sk(&a, "clone");
            a = b.clone();
            settle(ctx, wa2, "overwritten by assignment of a clone");
            let mut o = Some(a);
            let wo = watch_sk(o.as_ref().unwrap(), "clone");
            let old = o.replace(PrivateKey::generate());
            drop(old);
            settle(ctx, wo, "Option::replace");
            let mut v = vec![PrivateKey::generate(), b.clone(), b.clone()];
            let (w0, w1, w2) = (watch_sk(&v[0], "generate"), watch_sk(&v[1], "clone"), watch_sk(&v[2], "clone"));
            v.truncate(2);
            settle(ctx, w2, "Vec::truncate");
            v.clear();
            settle(ctx, w0, "Vec::clear");
            settle(ctx, w1, "Vec::clear");
            let mut p1 = PayloadKey::new(&raw);
            let p2 = PayloadKey::new(b.as_bytes());
            p1.clone_from(&p2);
            if p1.as_bytes() != p2.as_bytes() {
                ctx.violation("C20:PayloadKey-clone_from-wrong-value", json!({}));
            }
        }
        // struct field and Vec element
        struct Pair {
            _a: PrivateKey,
            _b: PrivateKey,
        }
        let a = PrivateKey::try_from(&raw[..]).unwrap();
        let b = a.clone();
        let (wa, wb) = (watch_sk(&a, "try_from"), watch_sk(&b, "clone"));
        drop(Pair { _a: a, _b: b });
        settle(ctx, wa, "struct field");
        settle(ctx, wb, "struct field");
        let v = vec![PrivateKey::generate(), PrivateKey::generate().clone()];
        let (w0, w1) = (watch_sk(&v[0], "generate"), watch_sk(&v[1], "clone"));
        drop(v);
        settle(ctx, w0, "Vec element");
        settle(ctx, w1, "Vec element");
        // panic unwinding
        let mut slot = None;
        let _ = guarded(|| {
            let k = PrivateKey::try_from(&raw[..]).unwrap();
            slot = Some(watch_sk(&k, "try_from"));
            if rep >= 0 {
                panic!("kmon: deliberate unwinding with a live key");
            }
            drop(k);
        });
        if let Some(w) = slot {
            settle(ctx, w, "panic unwinding");
        }
        // keys that went through real use (DH, to_public) before being dropped
        let k = PrivateKey::generate();
        let w = watch_sk(&k, "generate");
        let pubk = k.to_public().unwrap();
        let _ = k.diffie_hellman(&pubk);
        drop(k);
        settle(ctx, w, "after to_public + diffie_hellman");
        // PayloadKey in a Box (and its clone)
        let pk = Box::new(PayloadKey::new(&raw));
        let w = Watched { slot: allocmon::watch(pk.as_bytes().as_ptr(), 32), what: "Box<PayloadKey>".into() };
        let pk2 = pk.clone();
        let w2 = Watched { slot: allocmon::watch(pk2.as_bytes().as_ptr(), 32), what: "Box<PayloadKey> clone".into() };
        drop(pk2);
        drop(pk);
        settle(ctx, w, "explicit drop");
        settle(ctx, w2, "explicit drop");
        // PayloadKey dropped in place in a slot that stays allocated, then read back
        ctx.eval();
        let mut slot = std::mem::MaybeUninit::<PayloadKey>::uninit();
        slot.write(PayloadKey::new(&raw));
        let after: Vec<u8> = unsafe {
            std::ptr::drop_in_place(slot.as_mut_ptr());
            std::slice::from_raw_parts(slot.as_ptr() as *const u8, std::mem::size_of::<PayloadKey>()).to_vec()
        };
        if after.iter().any(|b| *b != 0) {
            ctx.violation("C20:secret-bytes-present-after-drop:PayloadKey", json!({"slot_after_drop_in_place": hex(&after), "key": hex(&raw)}));
        } else {
            ctx.seen("released all-zero: PayloadKey (slot, drop_in_place)");
            ctx.distinct("PayloadKey slot|drop_in_place");
        }
        // the same at every address alignment (PayloadKey has alignment 1: it can sit at any offset of a struct)
        if std::mem::align_of::<PayloadKey>() == 1 {
            let size = std::mem::size_of::<PayloadKey>();
            for off in 0..16usize {
                let mut area = [0xAAu8; 96];
                let after: Vec<u8> = unsafe {
                    let p = area.as_mut_ptr().add(16 + off) as *mut PayloadKey;
                    std::ptr::write(p, if off % 2 == 0 { PayloadKey::new(&raw) } else { PayloadKey::new(&raw).clone() });
                    std::ptr::drop_in_place(p);
                    std::slice::from_raw_parts(p as *const u8, size).to_vec()
                };
                ctx.eval();
                if after.iter().any(|b| *b != 0) {
                    ctx.violation("C20:secret-bytes-present-after-drop:PayloadKey-at-an-unaligned-address", json!({"address_offset_mod_16": (area.as_ptr() as usize + 16 + off) % 16, "slot_after_drop_in_place": hex(&after), "key": hex(&raw)}));
                    break;
                }
                ctx.seen("released all-zero: PayloadKey at every address alignment (drop_in_place)");
                ctx.distinct(&format!("PayloadKey slot|align{}", (area.as_ptr() as usize + 16 + off) % 16));
            }
        }
        let mut slot = std::mem::MaybeUninit::<PayloadKey>::uninit();
        slot.write(PayloadKey::new(&raw).clone());
        let after: Vec<u8> = unsafe {
            std::ptr::drop_in_place(slot.as_mut_ptr());
            std::slice::from_raw_parts(slot.as_ptr() as *const u8, std::mem::size_of::<PayloadKey>()).to_vec()
        };
        ctx.eval();
        if after.iter().any(|b| *b != 0) {
            ctx.violation("C20:secret-bytes-present-after-drop:PayloadKey-clone", json!({"slot_after_drop_in_place": hex(&after)}));
        } else {
            ctx.seen("released all-zero: PayloadKey clone (slot, drop_in_place)");
        }
        quiescent(ctx);
    }
    // clones released by several threads at the same moment (a container that shares its bytes between
    // clones has to decide which release wipes them; a release order decided by a race is still an order)
    {
        let rounds = ctx.tier.pick(4_000, 150_000);
        let mut skews = std::collections::BTreeSet::new();
        for round in 0..rounds {
            let nthreads = 2 + round % 3;
            let raw = rng.bytes(32);
            let k0 = if round % 2 == 0 { PrivateKey::try_from(&raw[..]).unwrap() } else { PrivateKey::generate() };
            let mut keys = vec![k0];
            for i in 1..nthreads {
                let c = keys[(i - 1) / 2].clone();
                keys.push(c);
            }
            let watched: Vec<Watched> = keys.iter().enumerate().map(|(i, k)| watch_sk(k, if i == 0 { "try_from/generate (concurrent)" } else { "clone (concurrent)" })).collect();
            let barrier = std::sync::Barrier::new(nthreads);
            let skew = (round / 7) % 40;
            skews.insert((nthreads, skew));
            std::thread::scope(|sc| {
                for (i, k) in keys.drain(..).enumerate() {
                    let b = &barrier;
                    sc.spawn(move || {
                        b.wait();
                        for _ in 0..(i * skew) {
                            std::hint::spin_loop();
                        }
                        drop(k);
                    });
                }
            });
            for w in watched {
                settle(ctx, w, &format!("released by {} threads at once", nthreads));
            }
            quiescent(ctx);
        }
        ctx.note("concurrent_release", json!({"rounds": rounds, "distinct_thread_count_and_skew_settings": skews.len(), "cpus": crate::util::ncpu()}));
    }
    // informational: by-value scan of every freed block while the library works with a registered secret
    {
        let s = rng.arr32();
        let r = rng.arr32();
        let s_pub = crate::refspec::pubkey_of(&s);
        let r_pub = crate::refspec::pubkey_of(&r);
        let pl = rng.arr32();
        allocmon::scan_for(&[s, pl]);
        let e = key_encrypt_run(b"scan", &Io::plain(), &KeyEnc { s_priv: &s, s_pub: &s_pub, r_pub: &r_pub, e_priv: None, payload: Some(pl) });
        let (hits, sizes) = allocmon::scan_result();
        allocmon::scan_for(&[r]);
        let _ = key_decrypt_run(&e.out, &Io::plain(), &r, &r_pub);
        let (hits2, sizes2) = allocmon::scan_result();
        ctx.note(
            "informational_freed_blocks_holding_a_registered_secret",
            json!({"during_key_encrypt": {"blocks": hits, "sizes": sizes}, "during_key_decrypt": {"blocks": hits2, "sizes": sizes2},
                   "note": "not a verdict: the statement covers key containers; the repository itself documents other copies as best-effort. Harness-side copies (scripted reader, key arrays) are on the stack and never enter this count"}),
        );
    }
    // the same workload under Miri
    if crate::lib_only() {
        return;
    }
    if let Some(o) = crate::c18::miri_run(ctx, "c20", ctx.seed, 600) {
        crate::c18::judge_miri(ctx, "C20", "c20", &o);
        ctx.sample("miri run", 1, || json!({"mode": "c20", "stdout": o.stdout_s().trim()}));
    }
    // concurrent release under Miri's scheduler: one execution per scheduler seed, raised preemption rate
    let nseeds = ctx.tier.pick(12, 160);
    let base = ctx.seed % 1000 * 1000;
    if let Some(o) = crate::c18::miri_run_flags(ctx, "c20-conc", ctx.seed, 1500, &format!("-Zmiri-many-seeds={}..{} -Zmiri-preemption-rate=0.2", base, base + nseeds)) {
        if crate::c18::judge_miri(ctx, "C20", "c20-conc", &o) {
            let clean = o.stdout_s().lines().filter(|l| l.starts_with("KMIRI-OK c20-conc")).count();
            ctx.seen_n("miri c20-conc: distinct scheduler seeds whose execution released only wiped blocks", clean as u64);
            for i in 0..clean {
                ctx.distinct(&format!("miri-sched|{}", base + i as u64));
            }
            ctx.sample("miri concurrent release", 1, || json!({"mode": "c20-conc", "scheduler_seeds": format!("{}..{}", base, base + nseeds), "preemption_rate": 0.2, "clean_executions": clean}));
        }
    }
    ctx.require("miri c20-conc: distinct scheduler seeds", ctx.tier.pick(12, 160));
    ctx.require("released all-zero: try_from", 100);
    ctx.require("released all-zero: generate", 100);
    ctx.require("released all-zero: clone", 100);
    ctx.require("released all-zero: clone (concurrent)", 1000);
    ctx.require("released all-zero: PayloadKey", 10);
    ctx.require("released all-zero: Box<PayloadKey>", 10);
    ctx.require("miri c20", 1);
}
