//! Small helpers: hex, seeded PRNG (xoshiro256**), compositions, parallel map.

use std::sync::atomic::{AtomicUsize, Ordering};
use std::sync::Mutex;

pub fn hex(b: &[u8]) -> String {
    let mut s = String::with_capacity(b.len() * 2);
    for x in b {
        s.push_str(&format!("{:02x}", x));
    }
    s
}

/// hex of at most `max` bytes, with a length suffix when cut.
pub fn hex_short(b: &[u8], max: usize) -> String {
    if b.len() <= max {
        hex(b)
    } else {
        format!("{}..(+{} bytes)", hex(&b[..max]), b.len() - max)
    }
}

pub fn unhex(s: &str) -> Vec<u8> {
    let s: Vec<u8> = s.bytes().filter(|c| !c.is_ascii_whitespace()).collect();
    assert!(s.len() % 2 == 0, "odd hex length");
    let v = |c: u8| -> u8 {
        match c {
            b'0'..=b'9' => c - b'0',
            b'a'..=b'f' => c - b'a' + 10,
            b'A'..=b'F' => c - b'A' + 10,
            _ => panic!("bad hex"),
        }
    };
    s.chunks(2).map(|p| (v(p[0]) << 4) | v(p[1])).collect()
}

pub fn unhex32(s: &str) -> [u8; 32] {
    unhex(s).try_into().expect("32 bytes of hex")
}

#[derive(Clone)]
pub struct Rng {
    s: [u64; 4],
}

impl Rng {
    pub fn new(seed: u64) -> Rng {
        // splitmix64 expansion
        let mut z = seed;
        let mut s = [0u64; 4];
        for x in s.iter_mut() {
            z = z.wrapping_add(0x9E3779B97F4A7C15);
            let mut y = z;
            y = (y ^ (y >> 30)).wrapping_mul(0xBF58476D1CE4E5B9);
            y = (y ^ (y >> 27)).wrapping_mul(0x94D049BB133111EB);
            *x = y ^ (y >> 31);
        }
        Rng { s }
    }
    /// An independent stream derived from this seed and a label.
    pub fn fork(seed: u64, label: &str) -> Rng {
        let mut h: u64 = 0xcbf29ce484222325;
        for b in label.bytes() {
            h ^= b as u64;
            h = h.wrapping_mul(0x100000001b3);
        }
        Rng::new(seed ^ h.rotate_left(17))
    }
    pub fn next(&mut self) -> u64 {
        let r = self.s[1].wrapping_mul(5).rotate_left(7).wrapping_mul(9);
        let t = self.s[1] << 17;
        self.s[2] ^= self.s[0];
        self.s[3] ^= self.s[1];
        self.s[1] ^= self.s[2];
        self.s[0] ^= self.s[3];
        self.s[2] ^= t;
        self.s[3] = self.s[3].rotate_left(45);
        r
    }
    pub fn below(&mut self, n: u64) -> u64 {
        if n == 0 {
            0
        } else {
            self.next() % n
        }
    }
    pub fn range(&mut self, lo: usize, hi_incl: usize) -> usize {
        lo + self.below((hi_incl - lo + 1) as u64) as usize
    }
    pub fn bytes(&mut self, n: usize) -> Vec<u8> {
        let mut v = vec![0u8; n];
        self.fill(&mut v);
        v
    }
    /// random bytes of a random length in lo..=hi
    pub fn bytes_in(&mut self, lo: usize, hi: usize) -> Vec<u8> {
        let n = self.range(lo, hi);
        self.bytes(n)
    }
    pub fn fill(&mut self, v: &mut [u8]) {
        for c in v.chunks_mut(8) {
            let x = self.next().to_le_bytes();
            c.copy_from_slice(&x[..c.len()]);
        }
    }
    pub fn arr32(&mut self) -> [u8; 32] {
        let mut a = [0u8; 32];
        self.fill(&mut a);
        a
    }
    pub fn pick<'a, T>(&mut self, v: &'a [T]) -> &'a T {
        &v[self.below(v.len() as u64) as usize]
    }
    pub fn chance(&mut self, num: u64, den: u64) -> bool {
        self.below(den) < num
    }
}

/// All compositions of n into parts of size 1..=maxpart (order matters).
pub fn compositions(n: usize, maxpart: usize) -> Vec<Vec<usize>> {
    fn rec(n: usize, maxpart: usize, cur: &mut Vec<usize>, out: &mut Vec<Vec<usize>>) {
        if n == 0 {
            out.push(cur.clone());
            return;
        }
        for p in 1..=maxpart.min(n) {
            cur.push(p);
            rec(n - p, maxpart, cur, out);
            cur.pop();
        }
    }
    let mut out = Vec::new();
    rec(n, maxpart, &mut Vec::new(), &mut out);
    out
}

/// Run `f(i)` for i in 0..n on up to `threads` worker threads.
pub fn par_for<F: Fn(usize) + Sync>(n: usize, threads: usize, f: F) {
    let next = AtomicUsize::new(0);
    let threads = threads.max(1).min(n.max(1));
    std::thread::scope(|s| {
        for _ in 0..threads {
            s.spawn(|| loop {
                let i = next.fetch_add(1, Ordering::Relaxed);
                if i >= n {
                    break;
                }
                f(i);
            });
        }
    });
}

pub fn par_map<T: Send, F: Fn(usize) -> T + Sync>(n: usize, threads: usize, f: F) -> Vec<T> {
    let out: Mutex<Vec<Option<T>>> = Mutex::new((0..n).map(|_| None).collect());
    par_for(n, threads, |i| {
        let v = f(i);
        out.lock().unwrap()[i] = Some(v);
    });
    out.into_inner().unwrap().into_iter().map(|x| x.unwrap()).collect()
}

pub fn ncpu() -> usize {
    std::thread::available_parallelism().map(|n| n.get()).unwrap_or(4).min(16)
}

pub fn b64(b: &[u8]) -> String {
    // independent of ct-codecs on purpose (the keyring code under test uses ct-codecs)
    const T: &[u8; 64] = b"ABCDEFGHIJKLMNOPQRSTUVWXYZabcdefghijklmnopqrstuvwxyz0123456789+/";
    let mut s = String::new();
    for c in b.chunks(3) {
        let n = (c[0] as u32) << 16 | (*c.get(1).unwrap_or(&0) as u32) << 8 | *c.get(2).unwrap_or(&0) as u32;
        s.push(T[(n >> 18) as usize & 63] as char);
        s.push(T[(n >> 12) as usize & 63] as char);
        if c.len() > 1 {
            s.push(T[(n >> 6) as usize & 63] as char);
        } else {
            s.push('=');
        }
        if c.len() > 2 {
            s.push(T[n as usize & 63] as char);
        } else {
            s.push('=');
        }
    }
    s
}

/// Strict standard-alphabet base64 decode (padding required, no whitespace). Independent of ct-codecs.
pub fn unb64(s: &str) -> Option<Vec<u8>> {
    let b = s.as_bytes();
    if b.len() % 4 != 0 {
        return None;
    }
    let val = |c: u8| -> Option<u32> {
        match c {
            b'A'..=b'Z' => Some((c - b'A') as u32),
            b'a'..=b'z' => Some((c - b'a' + 26) as u32),
            b'0'..=b'9' => Some((c - b'0' + 52) as u32),
            b'+' => Some(62),
            b'/' => Some(63),
            _ => None,
        }
    };
    let mut out = Vec::new();
    let nq = b.len() / 4;
    for (qi, q) in b.chunks(4).enumerate() {
        let pad = q.iter().rev().take_while(|&&c| c == b'=').count();
        if pad > 2 || (pad > 0 && qi != nq - 1) {
            return None;
        }
        let mut n = 0u32;
        for (i, &c) in q.iter().enumerate() {
            let v = if i >= 4 - pad { 0 } else { val(c)? };
            n = n << 6 | v;
        }
        out.push((n >> 16) as u8);
        if pad < 2 {
            out.push((n >> 8) as u8);
        }
        if pad < 1 {
            out.push(n as u8);
        }
    }
    Some(out)
}

/// Plaintexts whose CONTENT (not only length) is special: runs of zeros and 0xff aligned with, and
/// straddling, the 64 KiB chunk size - at the start, in the middle, at the end, and the whole file.
pub fn content_families(rng: &mut Rng) -> Vec<(&'static str, Vec<u8>)> {
    const C: usize = 65536;
    let cat = |parts: Vec<Vec<u8>>| parts.concat();
    vec![
        ("all zeros, two chunks", vec![0u8; 2 * C]),
        ("random chunk then a zero chunk", cat(vec![rng.bytes(C), vec![0u8; C]])),
        ("zero chunk, random chunk, two zero chunks", cat(vec![vec![0u8; C], rng.bytes(C), vec![0u8; 2 * C]])),
        ("random then zeros one byte short of a chunk", cat(vec![rng.bytes(C), vec![0u8; C - 1]])),
        ("zeros, three chunks minus one byte", vec![0u8; 3 * C - 1]),
        ("one zero chunk", vec![0u8; C]),
        ("all 0xff, two chunks", vec![0xffu8; 2 * C]),
        ("random with a zero run across the chunk boundary", {
            let mut v = rng.bytes(2 * C + 10);
            for b in &mut v[C - 40_000..C + 40_000] {
                *b = 0;
            }
            v
        }),
        ("single zero byte", vec![0u8]),
        ("newlines only", vec![b'\n'; C + 1]),
    ]
}
