//! Structured edit operators on encrypted bodies / files, and the acceptance model of C03.

use crate::refspec;
use crate::util::Rng;

/// (start, end) of each chunk record for a body that starts at `off`.
pub fn record_ranges(chunking: &[usize], off: usize) -> Vec<(usize, usize)> {
    let mut v = Vec::new();
    let mut p = off;
    for &sz in chunking {
        v.push((p, p + 32 + sz));
        p += 32 + sz;
    }
    v
}

/// An authentic byte string together with what decrypting it must give.
#[derive(Clone)]
pub struct Authentic {
    pub bytes: Vec<u8>,
    pub plaintext: Vec<u8>,
    pub sender: Option<[u8; 32]>,
    /// where the body starts (0 for bare bodies, 132 / 36 for files)
    pub body_off: usize,
    pub chunking: Vec<usize>,
}

impl Authentic {
    pub fn records(&self) -> Vec<(usize, usize)> {
        record_ranges(&self.chunking, self.body_off)
    }
    /// true iff `f` equals this file everywhere except inside the 8-byte counter fields
    pub fn matches_modulo_counters(&self, f: &[u8]) -> bool {
        if f.len() != self.bytes.len() {
            return false;
        }
        let recs = self.records();
        let mut i = 0;
        let mut r = 0;
        while i < f.len() {
            while r < recs.len() && recs[r].0 + 8 <= i {
                r += 1;
            }
            if r < recs.len() && i >= recs[r].0 && i < recs[r].0 + 8 {
                i = recs[r].0 + 8;
                continue;
            }
            if f[i] != self.bytes[i] {
                return false;
            }
            i += 1;
        }
        true
    }
}

/// The authentic file (if any) that `f` equals modulo counter fields.
pub fn acceptable<'a>(f: &[u8], auth: &'a [Authentic]) -> Option<&'a Authentic> {
    auth.iter().find(|a| a.matches_modulo_counters(f))
}

pub struct SmallScenario {
    pub key: [u8; 32],
    pub aad: Vec<u8>,
    pub c: usize,
    pub auth: Authentic,
    /// same plaintext and chunking sealed under another key (splice material an attacker can have)
    pub other_key_body: Vec<u8>,
}

impl SmallScenario {
    pub fn new(key: [u8; 32], aad: &[u8], c: usize, pt: &[u8], chunking: &[usize], rng: &mut Rng) -> SmallScenario {
        let body = refspec::encode_body(pt, chunking, &key, aad);
        let k2 = rng.arr32();
        let other = refspec::encode_body(pt, chunking, &k2, aad);
        SmallScenario {
            key,
            aad: aad.to_vec(),
            c,
            auth: Authentic { bytes: body, plaintext: pt.to_vec(), sender: None, body_off: 0, chunking: chunking.to_vec() },
            other_key_body: other,
        }
    }
}

fn permutations(n: usize) -> Vec<Vec<usize>> {
    fn rec(cur: &mut Vec<usize>, used: &mut Vec<bool>, n: usize, out: &mut Vec<Vec<usize>>) {
        if cur.len() == n {
            out.push(cur.clone());
            return;
        }
        for i in 0..n {
            if !used[i] {
                used[i] = true;
                cur.push(i);
                rec(cur, used, n, out);
                cur.pop();
                used[i] = false;
            }
        }
    }
    let mut out = Vec::new();
    rec(&mut Vec::new(), &mut vec![false; n], n, &mut out);
    out
}

/// Every small-scope edit of the scenario's body. Operator names are stable (used in evidence).
pub fn small_edits(sc: &SmallScenario, rng: &mut Rng, f: &mut dyn FnMut(&str, Vec<u8>)) {
    let b = &sc.auth.bytes;
    let recs = sc.auth.records();
    let n = recs.len();
    let rec_bytes = |i: usize| b[recs[i].0..recs[i].1].to_vec();

    f("identity", b.clone());
    // 1. every single-bit flip
    for i in 0..b.len() {
        for bit in 0..8 {
            let mut x = b.clone();
            x[i] ^= 1 << bit;
            let in_counter = recs.iter().any(|r| i >= r.0 && i < r.0 + 8);
            f(if in_counter { "bitflip-counter-field" } else { "bitflip" }, x);
        }
    }
    // 2. every truncation
    for l in 0..b.len() {
        f("truncate", b[..l].to_vec());
    }
    // 3. extensions
    for v in 0..=255u8 {
        let mut x = b.clone();
        x.push(v);
        f("extend-1-byte", x);
    }
    for i in 0..n {
        let mut x = b.clone();
        x.extend_from_slice(&rec_bytes(i));
        f("extend-copy-of-chunk", x);
    }
    for last in [0u32, 1u32] {
        // a chunk an attacker could only make with the key; sealed under ANOTHER key here
        let k2 = rng.arr32();
        let mut x = b.clone();
        x.extend_from_slice(&refspec::seal_record(&k2, &sc.aad, n as u64, last, b"z"));
        f("extend-foreign-chunk", x);
    }
    {
        let mut x = b.clone();
        x.extend_from_slice(b);
        f("extend-whole-body-again", x);
    }
    // 4. permutations, subset deletions, duplications of records
    if n <= 5 {
        for p in permutations(n) {
            if p.iter().enumerate().all(|(i, &j)| i == j) {
                continue;
            }
            let mut x = Vec::new();
            for &j in &p {
                x.extend_from_slice(&rec_bytes(j));
            }
            f("permute-chunks", x);
        }
    }
    for mask in 0..(1u32 << n) {
        if mask == (1u32 << n) - 1 {
            continue;
        }
        let mut x = Vec::new();
        for i in 0..n {
            if mask & (1 << i) != 0 {
                x.extend_from_slice(&rec_bytes(i));
            }
        }
        f("delete-chunks", x);
    }
    for i in 0..n {
        for at in 0..=n {
            let mut x = Vec::new();
            for j in 0..n {
                if j == at {
                    x.extend_from_slice(&rec_bytes(i));
                }
                x.extend_from_slice(&rec_bytes(j));
            }
            if at == n {
                x.extend_from_slice(&rec_bytes(i));
            }
            f("duplicate-chunk", x);
        }
    }
    // 5. last flag rewritten, alone and with the tail dropped (the truncation attack)
    for i in 0..n {
        let cur = u32::from_be_bytes(b[recs[i].0 + 8..recs[i].0 + 12].try_into().unwrap());
        for newflag in [0u32, 1, 2, 0x0100_0000, u32::MAX] {
            if newflag == cur {
                continue;
            }
            let mut x = b.clone();
            x[recs[i].0 + 8..recs[i].0 + 12].copy_from_slice(&newflag.to_be_bytes());
            f("rewrite-last-flag", x.clone());
            x.truncate(recs[i].1);
            f("rewrite-last-flag+drop-tail", x);
        }
        if i + 1 < n {
            // drop the tail without touching the flag: ends on a non-final chunk
            f("drop-tail", b[..recs[i].1].to_vec());
        }
    }
    // 6. length field rewritten, with and without resizing the record
    let mut lens: Vec<u32> = (0..=(sc.c as u32 + 2)).collect();
    lens.extend_from_slice(&[65535, 65536, 65537, 1 << 31, u32::MAX]);
    for i in 0..n {
        let cur = (recs[i].1 - recs[i].0 - 32) as u32;
        for &l in &lens {
            if l == cur {
                continue;
            }
            let mut x = b.clone();
            x[recs[i].0 + 12..recs[i].0 + 16].copy_from_slice(&l.to_be_bytes());
            f("rewrite-length", x.clone());
            if (l as usize) <= sc.c + 2 {
                // resize the record so framing stays consistent
                let mut y = b[..recs[i].0 + 16].to_vec();
                y[recs[i].0 + 12..recs[i].0 + 16].copy_from_slice(&l.to_be_bytes());
                let ct = &b[recs[i].0 + 16..recs[i].1];
                let mut body = ct.to_vec();
                body.resize(l as usize + 16, 0xAA);
                y.extend_from_slice(&body);
                y.extend_from_slice(&b[recs[i].1..]);
                f("rewrite-length+resize", y);
            }
        }
    }
    // 7. counter fields rewritten (advisory: may be accepted, must then give the full plaintext)
    for i in 0..n {
        for v in [0u64, 1, (i as u64) + 1, n as u64, u64::MAX, rng.next()] {
            let mut x = b.clone();
            x[recs[i].0..recs[i].0 + 8].copy_from_slice(&v.to_be_bytes());
            f("rewrite-counter-field", x);
        }
    }
    // 8. records of the same plaintext sealed under another key, spliced in position
    let o = &sc.other_key_body;
    for i in 0..n {
        let mut x = b.clone();
        x[recs[i].0..recs[i].1].copy_from_slice(&o[recs[i].0..recs[i].1]);
        f("splice-chunk-from-other-key", x);
        // only the tag, only the ciphertext
        let mut y = b.clone();
        y[recs[i].1 - 16..recs[i].1].copy_from_slice(&o[recs[i].1 - 16..recs[i].1]);
        f("splice-tag-from-other-key", y);
    }
    f("whole-body-from-other-key", o.clone());
    // 10. structural edits COMBINED with counter-field rewrites. The counter field is the one part of a record an
    // attacker may set freely; a decryptor that lets it steer anything makes these acceptable. For each
    // rearrangement the counters are rewritten (a) so that each record announces its successor's original
    // index minus one, (b) to the new position, (c) to the original index of the record that was there.
    if n >= 2 && n <= 5 {
        let mut arrangements: Vec<Vec<usize>> = Vec::new();
        for mask in 1..(1u32 << n) {
            let keep: Vec<usize> = (0..n).filter(|i| mask & (1 << i) != 0).collect();
            if keep.len() < n {
                arrangements.push(keep);
            }
        }
        if n <= 4 {
            for p in permutations(n) {
                if !p.iter().enumerate().all(|(i, &j)| i == j) {
                    arrangements.push(p);
                }
            }
        }
        for i in 0..n {
            let mut d: Vec<usize> = (0..n).collect();
            d.insert(i, i);
            arrangements.push(d);
        }
        for arr in arrangements {
            for style in 0..3 {
                let mut x = Vec::new();
                for (pos, &j) in arr.iter().enumerate() {
                    let mut r = rec_bytes(j);
                    let c: u64 = match style {
                        0 => match arr.get(pos + 1) {
                            Some(&next) => (next as u64).wrapping_sub(1),
                            None => j as u64,
                        },
                        1 => pos as u64,
                        _ => arr.get(pos.wrapping_sub(1)).map(|&p| p as u64 + 1).unwrap_or(0),
                    };
                    r[..8].copy_from_slice(&c.to_be_bytes());
                    x.extend_from_slice(&r);
                }
                f("rearrange+rewrite-counters", x);
            }
        }
    }
    // 9. empty and junk
    f("empty", vec![]);
    f("random-bytes", rng.bytes(b.len()));
}

/// Seeded random compound edit (depth 1..=4) on a whole file: used at production size.
pub fn random_compound(f: &[u8], others: &[&[u8]], rng: &mut Rng, region_hint: &[(usize, usize)]) -> (String, Vec<u8>) {
    let mut x = f.to_vec();
    let depth = rng.range(1, 4);
    let mut name = String::new();
    for _ in 0..depth {
        if x.is_empty() {
            break;
        }
        match rng.below(8) {
            0 => {
                // bit flip, biased to the hinted regions (headers, tags)
                let i = if !region_hint.is_empty() && rng.chance(2, 3) {
                    let r = rng.pick(region_hint);
                    rng.range(r.0, r.1.max(r.0 + 1) - 1).min(x.len() - 1)
                } else {
                    rng.below(x.len() as u64) as usize
                };
                x[i] ^= 1 << rng.below(8);
                name.push_str("flip,");
            }
            1 => {
                let l = rng.below(x.len() as u64) as usize;
                x.truncate(l);
                name.push_str("truncate,");
            }
            2 => {
                let extra = rng.range(1, 40);
                x.extend_from_slice(&rng.bytes(extra));
                name.push_str("append,");
            }
            3 => {
                // move a range
                let a = rng.below(x.len() as u64) as usize;
                let l = rng.range(1, 64).min(x.len() - a);
                let seg: Vec<u8> = x.drain(a..a + l).collect();
                let to = rng.below(x.len() as u64 + 1) as usize;
                x.splice(to..to, seg);
                name.push_str("move,");
            }
            4 => {
                // copy a range over another place
                let a = rng.below(x.len() as u64) as usize;
                let l = rng.range(1, 64).min(x.len() - a);
                let seg = x[a..a + l].to_vec();
                let to = rng.below((x.len() - l + 1) as u64) as usize;
                x[to..to + l].copy_from_slice(&seg);
                name.push_str("copy,");
            }
            5 => {
                let a = rng.below(x.len() as u64) as usize;
                let l = rng.range(1, 64).min(x.len() - a);
                x.drain(a..a + l);
                name.push_str("delete,");
            }
            6 if !others.is_empty() => {
                // splice the same range from another authentic file
                let o = rng.pick(others);
                let a = rng.below(x.len().min(o.len()) as u64) as usize;
                let l = rng.range(1, 200).min(x.len().min(o.len()) - a);
                x[a..a + l].copy_from_slice(&o[a..a + l]);
                name.push_str("splice,");
            }
            _ => {
                let i = rng.below(x.len() as u64) as usize;
                x[i] = rng.next() as u8;
                name.push_str("setbyte,");
            }
        }
    }
    (name, x)
}
