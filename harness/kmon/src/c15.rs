//! C15 - locked private keys: lossless, tamper-evident, in the documented format.
//! Differential of the CLI's real Keyring::lock_private_key / unlock_private_key /
//! EncodedSk::try_from (compiled from the working tree) against the specification.

use crate::c02::{hmac_equivalent, password_pool, wrong_passwords};
use crate::cli::{Cmd, Exit, WorkDir};
use crate::ctx::Ctx;
use crate::keyring::{EncodedSk, Keyring};
use crate::kio::{guarded, panic_site, sk};
use crate::refspec;
use crate::util::{b64, hex, par_for, unb64, Rng};
use serde_json::json;

/// Result of the real unlock on a string: Ok(key), Err(kind) or panic.
fn real_unlock(s: &str, pw: &[u8]) -> Result<Result<[u8; 32], String>, String> {
    guarded(|| match EncodedSk::try_from(s) {
        Err(e) => Err(format!("string rejected: {}", e)),
        Ok(esk) => match Keyring::unlock_private_key(&esk, pw) {
            Ok(k) => Ok(k.as_bytes().try_into().expect("32 bytes")),
            Err(e) => Err(format!("unlock error: {:?}", e)),
        },
    })
}

fn differential(ctx: &Ctx) {
    let n = ctx.tier.pick(90, 3000);
    par_for(n, crate::util::ncpu(), |i| {
        let mut rng = Rng::fork(ctx.seed, &format!("C15-diff-{}", i));
        let pool = password_pool(&mut rng);
        let (pname, pw) = &pool[i % pool.len()];
        let key = match i % 9 {
            0 => [0u8; 32],
            1 => [0xff; 32],
            _ => rng.arr32(),
        };
        let salt = match i % 7 {
            0 => [0u8; 32],
            1 => [0xff; 32],
            _ => rng.arr32(),
        };
        ctx.eval();
        let case = || json!({"private_key": hex(&key), "password": hex(pw), "password_class": pname, "salt": hex(&salt)});
        let want = refspec::lock_sk(&key, pw, &salt);
        let got = guarded(|| Keyring::lock_private_key(&sk(&key), pw, salt).as_str().to_string());
        match &got {
            Ok(g) if *g == want => {}
            Ok(g) => {
                let mut v = case();
                v["got"] = json!(g);
                v["want"] = json!(want);
                let gb = unb64(g).unwrap_or_default();
                let wb = unb64(&want).unwrap_or_default();
                let region = if gb.len() != 84 { "length" } else if gb[..4] != wb[..4] { "version" } else if gb[4..36] != wb[4..36] { "salt" } else { "ciphertext-or-tag" };
                ctx.violation(&format!("C15:lock-output-differs-from-documented-format:{}", region), v);
                return;
            }
            Err(p) => {
                ctx.violation(&format!("C15:lock:panic:{}", panic_site(p)), case());
                return;
            }
        }
        // real unlock of the spec-made string, spec unlock of the real string
        match real_unlock(&want, pw) {
            Ok(Ok(k)) if k == key => {}
            Ok(other) => {
                let mut v = case();
                v["result"] = json!(format!("{:?}", other.map(|k| hex(&k))));
                ctx.violation("C15:conforming-locked-key-does-not-unlock-to-the-original", v);
                return;
            }
            Err(p) => {
                ctx.violation(&format!("C15:unlock:panic:{}", panic_site(&p)), case());
                return;
            }
        }
        ctx.seen(&format!("lock == spec and unlock(lock(k)) == k: {}", pname));
        ctx.distinct(&format!("diff|{}|{}|{}", pname, i % 9, i % 7));
        if i == 5 {
            ctx.sample("lock/unlock differential", 1, || {
                let mut v = case();
                v["locked"] = json!(want);
                v
            });
        }
    });
}

fn bit_flips(ctx: &Ctx) {
    let blobs = ctx.tier.pick(1, 6);
    for b in 0..blobs {
        let mut rng = Rng::fork(ctx.seed, &format!("C15-flip-{}", b));
        let key = rng.arr32();
        let pw = if b % 2 == 0 { b"flip-pass".to_vec() } else { vec![] };
        let locked = refspec::lock_sk(&key, &pw, &rng.arr32());
        let blob = unb64(&locked).unwrap();
        par_for(84 * 8, crate::util::ncpu(), |bit| {
            let mut x = blob.clone();
            x[bit / 8] ^= 1 << (bit % 8);
            let s = b64(&x);
            ctx.eval();
            let region = if bit / 8 < 4 { "version" } else if bit / 8 < 36 { "salt" } else if bit / 8 < 68 { "ciphertext" } else { "tag" };
            let case = || json!({"original": locked, "altered": s, "bit": bit, "region": region, "password": hex(&pw)});
            match real_unlock(&s, &pw) {
                Ok(Err(e)) => {
                    ctx.seen(&format!("single-bit change in {} rejected ({})", region, e.split(':').next().unwrap_or("")));
                    ctx.distinct(&format!("flip|{}|{}", b, bit));
                }
                Ok(Ok(_)) => ctx.violation(&format!("C15:altered-locked-key-unlocks:{}", region), case()),
                Err(p) => ctx.violation(&format!("C15:unlock:panic:{}", panic_site(&p)), case()),
            }
        });
    }
    ctx.note("bit_flips", json!({"blobs": blobs, "flips_per_blob": 672, "exhaustive": true}));
}

fn wrong_pw(ctx: &Ctx) {
    let mut rng = Rng::fork(ctx.seed, "C15-wrong");
    let pool = password_pool(&mut rng);
    let per = ctx.tier.pick(10, 80);
    let mut cases: Vec<(usize, String, Vec<u8>, bool, String, [u8; 32])> = Vec::new();
    for (pi, (_, pw)) in pool.iter().enumerate() {
        let key = rng.arr32();
        let locked = refspec::lock_sk(&key, pw, &rng.arr32());
        for (v, w) in wrong_passwords(pw, &mut rng, per) {
            cases.push((pi, v, w, false, locked.clone(), key));
        }
        for (v, w) in hmac_equivalent(pw) {
            cases.push((pi, v, w, true, locked.clone(), key));
        }
    }
    par_for(cases.len(), crate::util::ncpu(), |i| {
        let (pi, variant, wrong, equiv, locked, key) = &cases[i];
        let (pname, pw) = &pool[*pi];
        ctx.eval();
        let case = || json!({"locked": locked, "password": hex(pw), "password_class": pname, "wrong_password": hex(wrong), "variant": variant});
        match real_unlock(locked, wrong) {
            Err(p) => ctx.violation(&format!("C15:unlock:panic:{}", panic_site(&p)), case()),
            Ok(Ok(k)) => {
                if *equiv {
                    ctx.seen("hmac-equivalent password unlocks");
                    ctx.violation("C15:wrong-password-unlocks:hmac-equivalent", case());
                } else {
                    let _ = (k, key);
                    ctx.violation("C15:wrong-password-unlocks", case());
                }
            }
            Ok(Err(_)) => {
                if *equiv {
                    ctx.seen("hmac-equivalent password rejected");
                } else {
                    ctx.seen("wrong password rejected");
                    ctx.distinct(&format!("wrong|{}|{}", pname, variant));
                }
            }
        }
    });
}

fn malformed_strings(ctx: &Ctx) {
    let mut rng = Rng::fork(ctx.seed, "C15-malformed");
    let key = rng.arr32();
    let pw = b"pw".to_vec();
    let good = refspec::lock_sk(&key, &pw, &rng.arr32());
    let blob = unb64(&good).unwrap();
    let mut cases: Vec<(String, String)> = Vec::new();
    // every prefix length of the valid string, and valid base64 of every blob length 0..=130
    for l in 0..good.len() {
        cases.push((format!("prefix of length {}", l), good[..l].to_string()));
    }
    for l in 0..=130usize {
        if l == 84 {
            continue;
        }
        let mut b = blob.clone();
        b.resize(l, 0x41);
        cases.push((format!("base64 of {} bytes", l), b64(&b)));
    }
    // alphabets, padding, whitespace, trailing garbage
    let urlsafe = good.replace('+', "-").replace('/', "_");
    if urlsafe != good {
        cases.push(("url-safe alphabet".into(), urlsafe));
    }
    let mut with_dash = good.clone().into_bytes();
    with_dash[20] = b'-';
    cases.push(("one url-safe character".into(), String::from_utf8(with_dash).unwrap()));
    cases.push(("padding appended".into(), format!("{}====", good)));
    cases.push(("one pad appended".into(), format!("{}=", good)));
    cases.push(("inner space".into(), format!("{} {}", &good[..40], &good[40..])));
    cases.push(("inner newline".into(), format!("{}\n{}", &good[..40], &good[40..])));
    cases.push(("leading space".into(), format!(" {}", good)));
    cases.push(("trailing newline".into(), format!("{}\n", good)));
    cases.push(("trailing A".into(), format!("{}A", good)));
    cases.push(("trailing AAAA".into(), format!("{}AAAA", good)));
    cases.push(("non-ascii".into(), format!("{}\u{e9}{}", &good[..10], &good[11..])));
    cases.push(("empty".into(), String::new()));
    cases.push(("hex instead of base64".into(), hex(&blob)));
    for _ in 0..ctx.tier.pick(50, 1000) {
        let l = rng.range(0, 160);
        let s: String = (0..l).map(|_| (rng.range(0x21, 0x7e) as u8) as char).collect();
        cases.push(("random printable".into(), s));
    }
    for (what, s) in cases {
        ctx.eval();
        // the model: a string is a locked key only if it is the canonical base64 of exactly 84 bytes
        let model_blob = unb64(&s).filter(|b| b.len() == 84);
        let case = || json!({"class": what, "string": s, "password": hex(&pw)});
        match (real_unlock(&s, &pw), model_blob) {
            (Err(p), _) => ctx.violation(&format!("C15:unlock:panic:{}", panic_site(&p)), case()),
            (Ok(Ok(_)), None) => ctx.violation(&format!("C15:malformed-string-unlocks:{}", what.split(' ').next().unwrap_or("")), case()),
            (Ok(Ok(k)), Some(b)) => {
                if refspec::unlock_blob(&b, &pw) != Ok(k) {
                    ctx.violation("C15:malformed-string-unlocks:wrong-key", case());
                }
            }
            (Ok(Err(_)), _) => {
                ctx.seen("malformed string -> error");
                ctx.distinct(&format!("malformed|{}", what));
            }
        }
    }
    // right length, wrong version bytes
    for v in [[0x65u8, 0x67, 0x6b, 0x10], [0x65, 0x67, 0x6b, 0x20], [0, 0, 0, 0], [0x65, 0x67, 0x6b, 0x31]] {
        let mut b = blob.clone();
        b[..4].copy_from_slice(&v);
        ctx.eval();
        match real_unlock(&b64(&b), &pw) {
            Ok(Err(_)) => ctx.seen("other version bytes -> error"),
            Ok(Ok(_)) => ctx.violation("C15:altered-locked-key-unlocks:version", json!({"version": hex(&v)})),
            Err(p) => ctx.violation(&format!("C15:unlock:panic:{}", panic_site(&p)), json!({"version": hex(&v)})),
        }
    }
}


/// Strings of OTHER lengths whose missing or extra bytes are zeros: a conforming blob that ends in one or two zero
/// bytes, cut by exactly those bytes (83 / 82 bytes), and any conforming blob extended by zero bytes (85 .. 88 bytes).
/// A decoder that copies into a zero-filled fixed buffer, or ignores trailing bytes, would take them for the key.
fn zero_padded_lengths(ctx: &Ctx) {
    let mut rng = Rng::fork(ctx.seed, "C15-zero-tail");
    let pw = b"zero tail".to_vec();
    // one or two zero bytes only: a blob ending in three needs ~2^24 trial encryptions per case and the search
    // (bounded) then fails to find one in roughly one case out of ten, which made a thorough run inconclusive
    for zeros in [1usize, 2] {
        for round in 0..ctx.tier.pick(2, 10) {
            let salt = rng.arr32();
            let mut r2 = Rng::fork(ctx.seed, &format!("C15-zero-tail-{}-{}", zeros, round));
            let (good, sk) = match refspec::lock_sk_with_zero_tail(&pw, &salt, zeros, || r2.arr32()) {
                Some(x) => x,
                None => {
                    ctx.inconclusive("C15: no blob with a zero tail found");
                    continue;
                }
            };
            let blob = unb64(&good).unwrap();
            // control: the full string is a conforming key
            ctx.eval();
            if real_unlock(&good, &pw) != Ok(Ok(sk)) {
                ctx.violation("C15:conforming-key-with-a-zero-tail-does-not-unlock", json!({"locked": good, "password": hex(&pw)}));
                continue;
            }
            let mut variants: Vec<(String, Vec<u8>)> = Vec::new();
            for cut in 1..=zeros {
                variants.push((format!("{} trailing zero byte(s) cut off ({} bytes)", cut, 84 - cut), blob[..84 - cut].to_vec()));
            }
            for ext in 1..=4usize {
                let mut b = blob.clone();
                b.resize(84 + ext, 0);
                variants.push((format!("{} zero byte(s) appended ({} bytes)", ext, 84 + ext), b));
            }
            for (what, b) in variants {
                ctx.eval();
                let s = b64(&b);
                let case = || json!({"class": what, "string": s, "conforming_string": good, "password": hex(&pw)});
                match real_unlock(&s, &pw) {
                    Err(p) => ctx.violation(&format!("C15:unlock:panic:{}", panic_site(&p)), case()),
                    Ok(Ok(_)) => ctx.violation("C15:malformed-string-unlocks:blob-of-another-length-that-differs-only-by-zero-bytes", case()),
                    Ok(Err(_)) => {
                        ctx.seen("blob of another length differing only by zero bytes -> error");
                        ctx.distinct(&format!("zerotail|{}|{}|{}", zeros, round, what));
                    }
                }
            }
        }
    }
}


/// Lock and unlock are functions of their arguments: SEQUENCES of calls in one thread - a failed unlock (wrong password,
/// tampered blob) directly followed by the right unlock of the same blob, by a lock under the same salt, by the same
/// calls for the empty password - must each give the documented result, whatever was computed just before.
fn call_sequences(ctx: &Ctx) {
    let pws: Vec<Vec<u8>> = vec![b"".to_vec(), b"a".to_vec(), b"seq-pw".to_vec(), "p\u{e4}ss".as_bytes().to_vec(), vec![b'x'; 64]];
    let rounds = ctx.tier.pick(3, 20);
    // each (round, password) sequence runs in ONE thread from start to end (the state under test is per thread);
    // different sequences run on different threads
    crate::util::par_for(rounds * pws.len(), crate::util::ncpu(), |job| {
        let (round, pw) = (job / pws.len(), &pws[job % pws.len()]);
        let mut rng = Rng::fork(ctx.seed, &format!("C15-seq-{}", job));
        {
            let sk = rng.arr32();
            let salt = rng.arr32();
            let want = refspec::lock_sk(&sk, pw, &salt);
            let mut tampered = unb64(&want).unwrap();
            tampered[50] ^= 1;
            let tampered = b64(&tampered);
            let other: Vec<u8> = if pw.is_empty() { b"not-empty".to_vec() } else { Vec::new() };
            // (what, call, expectation)
            let steps: Vec<(&str, Box<dyn Fn() -> Result<Result<String, String>, String>>, Option<String>)> = vec![
                ("unlock with another password", Box::new({ let (w, o) = (want.clone(), other.clone()); move || real_unlock(&w, &o).map(|r| r.map(|k| hex(&k))) }), None),
                ("unlock with the right password", Box::new({ let (w, p) = (want.clone(), pw.clone()); move || real_unlock(&w, &p).map(|r| r.map(|k| hex(&k))) }), Some(hex(&sk))),
                ("unlock a tampered blob", Box::new({ let (t, p) = (tampered.clone(), pw.clone()); move || real_unlock(&t, &p).map(|r| r.map(|k| hex(&k))) }), None),
                ("lock under the same salt", Box::new({ let (p, s2, k) = (pw.clone(), salt, sk); move || real_lock(&k, &p, &s2).map(Ok) }), Some(want.clone())),
                ("unlock with the right password again", Box::new({ let (w, p) = (want.clone(), pw.clone()); move || real_unlock(&w, &p).map(|r| r.map(|k| hex(&k))) }), Some(hex(&sk))),
                ("unlock with the empty password", Box::new({ let w = want.clone(); move || real_unlock(&w, b"").map(|r| r.map(|k| hex(&k))) }), if pw.is_empty() { Some(hex(&sk)) } else { None }),
                ("lock under the empty password and the same salt", Box::new({ let (s2, k) = (salt, sk); move || real_lock(&k, b"", &s2).map(Ok) }), Some(refspec::lock_sk(&sk, b"", &salt))),
                ("unlock with the right password once more", Box::new({ let (w, p) = (want.clone(), pw.clone()); move || real_unlock(&w, &p).map(|r| r.map(|k| hex(&k))) }), Some(hex(&sk))),
            ];
            let mut prev = "(first call)".to_string();
            for (what, call, expect) in steps {
                ctx.eval();
                let got = call();
                let ok = match (&got, &expect) {
                    (Ok(Ok(v)), Some(e)) => v == e,
                    (Ok(Err(_)), None) => true,
                    _ => false,
                };
                if !ok {
                    ctx.violation("C15:result-depends-on-the-previous-call", json!({"this_call": what, "previous_call": prev, "password": hex(pw), "salt": hex(&salt), "got": format!("{:?}", got).chars().take(200).collect::<String>(), "expected": expect.clone().unwrap_or_else(|| "an error".into())}));
                    break;
                }
                ctx.seen("call sequence: lock / unlock results independent of the previous call");
                ctx.distinct(&format!("seq|{}|{}|{}", round, hex(pw), what));
                prev = what.to_string();
            }
        }
    });
}

fn real_lock(sk: &[u8; 32], pw: &[u8], salt: &[u8; 32]) -> Result<String, String> {
    crate::kio::guarded(|| Keyring::lock_private_key(&crate::kio::sk(sk), pw, *salt).as_str().to_string())
}

pub fn run(ctx: &Ctx) {
    ctx.rule(
        "the CLI's real lock/unlock code (compiled from /repo/src/cli/src/keyring.rs) against the documented format built on OpenSSL: lock output string-equal to the \
         specification for random/edge keys, salts and the password pool; spec-made strings unlock to the original; all 672 single-bit flips of a blob; wrong passwords \
         (bit edits, prefix/suffix/case/random) and the HMAC-equivalent family; strings of every other length, other alphabets, padding, whitespace; other version bytes; \
         extract-pub through the real binary. distinct_nontrivial counts distinct (class, instance) cases",
    );
    ctx.assume("HMAC-equivalent passwords derive the same scrypt key by construction (known finding, as C02)");
    differential(ctx);
    bit_flips(ctx);
    wrong_pw(ctx);
    malformed_strings(ctx);
    zero_padded_lengths(ctx);
    call_sequences(ctx);
    crate::c15cli::cli_lanes(ctx);
    ctx.require("cli: near-miss password does not unlock", 20);
    ctx.require("cli: keyring key does not unlock for encrypt/decrypt under another password", 10);
    ctx.require("cli: change-pass to a whitespace-edged password is lossless", 6);
    ctx.require("lock == spec", 50);
    ctx.require("single-bit change in", 672);
    ctx.require("wrong password rejected", 50);
    ctx.require("malformed string -> error", 100);
    ctx.require("cli: ", 4);
}
