//! Run context: counts what the monitors observed, collects violations, matches them
//! against known_findings.json, writes the evidence and replay files, decides the exit code.

use serde_json::{json, Map, Value};
use std::collections::{BTreeMap, HashSet};
use std::sync::atomic::{AtomicU64, Ordering};
use std::sync::Mutex;
use std::time::Instant;

#[derive(Clone, Copy, PartialEq, Debug)]
pub enum Tier {
    Quick,
    Thorough,
}

impl Tier {
    pub fn name(&self) -> &'static str {
        match self {
            Tier::Quick => "quick",
            Tier::Thorough => "thorough",
        }
    }
    /// pick a size by tier
    pub fn pick<T>(&self, quick: T, thorough: T) -> T {
        match self {
            Tier::Quick => quick,
            Tier::Thorough => thorough,
        }
    }
}

pub fn verif_root() -> String {
    std::env::var("VERIF_ROOT").unwrap_or_else(|_| "/verif".to_string())
}

struct Known {
    signature: String,
    status: String,
    what: String,
}

struct Inner {
    distinct: HashSet<u64>,
    samples: Vec<Value>,
    sample_keys: HashSet<String>,
    violations: Vec<(String, Value)>,
    viol_counts: BTreeMap<String, u64>,
    known_hits: BTreeMap<String, u64>,
    hist: BTreeMap<String, u64>,
    notes: Map<String, Value>,
    inconclusive: Vec<String>,
    assumptions: Vec<String>,
    rule: String,
    exhaustive: Option<bool>,
    required: Vec<(String, u64)>,
}

pub struct Ctx {
    pub prop: String,
    pub tier: Tier,
    pub seed: u64,
    pub level: String,
    start: Instant,
    evals: AtomicU64,
    known: Vec<Known>,
    inner: Mutex<Inner>,
    pub replay_filter: Option<String>,
}

fn fnv(s: &str) -> u64 {
    let mut h: u64 = 0xcbf29ce484222325;
    for b in s.bytes() {
        h ^= b as u64;
        h = h.wrapping_mul(0x100000001b3);
    }
    h
}

impl Ctx {
    pub fn new(prop: &str, tier: Tier, seed: u64, level: &str) -> Ctx {
        let mut known = Vec::new();
        let path = format!("{}/known_findings.json", verif_root());
        if let Ok(text) = std::fs::read_to_string(&path) {
            match serde_json::from_str::<Value>(&text) {
                Ok(v) => {
                    if let Some(arr) = v.get("findings").and_then(|f| f.as_array()) {
                        for f in arr {
                            if f.get("property").and_then(|p| p.as_str()) == Some(prop) {
                                known.push(Known {
                                    signature: f.get("signature").and_then(|s| s.as_str()).unwrap_or("").to_string(),
                                    status: f.get("status").and_then(|s| s.as_str()).unwrap_or("").to_string(),
                                    what: f.get("what").and_then(|s| s.as_str()).unwrap_or("").to_string(),
                                });
                            }
                        }
                    }
                }
                Err(e) => eprintln!("kmon: cannot parse {}: {} (treated as empty)", path, e),
            }
        }
        Ctx {
            prop: prop.to_string(),
            tier,
            seed,
            level: level.to_string(),
            start: Instant::now(),
            evals: AtomicU64::new(0),
            known,
            inner: Mutex::new(Inner {
                distinct: HashSet::new(),
                samples: Vec::new(),
                sample_keys: HashSet::new(),
                violations: Vec::new(),
                viol_counts: BTreeMap::new(),
                known_hits: BTreeMap::new(),
                hist: BTreeMap::new(),
                notes: Map::new(),
                inconclusive: Vec::new(),
                assumptions: Vec::new(),
                rule: String::new(),
                exhaustive: None,
                required: Vec::new(),
            }),
            replay_filter: None,
        }
    }

    pub fn elapsed(&self) -> f64 {
        self.start.elapsed().as_secs_f64()
    }

    /// One execution of the code under test judged by an oracle.
    pub fn eval(&self) {
        self.evals.fetch_add(1, Ordering::Relaxed);
    }
    pub fn evals(&self, n: u64) {
        self.evals.fetch_add(n, Ordering::Relaxed);
    }
    pub fn eval_count(&self) -> u64 {
        self.evals.load(Ordering::Relaxed)
    }

    /// A distinct, non-trivial case key (rule stated via `rule`).
    pub fn distinct(&self, key: &str) {
        self.inner.lock().unwrap().distinct.insert(fnv(key));
    }
    pub fn distinct_many(&self, keys: &[String]) {
        let mut g = self.inner.lock().unwrap();
        for k in keys {
            g.distinct.insert(fnv(k));
        }
    }

    /// Histogram of observed classes (result classes, operators, states): printed in evidence.
    pub fn seen(&self, class: &str) {
        *self.inner.lock().unwrap().hist.entry(class.to_string()).or_insert(0) += 1;
    }
    pub fn seen_n(&self, class: &str, n: u64) {
        *self.inner.lock().unwrap().hist.entry(class.to_string()).or_insert(0) += n;
    }
    pub fn seen_count(&self, class: &str) -> u64 {
        self.inner.lock().unwrap().hist.get(class).copied().unwrap_or(0)
    }
    /// Sum of all histogram entries whose name starts with `prefix`.
    pub fn seen_prefix(&self, prefix: &str) -> u64 {
        self.inner.lock().unwrap().hist.iter().filter(|(k, _)| k.starts_with(prefix)).map(|(_, v)| *v).sum()
    }

    /// Keep at most `per_kind` literal samples per kind.
    pub fn sample(&self, kind: &str, per_kind: usize, v: impl FnOnce() -> Value) {
        let mut g = self.inner.lock().unwrap();
        let n = g.samples.iter().filter(|s| s.get("kind").and_then(|k| k.as_str()) == Some(kind)).count();
        if n < per_kind && g.samples.len() < 60 {
            let mut val = v();
            if let Some(o) = val.as_object_mut() {
                o.insert("kind".into(), json!(kind));
            } else {
                val = json!({"kind": kind, "case": val});
            }
            let key = val.to_string();
            if g.sample_keys.insert(key) {
                g.samples.push(val);
            }
        }
    }

    pub fn note(&self, key: &str, v: Value) {
        self.inner.lock().unwrap().notes.insert(key.to_string(), v);
    }
    pub fn rule(&self, r: &str) {
        self.inner.lock().unwrap().rule = r.to_string();
    }
    pub fn assume(&self, a: &str) {
        let mut g = self.inner.lock().unwrap();
        if !g.assumptions.iter().any(|x| x == a) {
            g.assumptions.push(a.to_string());
        }
    }
    pub fn exhaustive(&self, e: bool) {
        self.inner.lock().unwrap().exhaustive = Some(e);
    }
    /// The run is inconclusive unless histogram class `class` reaches `min` observations.
    pub fn require(&self, class: &str, min: u64) {
        self.inner.lock().unwrap().required.push((class.to_string(), min));
    }
    pub fn inconclusive(&self, why: &str) {
        let mut g = self.inner.lock().unwrap();
        if g.inconclusive.len() < 20 {
            g.inconclusive.push(why.to_string());
        }
    }

    /// A refuting observation. `signature` identifies the failing input / call site / history
    /// class exactly; `detail` carries the literal case for the replay file.
    pub fn violation(&self, signature: &str, detail: Value) {
        // Verdict discipline: a child process that was ended by the wall-clock watchdog has shown nothing about the
        // property (a loaded machine, a slow tool on a huge input); lanes that forget to single that case out must not
        // turn it into a violation. Only the lanes that judge CPU time used (signatures with "hang" / "unbounded-work")
        // may report on a watchdog expiry.
        fn mentions_timeout(v: &Value, under_exit_key: bool) -> bool {
            match v {
                Value::String(s) => under_exit_key && s == "timeout",
                Value::Object(m) => m.iter().any(|(k, x)| mentions_timeout(x, k.to_lowercase().contains("exit"))),
                Value::Array(a) => a.iter().any(|x| mentions_timeout(x, under_exit_key)),
                _ => false,
            }
        }
        if !signature.contains("hang") && !signature.contains("unbounded-work") && mentions_timeout(&detail, false) {
            self.inconclusive(&format!("{}: a child process was ended by the watchdog (not judged)", signature));
            return;
        }
        let mut g = self.inner.lock().unwrap();
        if let Some(k) = self.known.iter().find(|k| k.status == "known" && k.signature == signature) {
            let _ = k;
            *g.known_hits.entry(signature.to_string()).or_insert(0) += 1;
            return;
        }
        let c = g.viol_counts.entry(signature.to_string()).or_insert(0);
        *c += 1;
        if *c == 1 && g.violations.len() < 25 {
            g.violations.push((signature.to_string(), detail));
        }
    }

    pub fn violation_count(&self) -> u64 {
        self.inner.lock().unwrap().viol_counts.values().sum()
    }

    /// Child-process mode: print everything this context collected as tab-separated lines
    /// (absorbed by the parent's `absorb`). Nothing is written to disk.
    pub fn emit_child(&self) {
        let g = self.inner.lock().unwrap();
        println!("E\t{}", self.evals.load(Ordering::Relaxed));
        println!("D\t{}", g.distinct.len());
        for (k, v) in g.hist.iter() {
            println!("S\t{}\t{}", k.replace('\t', " "), v);
        }
        for (sig, detail) in g.violations.iter() {
            println!("V\t{}\t{}\t{}", sig.replace('\t', " "), g.viol_counts.get(sig).copied().unwrap_or(1), detail);
        }
        for (sig, n) in g.known_hits.iter() {
            println!("K\t{}\t{}", sig, n);
        }
        for s in g.samples.iter() {
            println!("X\t{}", s);
        }
        for r in g.inconclusive.iter() {
            println!("I\t{}", r.replace('\n', " "));
        }
        println!("END");
    }

    /// Merge the output of a child process. Returns false if the child did not finish.
    pub fn absorb(&self, text: &str, tag: &str) -> bool {
        let mut ended = false;
        for line in text.lines() {
            let f: Vec<&str> = line.splitn(4, '\t').collect();
            match f[0] {
                "E" => self.evals(f.get(1).and_then(|x| x.parse().ok()).unwrap_or(0)),
                "D" => {
                    let n: u64 = f.get(1).and_then(|x| x.parse().ok()).unwrap_or(0);
                    let mut g = self.inner.lock().unwrap();
                    for i in 0..n {
                        g.distinct.insert(fnv(&format!("{}|{}", tag, i)));
                    }
                }
                "S" if f.len() >= 3 => self.seen_n(&format!("{} [{}]", f[1], tag), f[2].parse().unwrap_or(0)),
                "V" if f.len() >= 4 => {
                    let detail: Value = serde_json::from_str(f[3]).unwrap_or(json!({"raw": f[3]}));
                    let mut d = detail;
                    if let Some(o) = d.as_object_mut() {
                        o.insert("profile".into(), json!(tag));
                    }
                    let n: u64 = f[2].parse().unwrap_or(1);
                    self.violation(f[1], d);
                    if n > 1 {
                        let mut g = self.inner.lock().unwrap();
                        if let Some(c) = g.viol_counts.get_mut(f[1]) {
                            *c += n - 1;
                        }
                    }
                }
                "K" if f.len() >= 3 => {
                    let mut g = self.inner.lock().unwrap();
                    *g.known_hits.entry(f[1].to_string()).or_insert(0) += f[2].parse::<u64>().unwrap_or(1);
                }
                "X" if f.len() >= 2 => {
                    let rest = &line[2..];
                    if let Ok(v) = serde_json::from_str::<Value>(rest) {
                        let kind = v.get("kind").and_then(|k| k.as_str()).unwrap_or("child").to_string();
                        self.sample(&kind, 1, || v);
                    }
                }
                "I" if f.len() >= 2 => self.inconclusive(&format!("[{}] {}", tag, f[1])),
                "END" => ended = true,
                _ => {}
            }
        }
        ended
    }

    /// Write evidence + replays, print verdict lines, return the process exit code.
    pub fn finish(&self) -> i32 {
        let root = verif_root();
        let mut g = self.inner.lock().unwrap();
        let required = g.required.clone();
        for (class, min) in required {
            let have: u64 = g.hist.iter().filter(|(k, _)| k.starts_with(&class)).map(|(_, v)| *v).sum();
            if have < min {
                g.inconclusive.push(format!("monitor saw only {} observations of class '{}' (needs >= {})", have, class, min));
            }
        }
        let evals = self.evals.load(Ordering::Relaxed);
        if evals == 0 {
            g.inconclusive.push("no evaluations were performed".into());
        }
        let nviol: u64 = g.viol_counts.values().sum();
        let _ = std::fs::create_dir_all(format!("{}/evidence", root));
        let _ = std::fs::create_dir_all(format!("{}/replays", root));

        let mut replay_paths = Vec::new();
        for (i, (sig, detail)) in g.violations.iter().enumerate() {
            let path = format!("{}/replays/{}-{}-{}.json", root, self.prop, self.tier.name(), i);
            let rep = json!({
                "property": self.prop, "tier": self.tier.name(), "seed": self.seed,
                "signature": sig, "occurrences": g.viol_counts.get(sig).copied().unwrap_or(1),
                "case": detail,
                "replay": format!("./check {} --replay {}", self.prop, path),
            });
            let _ = std::fs::write(&path, serde_json::to_string_pretty(&rep).unwrap());
            replay_paths.push((sig.clone(), path));
        }

        let mut cov = Map::new();
        cov.insert("evaluations".into(), json!(evals));
        cov.insert("ambient_environment_of_cli_runs".into(), crate::cli::ambient_stats());
        crate::cli::remove_ambient_files();
        cov.insert("distinct_nontrivial".into(), json!(g.distinct.len()));
        cov.insert("rule".into(), json!(g.rule));
        let mut samples = g.samples.clone();
        if samples.is_empty() {
            samples.push(json!({"kind": "none", "note": "no sample recorded"}));
        }
        cov.insert("samples".into(), Value::Array(samples));
        if let Some(e) = g.exhaustive {
            cov.insert("exhaustive".into(), json!(e));
        }
        let hist: Map<String, Value> = g.hist.iter().map(|(k, v)| (k.clone(), json!(v))).collect();
        cov.insert("observed".into(), Value::Object(hist));
        for (k, v) in g.notes.iter() {
            cov.insert(k.clone(), v.clone());
        }
        let known_hits: Map<String, Value> = g.known_hits.iter().map(|(k, v)| (k.clone(), json!(v))).collect();
        cov.insert("known_findings_hit".into(), Value::Object(known_hits));
        let verdict = if nviol > 0 {
            "violated"
        } else if !g.inconclusive.is_empty() {
            "inconclusive"
        } else {
            "held on what was observed"
        };
        cov.insert("verdict".into(), json!(verdict));
        if !g.inconclusive.is_empty() {
            cov.insert("inconclusive_reasons".into(), json!(g.inconclusive));
        }
        if nviol > 0 {
            let v: Vec<Value> = g.viol_counts.iter().map(|(k, c)| json!({"signature": k, "occurrences": c})).collect();
            cov.insert("violation_signatures".into(), Value::Array(v));
        }
        let ev = json!({
            "property_id": self.prop,
            "tier": self.tier.name(),
            "seed": self.seed,
            "level": self.level,
            "coverage": Value::Object(cov),
            "assumptions": g.assumptions,
            "wall_s": (self.start.elapsed().as_secs_f64() * 1000.0).round() / 1000.0,
            "violations": nviol,
        });
        // a replay re-runs a check at a recorded seed: it must not replace the evidence of the regular run
        let evpath = if self.replay_filter.is_some() { format!("{}/replays/{}-replay-evidence.json", root, self.prop) } else { format!("{}/evidence/{}.json", root, self.prop) };
        if let Err(e) = std::fs::write(&evpath, serde_json::to_string_pretty(&ev).unwrap() + "\n") {
            eprintln!("kmon: cannot write {}: {}", evpath, e);
        }

        for (sig, n) in g.known_hits.iter() {
            let what = self.known.iter().find(|k| &k.signature == sig).map(|k| k.what.clone()).unwrap_or_default();
            println!("KNOWN-FINDING: property={} {} [signature={} occurrences={}]", self.prop, what, sig, n);
        }
        for (sig, path) in &replay_paths {
            println!("VIOLATION property={} replay={}", self.prop, path);
            println!("  signature: {} (x{})", sig, g.viol_counts.get(sig).copied().unwrap_or(1));
        }
        if nviol > 0 && replay_paths.is_empty() {
            println!("VIOLATION property={} replay={}", self.prop, evpath);
        }
        println!(
            "{} {} seed={} verdict={} evaluations={} distinct_nontrivial={} violations={} wall={:.1}s",
            self.prop,
            self.tier.name(),
            self.seed,
            verdict,
            evals,
            g.distinct.len(),
            nviol,
            self.start.elapsed().as_secs_f64()
        );
        for r in &g.inconclusive {
            println!("INCONCLUSIVE: {}", r);
        }
        if nviol > 0 {
            1
        } else if !g.inconclusive.is_empty() {
            2
        } else {
            0
        }
    }
}
