//! C12 - CLI exit status is truthful and results do not depend on how I/O is wired.
//! The supervisor runs each logical request under the full wiring matrix; the oracle is the
//! reference decoder (for decrypt: of the input; for encrypt: of the output).

use crate::cli::{keyring_text, Cmd, Exit, Ident, Output, Stdin, Stdout, WorkDir};
use crate::ctx::Ctx;
use crate::refspec;
use crate::util::{hex_short, Rng};
use serde_json::json;

#[derive(Clone, Copy, Debug, PartialEq)]
enum Src {
    FileArg,
    Stdin,
    StdinDribble,
}
#[derive(Clone, Copy, Debug, PartialEq)]
enum Dst {
    DashO,
    StdoutFile,
    StdoutPipe,
}
#[derive(Clone, Copy, Debug)]
struct Wiring {
    src: Src,
    dst: Dst,
    keyring_env: bool,
    long_opts: bool,
    alias: bool,
}

fn wirings(all: bool, rng: &mut Rng) -> Vec<Wiring> {
    let mut v = Vec::new();
    for src in [Src::FileArg, Src::Stdin, Src::StdinDribble] {
        for dst in [Dst::DashO, Dst::StdoutFile, Dst::StdoutPipe] {
            for keyring_env in [false, true] {
                for long_opts in [false, true] {
                    for alias in [false, true] {
                        v.push(Wiring { src, dst, keyring_env, long_opts, alias });
                    }
                }
            }
        }
    }
    if !all {
        // a covering sample: every (src, dst) pair, with the three binary dimensions rotating
        let salt = rng.below(8) as usize;
        let mut keep = Vec::new();
        let mut k = 0usize;
        for src in [Src::FileArg, Src::Stdin, Src::StdinDribble] {
            for dst in [Dst::DashO, Dst::StdoutFile, Dst::StdoutPipe] {
                let bits = (k * 3 + salt) % 8;
                keep.push(Wiring { src, dst, keyring_env: bits & 1 != 0, long_opts: bits & 2 != 0, alias: bits & 4 != 0 });
                k += 1;
            }
        }
        return keep;
    }
    v
}

struct World {
    wd: WorkDir,
    alice: Ident,
    bob: Ident,
    carol: Ident,
}

#[derive(Clone)]
enum Kind {
    Encrypt,
    Decrypt,
    PassEncrypt,
    PassDecrypt,
}

#[derive(Clone)]
struct Request {
    name: String,
    kind: Kind,
    input: Vec<u8>,
    /// keyring text (key modes)
    keyring: String,
    password: String,
    to: String,
    from: String,
}

struct Observed {
    exit: Exit,
    output: Option<Vec<u8>>,
    stderr: String,
    cmd: String,
}

fn run_wired(w: &World, req: &Request, wi: &Wiring, tag: usize) -> Observed {
    let dir = w.wd.path.join(format!("r{}", tag));
    let _ = std::fs::create_dir_all(&dir);
    std::fs::write(dir.join("kr.txt"), &req.keyring).unwrap();
    std::fs::write(dir.join("input.bin"), &req.input).unwrap();
    let mut args: Vec<String> = Vec::new();
    match req.kind {
        Kind::Encrypt => args.push(if wi.alias { "enc" } else { "encrypt" }.into()),
        Kind::Decrypt => args.push(if wi.alias { "dec" } else { "decrypt" }.into()),
        Kind::PassEncrypt => {
            args.push(if wi.alias { "pass" } else { "password" }.into());
            args.push(if wi.alias { "enc" } else { "encrypt" }.into());
        }
        Kind::PassDecrypt => {
            args.push(if wi.alias { "pass" } else { "password" }.into());
            args.push(if wi.alias { "dec" } else { "decrypt" }.into());
        }
    }
    if wi.src == Src::FileArg {
        args.push("input.bin".into());
    }
    let keymode = matches!(req.kind, Kind::Encrypt | Kind::Decrypt);
    if keymode {
        args.push(if wi.long_opts { "--to" } else { "-t" }.into());
        args.push(req.to.clone());
        if matches!(req.kind, Kind::Encrypt) {
            args.push(if wi.long_opts { "--from" } else { "-f" }.into());
            args.push(req.from.clone());
        }
        if !wi.keyring_env {
            args.push(if wi.long_opts { "--keyring" } else { "-k" }.into());
            args.push("kr.txt".into());
        }
    }
    if wi.dst == Dst::DashO {
        args.push(if wi.long_opts { "--output" } else { "-o" }.into());
        args.push("out.bin".into());
    }
    args.push("--env-pass".into());
    let a: Vec<&str> = args.iter().map(|s| s.as_str()).collect();
    let mut cmd = Cmd::new(&dir, &a).pass(&req.password);
    if keymode && wi.keyring_env {
        cmd = cmd.env("KESTREL_KEYRING", "kr.txt");
    }
    cmd = match wi.src {
        Src::FileArg => cmd.stdin(Stdin::Null),
        Src::Stdin => cmd.stdin(Stdin::Bytes(req.input.clone())),
        Src::StdinDribble => {
            // a small first piece, then a pause longer than the key derivation the tool performs before its
            // first read (size 0 = pause), so that the first read really is short; then irregular pieces
            let mut sizes: Vec<usize> = vec![(1 + req.input.len() % 1000).min(req.input.len() / 2).max(1), 0];
            sizes.extend((0..64).map(|i| 1 + (i * 7919 + req.input.len()) % 50_000));
            cmd.stdin(Stdin::Dribble(req.input.clone(), sizes))
        }
    };
    cmd = match wi.dst {
        Dst::DashO | Dst::StdoutPipe => cmd.stdout(Stdout::Capture),
        Dst::StdoutFile => cmd.stdout(Stdout::File(dir.join("stdout.bin"))),
    };
    let o: Output = cmd.run();
    let output = match wi.dst {
        Dst::DashO => std::fs::read(dir.join("out.bin")).ok(),
        Dst::StdoutFile => std::fs::read(dir.join("stdout.bin")).ok(),
        Dst::StdoutPipe => Some(o.stdout.clone()),
    };
    let stray_stdout = wi.dst == Dst::DashO && !o.stdout.is_empty();
    let mut stderr = o.stderr_s();
    if stray_stdout {
        stderr.push_str("\n[kmon: unexpected bytes on stdout although -o was given]");
    }
    let _ = std::fs::remove_dir_all(&dir);
    Observed { exit: o.exit, output, stderr, cmd: cmd.describe() }
}

/// What the reference says about a decrypt request.
struct Expect {
    /// Some(plaintext) if the operation completes
    complete: Option<Vec<u8>>,
    /// bytes that may legitimately have been released on failure (authenticated prefix)
    prefix: Vec<u8>,
    sender: Option<[u8; 32]>,
}

fn judge(ctx: &Ctx, w: &World, req: &Request, wi: &Wiring, ob: &Observed, exp: &Expect) -> bool {
    ctx.eval();
    let case = || {
        json!({"request": req.name, "wiring": format!("{:?}", wi), "command": ob.cmd, "exit": ob.exit.describe(), "stderr": ob.stderr,
               "output_len": ob.output.as_ref().map(|o| o.len()), "expected": if exp.complete.is_some() { "completes" } else { "fails" }, "input": hex_short(&req.input, 200)})
    };
    let sig = |what: &str| format!("C12:{}:{}", match req.kind { Kind::Encrypt => "encrypt", Kind::Decrypt => "decrypt", Kind::PassEncrypt => "password-encrypt", Kind::PassDecrypt => "password-decrypt" }, what);
    if ob.exit == Exit::Timeout {
        ctx.inconclusive("C12: child timed out");
        return false;
    }
    if !matches!(ob.exit, Exit::Code(0) | Exit::Code(1)) {
        ctx.violation(&sig(&format!("abnormal-termination:{}", ob.exit.describe())), case());
        return false;
    }
    if ob.stderr.contains("[kmon: unexpected bytes on stdout") {
        ctx.violation(&sig("output-written-to-stdout-although-dash-o-given"), case());
        return false;
    }
    let out = ob.output.clone().unwrap_or_default();
    match (&exp.complete, &ob.exit) {
        (Some(want), Exit::Code(0)) => {
            match req.kind {
                Kind::Decrypt | Kind::PassDecrypt => {
                    if &out != want {
                        ctx.violation(&sig("exit-0-with-missing-or-wrong-output"), case());
                        return false;
                    }
                }
                Kind::Encrypt => {
                    let r = refspec::decode_key_file(&out, &w.bob.sk, &w.bob.pk);
                    match r {
                        Ok(d) if d.body.complete() && &d.body.plaintext() == want && d.sender == w.alice.pk => {}
                        _ => {
                            ctx.violation(&sig("exit-0-but-output-is-not-a-file-for-the-recipient-from-the-sender"), case());
                            return false;
                        }
                    }
                }
                Kind::PassEncrypt => match refspec::decode_pass_file(&out, req.password.as_bytes()) {
                    Ok(d) if d.body.complete() && &d.body.plaintext() == want => {}
                    _ => {
                        ctx.violation(&sig("exit-0-but-output-does-not-decrypt-under-the-password"), case());
                        return false;
                    }
                },
            }
            // sender naming after key-based decryption
            if matches!(req.kind, Kind::Decrypt) {
                let sender = exp.sender.unwrap();
                let names = [&w.alice, &w.bob, &w.carol];
                let entry = names.iter().find(|i| i.pk == sender && req.keyring.contains(&format!("Name = {}\n", i.name)));
                let others: Vec<&&Ident> = names.iter().filter(|i| Some(&i.name) != entry.map(|e| &e.name)).collect();
                match entry {
                    Some(e) => {
                        if !ob.stderr.contains(&e.name) || others.iter().any(|o| ob.stderr.contains(&o.name)) {
                            ctx.violation(&sig("sender-not-named-by-its-keyring-entry"), case());
                            return false;
                        }
                        ctx.seen("decrypt: sender named by its keyring entry");
                    }
                    None => {
                        if !ob.stderr.contains(&refspec::encode_pk(&sender)) || names.iter().any(|o| ob.stderr.contains(&o.name)) {
                            ctx.violation(&sig("unknown-sender-not-reported-with-its-encoding"), case());
                            return false;
                        }
                        ctx.seen("decrypt: unknown sender reported with its encoding");
                    }
                }
            }
            true
        }
        (Some(_), _) => {
            ctx.violation(&sig("exit-1-for-an-operation-the-reference-says-completes"), case());
            false
        }
        (None, Exit::Code(0)) => {
            ctx.violation(&sig("exit-0-although-the-operation-did-not-complete"), case());
            false
        }
        (None, _) => {
            if !ob.stderr.lines().any(|l| l.contains("Error:")) {
                ctx.violation(&sig("exit-1-without-error-message"), case());
                return false;
            }
            if matches!(req.kind, Kind::Decrypt | Kind::PassDecrypt) && !(out.len() <= exp.prefix.len() && out[..] == exp.prefix[..out.len()]) {
                ctx.violation(&sig("failed-run-released-bytes-beyond-the-authenticated-prefix"), case());
                return false;
            }
            true
        }
    }
}

pub fn run(ctx: &Ctx) {
    ctx.rule(
        "each logical request (encrypt, decrypt, password encrypt/decrypt over empty / small / 3-chunk inputs; valid, bit-flipped, truncated, wrong recipient, wrong password; \
         keyrings with the sender first, last, absent, recipient lacking a private key) is run under the wiring matrix {file arg | stdin | dribbled stdin} x {-o | stdout->file | stdout->pipe} x \
         {-k | KESTREL_KEYRING} x {short | long options} x {command | alias} (full matrix in thorough, covering sample in quick); oracle: reference decoding of the input (decrypt) or of the \
         output (encrypt): exit 0 iff complete with the right bytes, exit 1 with Error: otherwise, sender named by the entry holding the authenticated key or reported unknown with its encoding. \
         distinct_nontrivial counts distinct (request, wiring) executions",
    );
    ctx.assume("passwords travel through --env-pass; the interactive tty path is not driven");
    let mut rng = Rng::fork(ctx.seed, "C12");
    let w = World {
        wd: WorkDir::new("c12"),
        alice: Ident::new(&format!("alice-{}", rng.below(90000) + 10000), "alice pw \u{e9}", &mut rng),
        bob: Ident::new(&format!("bob-{}", rng.below(90000) + 10000), "bob-pw", &mut rng),
        carol: Ident::new(&format!("carol-{}", rng.below(90000) + 10000), "carol-pw", &mut rng),
    };
    let (a, b, c) = (&w.alice, &w.bob, &w.carol);
    let kr_ab = keyring_text(&[(a, true), (b, true)]);
    let kr_ba = keyring_text(&[(b, true), (a, false)]);
    let kr_cba = keyring_text(&[(c, false), (b, true), (a, false)]);
    let kr_b = keyring_text(&[(b, true), (c, true)]);
    let kr_bpub = keyring_text(&[(a, true), (b, false)]);
    let pts: Vec<(String, Vec<u8>)> = vec![("empty".into(), vec![]), ("small".into(), b"attack at dawn\n".to_vec()), ("3-chunk".into(), rng.bytes(65536 * 2 + 999))];
    let mut reqs: Vec<(Request, Expect)> = Vec::new();
    for (pname, pt) in &pts {
        // the "small" plaintext is split into short chunks (as a pipe-fed encryptor would): legal, and it must not matter
        let chunking = if pname == "small" { vec![5usize, 4, pt.len() - 9] } else { refspec::natural_chunking(pt.len(), 65536) };
        // encrypt requests
        reqs.push((
            Request { name: format!("encrypt {}", pname), kind: Kind::Encrypt, input: pt.clone(), keyring: kr_ab.clone(), password: a.password.clone(), to: b.name.clone(), from: a.name.clone() },
            Expect { complete: Some(pt.clone()), prefix: vec![], sender: None },
        ));
        reqs.push((
            Request { name: format!("password encrypt {}", pname), kind: Kind::PassEncrypt, input: pt.clone(), keyring: String::new(), password: "p\u{e4}ss".into(), to: String::new(), from: String::new() },
            Expect { complete: Some(pt.clone()), prefix: vec![], sender: None },
        ));
        // decrypt requests on reference-made files
        let f = refspec::encode_key_file(&a.sk, &a.pk, &b.pk, &rng.arr32(), &rng.arr32(), pt, &chunking).unwrap();
        for (kname, kr) in [("sender first", &kr_ab), ("sender last", &kr_ba), ("sender in the middle of three", &kr_cba), ("sender absent", &kr_b)] {
            reqs.push((
                Request { name: format!("decrypt {} ({})", pname, kname), kind: Kind::Decrypt, input: f.clone(), keyring: kr.clone(), password: b.password.clone(), to: b.name.clone(), from: String::new() },
                Expect { complete: Some(pt.clone()), prefix: vec![], sender: Some(a.pk) },
            ));
        }
        // corrupted variants: the reference decides what may have been released
        let mut variants: Vec<(String, Vec<u8>)> = Vec::new();
        let mut x = f.clone();
        x[60] ^= 1;
        variants.push(("header bit flipped".into(), x));
        let mut x = f.clone();
        let l = x.len();
        x[l - 1] ^= 0x80;
        variants.push(("last tag bit flipped".into(), x));
        variants.push(("truncated by one byte".into(), f[..f.len() - 1].to_vec()));
        variants.push(("truncated in the handshake".into(), f[..100].to_vec()));
        let mut x = f.clone();
        x.push(0);
        variants.push(("one byte appended".into(), x));
        if chunking.len() == 3 && pt.len() > 100_000 {
            let mut x = f.clone();
            x[132 + 65568 + 500] ^= 2;
            variants.push(("second chunk corrupted".into(), x));
            variants.push(("cut after the second chunk".into(), f[..132 + 2 * 65568].to_vec()));
        }
        for (vname, bytes) in variants {
            let d = refspec::decode_key_file(&bytes, &b.sk, &b.pk);
            let (complete, prefix) = match &d {
                Ok(d) if d.body.complete() => (Some(d.body.plaintext()), vec![]),
                Ok(d) => (None, d.body.plaintext()),
                Err(_) => (None, vec![]),
            };
            reqs.push((
                Request { name: format!("decrypt {} {}", pname, vname), kind: Kind::Decrypt, input: bytes, keyring: kr_ab.clone(), password: b.password.clone(), to: b.name.clone(), from: String::new() },
                Expect { complete, prefix, sender: Some(a.pk) },
            ));
        }
        // wrong recipient / recipient without private key / wrong password / unknown names
        reqs.push((
            Request { name: format!("decrypt {} with another key", pname), kind: Kind::Decrypt, input: f.clone(), keyring: keyring_text(&[(a, true), (c, true)]), password: c.password.clone(), to: c.name.clone(), from: String::new() },
            Expect { complete: None, prefix: vec![], sender: None },
        ));
        reqs.push((
            Request { name: format!("decrypt {} recipient entry lacks a private key", pname), kind: Kind::Decrypt, input: f.clone(), keyring: kr_bpub.clone(), password: b.password.clone(), to: b.name.clone(), from: String::new() },
            Expect { complete: None, prefix: vec![], sender: None },
        ));
        reqs.push((
            Request { name: format!("decrypt {} wrong keyring password", pname), kind: Kind::Decrypt, input: f.clone(), keyring: kr_ab.clone(), password: "not the password".into(), to: b.name.clone(), from: String::new() },
            Expect { complete: None, prefix: vec![], sender: None },
        ));
        reqs.push((
            Request { name: format!("encrypt {} to an unknown name", pname), kind: Kind::Encrypt, input: pt.clone(), keyring: kr_ab.clone(), password: a.password.clone(), to: "nobody".into(), from: a.name.clone() },
            Expect { complete: None, prefix: vec![], sender: None },
        ));
        reqs.push((
            Request { name: format!("encrypt {} sender lacks a private key", pname), kind: Kind::Encrypt, input: pt.clone(), keyring: kr_ba.clone(), password: a.password.clone(), to: b.name.clone(), from: a.name.clone() },
            Expect { complete: None, prefix: vec![], sender: None },
        ));
        // password mode
        let pf = refspec::encode_pass_file("p\u{e4}ss".as_bytes(), &rng.arr32(), pt, &chunking);
        reqs.push((
            Request { name: format!("password decrypt {}", pname), kind: Kind::PassDecrypt, input: pf.clone(), keyring: String::new(), password: "p\u{e4}ss".into(), to: String::new(), from: String::new() },
            Expect { complete: Some(pt.clone()), prefix: vec![], sender: None },
        ));
        reqs.push((
            Request { name: format!("password decrypt {} wrong password", pname), kind: Kind::PassDecrypt, input: pf.clone(), keyring: String::new(), password: "pass".into(), to: String::new(), from: String::new() },
            Expect { complete: None, prefix: vec![], sender: None },
        ));
        let mut x = pf.clone();
        let l = x.len();
        x[l - 2] ^= 1;
        let pre = refspec::decode_pass_file(&x, "p\u{e4}ss".as_bytes()).map(|d| d.body.plaintext()).unwrap_or_default();
        reqs.push((
            Request { name: format!("password decrypt {} last chunk corrupted", pname), kind: Kind::PassDecrypt, input: x, keyring: String::new(), password: "p\u{e4}ss".into(), to: String::new(), from: String::new() },
            Expect { complete: None, prefix: pre, sender: None },
        ));
        for (vname, extra) in [("one byte appended", vec![0u8]), ("newline appended", vec![b'\n']), ("512 zero bytes appended", vec![0u8; 512])] {
            let mut x = pf.clone();
            x.extend_from_slice(&extra);
            let pre = refspec::decode_pass_file(&x, "p\u{e4}ss".as_bytes()).map(|d| d.body.plaintext()).unwrap_or_default();
            reqs.push((
                Request { name: format!("password decrypt {} {}", pname, vname), kind: Kind::PassDecrypt, input: x, keyring: String::new(), password: "p\u{e4}ss".into(), to: String::new(), from: String::new() },
                Expect { complete: None, prefix: pre, sender: None },
            ));
        }
        // a key file offered to password decrypt and vice versa
        reqs.push((
            Request { name: format!("password decrypt of a key file {}", pname), kind: Kind::PassDecrypt, input: f.clone(), keyring: String::new(), password: "x".into(), to: String::new(), from: String::new() },
            Expect { complete: None, prefix: vec![], sender: None },
        ));
        reqs.push((
            Request { name: format!("decrypt of a password file {}", pname), kind: Kind::Decrypt, input: pf.clone(), keyring: kr_ab.clone(), password: b.password.clone(), to: b.name.clone(), from: String::new() },
            Expect { complete: None, prefix: vec![], sender: None },
        ));
    }
    let full = ctx.tier == crate::ctx::Tier::Thorough;
    let mut jobs: Vec<(usize, Wiring)> = Vec::new();
    for (ri, (req, _)) in reqs.iter().enumerate() {
        let mut ws = wirings(full, &mut rng);
        if matches!(req.kind, Kind::PassEncrypt | Kind::PassDecrypt) {
            // no keyring dimension in password mode
            ws.retain(|w| !w.keyring_env);
        }
        for wi in ws {
            jobs.push((ri, wi));
        }
    }
    ctx.note("matrix", json!({"requests": reqs.len(), "executions": jobs.len(), "full_wiring_matrix": full}));
    let results: Vec<Option<(Exit, Option<Vec<u8>>)>> = crate::util::par_map(jobs.len(), crate::util::ncpu(), |j| {
        let (ri, wi) = &jobs[j];
        let (req, exp) = &reqs[*ri];
        let ob = run_wired(&w, req, wi, j);
        if judge(ctx, &w, req, wi, &ob, exp) {
            ctx.seen(&format!("{} -> {}", req.name.split(' ').take(if req.name.starts_with("password") { 2 } else { 1 }).collect::<Vec<_>>().join(" "), ob.exit.describe()));
            ctx.distinct(&format!("{}|{:?}", req.name, wi));
            if j % 97 == 0 {
                ctx.sample("wired execution", 3, || json!({"request": req.name, "wiring": format!("{:?}", wi), "command": ob.cmd, "exit": ob.exit.describe(), "stderr": ob.stderr}));
            }
            Some((ob.exit, if matches!(req.kind, Kind::Decrypt | Kind::PassDecrypt) { ob.output } else { None }))
        } else {
            None
        }
    });
    // wiring independence, explicitly: all wirings of one request agree on exit status (and on the bytes for decryption)
    for ri in 0..reqs.len() {
        let mut seen: Option<(Exit, Option<Vec<u8>>)> = None;
        for (j, (rj, wi)) in jobs.iter().enumerate() {
            if *rj != ri {
                continue;
            }
            if let Some(r) = &results[j] {
                ctx.eval();
                match &seen {
                    None => seen = Some(r.clone()),
                    Some(s) => {
                        if s.0 != r.0 || (s.0 == Exit::Code(0) && s.1 != r.1) {
                            ctx.violation("C12:outcome-depends-on-wiring", json!({"request": reqs[ri].0.name, "wiring": format!("{:?}", wi), "this": r.0.describe(), "other": s.0.describe()}));
                        }
                    }
                }
            }
        }
    }
    // a successful run replaces whatever the output path held before: exactly the result, no stale tail
    {
        let dir = w.wd.path.join("existing");
        let _ = std::fs::create_dir_all(&dir);
        std::fs::write(dir.join("kr.txt"), &kr_ab).unwrap();
        for (pt_name, small) in [("short", b"short message".to_vec()), ("empty", Vec::new())] {
        std::fs::write(dir.join("small.txt"), &small).unwrap();
        let fsmall = refspec::encode_key_file(&a.sk, &a.pk, &b.pk, &rng.arr32(), &rng.arr32(), &small, &[small.len()]).unwrap();
        std::fs::write(dir.join("small.ktl"), &fsmall).unwrap();
        let psmall = refspec::encode_pass_file(b"pp", &rng.arr32(), &small, &[small.len()]);
        std::fs::write(dir.join("psmall.ktl"), &psmall).unwrap();
        for (prior_name, prior) in [("longer existing file", rng.bytes(200_000)), ("shorter existing file", vec![7u8; 3]), ("empty existing file", vec![])] {
            // the input reaches the tool as a FILE argument, on bare stdin, or as the path /dev/stdin
            for input_wiring in ["file", "stdin", "/dev/stdin"] {
            for (what, infile, args, pw) in [
                ("decrypt", "small.ktl", vec!["decrypt", "INPUT", "-t", b.name.as_str(), "-o", "OUT", "-k", "kr.txt", "--env-pass"], b.password.as_str()),
                ("encrypt", "small.txt", vec!["encrypt", "INPUT", "-t", b.name.as_str(), "-f", a.name.as_str(), "-o", "OUT", "-k", "kr.txt", "--env-pass"], a.password.as_str()),
                ("password decrypt", "psmall.ktl", vec!["password", "decrypt", "INPUT", "-o", "OUT", "--env-pass"], "pp"),
                ("password encrypt", "small.txt", vec!["password", "encrypt", "INPUT", "-o", "OUT", "--env-pass"], "pp"),
            ] {
                std::fs::write(dir.join("OUT"), &prior).unwrap();
                let args: Vec<&str> = args.iter().filter_map(|x| match (*x, input_wiring) { ("INPUT", "file") => Some(infile), ("INPUT", "stdin") => None, ("INPUT", _) => Some("/dev/stdin"), (y, _) => Some(y) }).collect();
                let mut c = Cmd::new(&dir, &args).pass(pw);
                if input_wiring != "file" {
                    c = c.stdin(Stdin::Bytes(std::fs::read(dir.join(infile)).unwrap_or_default()));
                }
                let what = &if input_wiring == "file" { what.to_string() } else { format!("{} (input on {})", what, input_wiring) };
                let o = c.run();
                let out = std::fs::read(dir.join("OUT")).unwrap_or_default();
                ctx.eval();
                let good = o.exit == Exit::Code(0)
                    && match what.split(" (").next().unwrap_or("") {
                        "decrypt" | "password decrypt" => out == small,
                        "encrypt" => matches!(refspec::decode_key_file(&out, &b.sk, &b.pk), Ok(d) if d.body.complete() && d.body.plaintext() == small) && out.len() == 132 + 32 + small.len(),
                        _ => matches!(refspec::decode_pass_file(&out, b"pp"), Ok(d) if d.body.complete() && d.body.plaintext() == small) && out.len() == 36 + 32 + small.len(),
                    };
                if good {
                    ctx.seen("successful run onto an existing output path: exactly the result");
                    ctx.distinct(&format!("existing|{}|{}|{}", what, prior_name, pt_name));
                } else {
                    ctx.violation(&format!("C12:{}:exit-0-but-output-path-does-not-hold-exactly-the-result:{}", what.split(" (").next().unwrap_or("").replace(' ', "-"), prior_name.replace(' ', "-")), json!({"command": what, "plaintext": pt_name, "prior_state": prior_name, "exit": o.exit.describe(), "stderr": o.stderr_s(), "output_len": out.len(), "expected_plaintext_len": small.len()}));
                }
            }
            }
        }
        }
    }
    // sources and sinks of other file types: symlinked input, FIFO as -o, /dev/stdout as -o, /dev/stdin as FILE
    {
        let dir = w.wd.path.join("ftypes");
        let _ = std::fs::create_dir_all(&dir);
        std::fs::write(dir.join("kr.txt"), &kr_ab).unwrap();
        let pt = &pts[2].1;
        let f = refspec::encode_key_file(&a.sk, &a.pk, &b.pk, &rng.arr32(), &rng.arr32(), pt, &refspec::natural_chunking(pt.len(), 65536)).unwrap();
        std::fs::write(dir.join("real.ktl"), &f).unwrap();
        let _ = std::os::unix::fs::symlink("real.ktl", dir.join("link.ktl"));
        let base = ["-t", b.name.as_str(), "-k", "kr.txt", "--env-pass"];
        // (1) symlinked input, captured stdout
        let mut args = vec!["decrypt", "link.ktl"];
        args.extend_from_slice(&base);
        let o = Cmd::new(&dir, &args).pass(&b.password).run();
        ctx.eval();
        if o.exit == Exit::Code(0) && &o.stdout == pt {
            ctx.seen("file types: symlinked input ok");
            ctx.distinct("ftype|symlink-in");
        } else {
            ctx.violation("C12:outcome-depends-on-wiring:symlinked-input", json!({"exit": o.exit.describe(), "stderr": o.stderr_s(), "output_len": o.stdout.len()}));
        }
        // (2) -o /dev/stdout
        let mut args = vec!["decrypt", "real.ktl", "-o", "/dev/stdout"];
        args.extend_from_slice(&base);
        let o = Cmd::new(&dir, &args).pass(&b.password).run();
        ctx.eval();
        if o.exit == Exit::Code(0) && &o.stdout == pt {
            ctx.seen("file types: -o /dev/stdout ok");
            ctx.distinct("ftype|dev-stdout");
        } else {
            ctx.violation("C12:outcome-depends-on-wiring:output-to-dev-stdout", json!({"exit": o.exit.describe(), "stderr": o.stderr_s(), "output_len": o.stdout.len()}));
        }
        // (3) /dev/stdin as the FILE argument
        let mut args = vec!["decrypt", "/dev/stdin"];
        args.extend_from_slice(&base);
        let o = Cmd::new(&dir, &args).pass(&b.password).stdin(Stdin::Bytes(f.clone())).run();
        ctx.eval();
        if o.exit == Exit::Code(0) && &o.stdout == pt {
            ctx.seen("file types: /dev/stdin as FILE ok");
            ctx.distinct("ftype|dev-stdin");
        } else {
            ctx.violation("C12:outcome-depends-on-wiring:input-named-dev-stdin", json!({"exit": o.exit.describe(), "stderr": o.stderr_s(), "output_len": o.stdout.len()}));
        }
        // (4) -o a FIFO that a reader drains
        let fifo = dir.join("out.fifo");
        let cpath = std::ffi::CString::new(fifo.to_string_lossy().as_bytes()).unwrap();
        if unsafe { libc::mkfifo(cpath.as_ptr(), 0o600) } == 0 {
            let fifo2 = fifo.clone();
            let reader = std::thread::spawn(move || std::fs::read(&fifo2).unwrap_or_default());
            let mut args = vec!["decrypt", "real.ktl", "-o", "out.fifo"];
            args.extend_from_slice(&base);
            let mut c = Cmd::new(&dir, &args).pass(&b.password);
            c.timeout = std::time::Duration::from_secs(60);
            let o = c.run();
            {
                // unblock the reader if the tool never opened the FIFO (it refused early, or timed out): a
                // non-blocking writer open succeeds while the reader waits in open() and fails with ENXIO once
                // the reader has finished, so it can never block the monitor itself
                use std::os::unix::fs::OpenOptionsExt;
                let _ = std::fs::OpenOptions::new().write(true).custom_flags(libc::O_NONBLOCK).open(&fifo);
            }
            let got = reader.join().unwrap_or_default();
            ctx.eval();
            if o.exit == Exit::Code(0) && &got == pt {
                ctx.seen("file types: -o FIFO ok");
                ctx.distinct("ftype|fifo-out");
            } else if o.exit == Exit::Timeout {
                ctx.inconclusive("C12: FIFO lane timed out");
            } else {
                ctx.violation("C12:outcome-depends-on-wiring:output-to-a-fifo", json!({"exit": o.exit.describe(), "stderr": o.stderr_s(), "output_len": got.len()}));
            }
        }
    }
    // keyrings with a DAMAGED UNRELATED entry (valid text, wrong checksum) at every position relative to the sender: the
    // tool may refuse such a keyring before producing anything, or ignore the entry; what it may not do is report
    // failure after the complete plaintext was delivered, or lose the sender's name although the sender is listed
    {
        let dir = w.wd.path.join("damaged");
        let _ = std::fs::create_dir_all(&dir);
        let mut blob = crate::util::unb64(&refspec::encode_pk(&refspec::pubkey_of(&rng.arr32()))).unwrap();
        blob[34] ^= 0x21;
        let dave = format!("[Key]\nName = dave\nPublicKey = {}\n", crate::util::b64(&blob));
        let pt = &pts[1].1;
        let f = refspec::encode_key_file(&a.sk, &a.pk, &b.pk, &rng.arr32(), &rng.arr32(), pt, &[pt.len()]).unwrap();
        std::fs::write(dir.join("f.ktl"), &f).unwrap();
        let layouts: Vec<(&str, String, bool)> = vec![
            ("damaged entry first", format!("{}\n{}\n{}", dave, a.entry(false), b.entry(true)), true),
            ("damaged entry between sender and recipient", format!("{}\n{}\n{}", a.entry(false), dave, b.entry(true)), true),
            ("damaged entry between recipient and sender", format!("{}\n{}\n{}", b.entry(true), dave, a.entry(false)), true),
            ("damaged entry last", format!("{}\n{}\n{}", a.entry(false), b.entry(true), dave), true),
            ("damaged entry first, sender not listed", format!("{}\n{}", dave, b.entry(true)), false),
        ];
        for (what, kr, listed) in &layouts {
            std::fs::write(dir.join("kr.txt"), kr).unwrap();
            for to_file in [false, true] {
                let _ = std::fs::remove_file(dir.join("out.bin"));
                let mut args = vec!["decrypt", "f.ktl", "-t", b.name.as_str(), "-k", "kr.txt", "--env-pass"];
                if to_file {
                    args.extend_from_slice(&["-o", "out.bin"]);
                }
                let o = Cmd::new(&dir, &args).pass(&b.password).run();
                ctx.eval();
                let delivered: Vec<u8> = if to_file { std::fs::read(dir.join("out.bin")).unwrap_or_default() } else { o.stdout.clone() };
                let err = o.stderr_s();
                let named: Option<String> = err.lines().find_map(|l| l.split("File from: ").nth(1)).map(|x| x.trim().to_string());
                let case = || json!({"keyring": what, "output": if to_file { "-o FILE" } else { "stdout" }, "exit": o.exit.describe(), "stderr": err, "delivered_len": delivered.len(), "plaintext_len": pt.len()});
                match &o.exit {
                    Exit::Timeout => ctx.inconclusive("C12: timeout"),
                    Exit::Code(1) if o.has_error_line() && delivered.is_empty() => {
                        ctx.seen("keyring with a damaged unrelated entry refused before anything was delivered");
                        ctx.distinct(&format!("damaged|{}|{}|refused", what, to_file));
                    }
                    Exit::Code(1) => ctx.violation("C12:decrypt:exit-1-although-the-complete-plaintext-was-delivered:damaged-unrelated-keyring-entry", case()),
                    Exit::Code(0) if delivered != *pt => ctx.violation("C12:decrypt:exit-0-with-missing-or-incorrect-output:damaged-unrelated-keyring-entry", case()),
                    Exit::Code(0) if *listed && named.as_deref() != Some(a.name.as_str()) => ctx.violation("C12:decrypt:sender-not-named-by-its-keyring-entry:damaged-unrelated-keyring-entry", case()),
                    Exit::Code(0) if !*listed && (named.is_some() || !err.contains(&a.encoded_pk)) => ctx.violation("C12:decrypt:unlisted-sender-not-reported-as-unknown-with-its-encoding:damaged-unrelated-keyring-entry", case()),
                    Exit::Code(0) => {
                        ctx.seen("keyring with a damaged unrelated entry: decryption truthful, sender named by its own entry");
                        ctx.distinct(&format!("damaged|{}|{}", what, to_file));
                    }
                    other => ctx.violation(&format!("C12:decrypt:damaged-unrelated-keyring-entry:{}", other.describe().replace(' ', "-")), case()),
                }
            }
        }
    }
    // LARGE keyrings (beyond 1 MiB; thorough about 5 MiB - the tool's duplicate check is quadratic, 190 000 entries take minutes): the sender's entry - and, separately, the recipient's - is
    // the very last one. The outcome is the same as with a three-entry keyring: exit 0, complete plaintext, sender named;
    // with -k and with KESTREL_KEYRING
    {
        let dir = w.wd.path.join("bigring");
        let _ = std::fs::create_dir_all(&dir);
        let pt = &pts[1].1;
        let f = refspec::encode_key_file(&a.sk, &a.pk, &b.pk, &rng.arr32(), &rng.arr32(), pt, &[pt.len()]).unwrap();
        std::fs::write(dir.join("f.ktl"), &f).unwrap();
        for (size_name, contacts) in ctx.tier.pick(vec![("about 1.2 MiB", 13_500usize)], vec![("about 1.2 MiB", 13_500usize), ("about 5 MiB", 56_000)]) {
            let mut filler = String::new();
            for i in 0..contacts {
                filler.push_str(&format!("[Key]\nName = contact-{:06}\nPublicKey = {}\n\n", i, refspec::encode_pk(&refspec::pubkey_of(&rng.arr32()))));
            }
            for (layout, kr) in [("sender last", format!("{}\n{}{}", b.entry(true), filler, a.entry(false))), ("recipient last", format!("{}\n{}{}", a.entry(false), filler, b.entry(true)))] {
                std::fs::write(dir.join("big.txt"), &kr).unwrap();
                for via_env in [false, true] {
                    let mut args = vec!["decrypt", "f.ktl", "-t", b.name.as_str(), "--env-pass"];
                    if !via_env {
                        args.extend_from_slice(&["-k", "big.txt"]);
                    }
                    let mut c = Cmd::new(&dir, &args).pass(&b.password);
                    if via_env {
                        c = c.env("KESTREL_KEYRING", "big.txt");
                    }
                    let o = c.run();
                    ctx.eval();
                    let err = o.stderr_s();
                    let named: Option<String> = err.lines().find_map(|l| l.split("File from: ").nth(1)).map(|x| x.trim().to_string());
                    if o.exit == Exit::Timeout {
                        ctx.inconclusive("C12: timeout");
                    } else if o.exit == Exit::Code(0) && o.stdout == *pt && named.as_deref() == Some(a.name.as_str()) {
                        ctx.seen("large keyring: same outcome as a small one (exit 0, plaintext, sender named)");
                        ctx.distinct(&format!("bigring|{}|{}|{}", size_name, layout, via_env));
                    } else {
                        ctx.violation("C12:outcome-depends-on-the-size-of-the-keyring", json!({"keyring_bytes": kr.len(), "layout": layout, "keyring_given_by": if via_env { "KESTREL_KEYRING" } else { "-k" }, "exit": o.exit.describe(), "stderr": err.chars().take(400).collect::<String>(), "output_len": o.stdout.len()}));
                    }
                }
            }
        }
    }
    // an explicit -k must not be overridden by a stale KESTREL_KEYRING
    {
        let dir = w.wd.path.join("both");
        let _ = std::fs::create_dir_all(&dir);
        std::fs::write(dir.join("kr.txt"), &kr_ab).unwrap();
        std::fs::write(dir.join("p.txt"), b"both ways").unwrap();
        let o1 = Cmd::new(&dir, &["encrypt", "p.txt", "-t", &b.name, "-f", &a.name, "-o", "o1.ktl", "-k", "kr.txt", "--env-pass"]).pass(&a.password).run();
        let o2 = Cmd::new(&dir, &["encrypt", "p.txt", "-t", &b.name, "-f", &a.name, "-o", "o2.ktl", "-k", "kr.txt", "--env-pass"]).pass(&a.password).env("KESTREL_KEYRING", "/nonexistent/stale-keyring.txt").run();
        ctx.eval();
        if o1.exit != o2.exit {
            ctx.violation("C12:outcome-depends-on-wiring:explicit-keyring-option-overridden-by-environment", json!({"with_k_only": o1.exit.describe(), "with_k_and_stale_env": o2.exit.describe(), "stderr": o2.stderr_s()}));
        } else {
            ctx.seen("explicit -k with a stale KESTREL_KEYRING: same outcome as -k alone");
            ctx.distinct("both-k-and-env");
        }
    }
    // files whose NAMES are words of the command language (commands, aliases, sub-commands, option-like
    // words): FILE / -o / -k positions must take them literally; every such file exists with its own content
    {
        let dir = w.wd.path.join("words");
        let _ = std::fs::create_dir_all(&dir);
        let words = ["enc", "dec", "pass", "gen", "encrypt", "decrypt", "password", "key", "generate", "change-pass", "extract-pub", "help", "version", "to", "from", "output", "keyring", "env-pass", "stdin", "stdout"];
        std::fs::write(dir.join("kr.txt"), &kr_ab).unwrap();
        // plaintext files and ciphertext files under every word (ciphertexts in a sub-directory of their own)
        let _ = std::fs::create_dir_all(dir.join("ct"));
        std::fs::write(dir.join("ct/kr.txt"), &kr_ab).unwrap();
        let content = |wd: &str| format!("content of the file named {}", wd).into_bytes();
        for wd in words {
            std::fs::write(dir.join(wd), content(wd)).unwrap();
            let f = refspec::encode_key_file(&a.sk, &a.pk, &b.pk, &rng.arr32(), &rng.arr32(), &content(wd), &[content(wd).len()]).unwrap();
            std::fs::write(dir.join("ct").join(wd), f).unwrap();
        }
        let jobs: Vec<(usize, usize)> = (0..words.len()).flat_map(|i| (0..4).map(move |k| (i, k))).collect();
        let dirp = &dir;
        crate::util::par_for(jobs.len(), crate::util::ncpu(), |j| {
            let (i, k) = jobs[j];
            let wd = words[i];
            let out = format!("out-{}-{}", i, k);
            let (cwd, args, pw, decrypting): (std::path::PathBuf, Vec<&str>, &str, bool) = match k {
                0 => (dirp.clone(), vec!["encrypt", wd, "-t", &b.name, "-f", &a.name, "-k", "kr.txt", "-o", &out, "--env-pass"], &a.password, false),
                1 => (dirp.clone(), vec!["enc", wd, "--to", &b.name, "--from", &a.name, "--keyring", "kr.txt", "--output", &out, "--env-pass"], &a.password, false),
                2 => (dirp.join("ct"), vec!["decrypt", wd, "-t", &b.name, "-k", "kr.txt", "-o", &out, "--env-pass"], &b.password, true),
                _ => (dirp.join("ct"), vec!["dec", wd, "--to", &b.name, "--keyring", "kr.txt", "--output", &out, "--env-pass"], &b.password, true),
            };
            let o = Cmd::new(&cwd, &args).pass(pw).run();
            ctx.eval();
            let got = std::fs::read(cwd.join(&out)).unwrap_or_default();
            let right = if decrypting { got == content(wd) } else { matches!(refspec::decode_key_file(&got, &b.sk, &b.pk), Ok(d) if d.body.complete() && d.body.plaintext() == content(wd)) };
            if o.exit == Exit::Timeout {
                ctx.inconclusive("C12: timeout");
            } else if o.exit == Exit::Code(0) && right {
                ctx.seen("input file named like a word of the command language is taken literally");
                ctx.distinct(&format!("word|{}|{}", wd, k));
            } else {
                ctx.violation("C12:outcome-depends-on-wiring:input-file-named-like-a-command-word", json!({"argv": args, "exit": o.exit.describe(), "stderr": o.stderr_s(), "output_is_the_result_for_that_file": right, "output_len": got.len()}));
            }
        });
    }
    // sinks that accept only part of the output (file size limit, SIGXFSZ ignored: a real short write
    // followed by EFBIG): exit 0 only if the whole output arrived, whichever way the output is wired
    {
        let pt = &pts[2].1;
        let f = refspec::encode_key_file(&a.sk, &a.pk, &b.pk, &rng.arr32(), &rng.arr32(), pt, &refspec::natural_chunking(pt.len(), 65536)).unwrap();
        let full_blocks = (pt.len() as u64 + 511) / 512;
        let enc_blocks = (pt.len() as u64 + 132 + 32 * 3 + 511) / 512;
        let mut jobs: Vec<(String, bool, u64, bool)> = Vec::new(); // (what, decrypt?, limit, via -o?)
        for via_o in [true, false] {
            for lim in [10u64, 128, 200, full_blocks - 1, full_blocks, full_blocks + 50] {
                jobs.push((format!("decrypt, limit {} of {} blocks", lim, full_blocks), true, lim, via_o));
            }
            for lim in [1u64, 129, enc_blocks - 1, enc_blocks, enc_blocks + 5] {
                jobs.push((format!("encrypt, limit {} of {} blocks", lim, enc_blocks), false, lim, via_o));
            }
        }
        let res = crate::util::par_map(jobs.len(), crate::util::ncpu(), |j| {
            let (what, dec, lim, via_o) = &jobs[j];
            let dir = w.wd.path.join(format!("lim{}", j));
            let _ = std::fs::create_dir_all(&dir);
            std::fs::write(dir.join("kr.txt"), &kr_ab).unwrap();
            std::fs::write(dir.join("in.ktl"), &f).unwrap();
            std::fs::write(dir.join("in.bin"), pt).unwrap();
            let mut args: Vec<&str> = if *dec { vec!["decrypt", "in.ktl", "-t", &b.name, "-k", "kr.txt", "--env-pass"] } else { vec!["encrypt", "in.bin", "-t", &b.name, "-f", &a.name, "-k", "kr.txt", "--env-pass"] };
            if *via_o {
                args.extend_from_slice(&["-o", "out.bin"]);
            }
            let mut cmd = Cmd::new(&dir, &args).pass(if *dec { &b.password } else { &a.password }).fsize_limit(*lim);
            if !*via_o {
                cmd = cmd.stdout(Stdout::File(dir.join("out.bin")));
            }
            let o = cmd.run();
            let out = std::fs::read(dir.join("out.bin")).unwrap_or_default();
            let _ = std::fs::remove_dir_all(&dir);
            (what.clone(), *dec, *lim, *via_o, o, out, cmd.describe())
        });
        for (what, dec, lim, via_o, o, out, desc) in res {
            ctx.eval();
            let complete = if dec { &out == pt } else { matches!(refspec::decode_key_file(&out, &b.sk, &b.pk), Ok(d) if d.body.complete() && &d.body.plaintext() == pt) };
            let needed = if dec { full_blocks } else { enc_blocks };
            let case = || json!({"case": what, "command": desc, "exit": o.exit.describe(), "stderr": o.stderr_s(), "output_bytes": out.len(), "output_complete": complete, "via": if via_o { "-o" } else { "stdout redirected to a file" }});
            match (&o.exit, complete) {
                (Exit::Code(0), true) if lim >= needed => ctx.seen("size-limited sink: limit not reached, exit 0 with complete output"),
                (Exit::Code(1), false) if lim < needed && o.has_error_line() => {
                    ctx.seen(&format!("size-limited sink ({}): short write then failure -> exit 1", if via_o { "-o" } else { "stdout" }));
                    ctx.distinct(&format!("fsize|{}|{}", what, via_o));
                }
                (Exit::Code(0), false) => ctx.violation(&format!("C12:{}:exit-0-although-the-output-was-cut-short-by-the-sink", if dec { "decrypt" } else { "encrypt" }), case()),
                (Exit::Timeout, _) => ctx.inconclusive("C12: timeout under a file size limit"),
                _ => ctx.violation(&format!("C12:{}:unexpected-outcome-under-a-size-limited-sink", if dec { "decrypt" } else { "encrypt" }), case()),
            }
        }
    }
    // stdout is a pipe whose reader has gone away: the operation did not complete, so exit 1 with an error
    {
        let pt = &pts[2].1;
        let f = refspec::encode_key_file(&a.sk, &a.pk, &b.pk, &rng.arr32(), &rng.arr32(), pt, &refspec::natural_chunking(pt.len(), 65536)).unwrap();
        let pf = refspec::encode_pass_file(b"pp", &rng.arr32(), pt, &refspec::natural_chunking(pt.len(), 65536));
        let dir = w.wd.path.join("closed");
        let _ = std::fs::create_dir_all(&dir);
        std::fs::write(dir.join("kr.txt"), &kr_ab).unwrap();
        std::fs::write(dir.join("in.ktl"), &f).unwrap();
        std::fs::write(dir.join("pin.ktl"), &pf).unwrap();
        std::fs::write(dir.join("in.bin"), pt).unwrap();
        let runs: Vec<(&str, Vec<&str>, &str, Stdin)> = vec![
            ("decrypt FILE", vec!["decrypt", "in.ktl", "-t", &b.name, "-k", "kr.txt", "--env-pass"], &b.password, Stdin::Null),
            ("decrypt <stdin", vec!["dec", "--to", &b.name, "--keyring", "kr.txt", "--env-pass"], &b.password, Stdin::Bytes(f.clone())),
            ("password decrypt FILE", vec!["password", "decrypt", "pin.ktl", "--env-pass"], "pp", Stdin::Null),
            ("encrypt FILE", vec!["encrypt", "in.bin", "-t", &b.name, "-f", &a.name, "-k", "kr.txt", "--env-pass"], &a.password, Stdin::Null),
            ("password encrypt <stdin", vec!["pass", "enc", "--env-pass"], "pp", Stdin::Bytes(pt.clone())),
        ];
        for (what, args, pw, stdin) in runs {
            for sink in [Stdout::ClosedPipe, Stdout::DevFull] {
                let o = Cmd::new(&dir, &args).pass(pw).stdin(stdin.clone()).stdout(sink.clone()).run();
                ctx.eval();
                if o.exit == Exit::Code(1) && o.has_error_line() {
                    ctx.seen(&format!("failing stdout sink ({:?}) -> exit 1 + Error:", sink));
                    ctx.distinct(&format!("sink|{}|{:?}", what, sink));
                } else if o.exit == Exit::Timeout {
                    ctx.inconclusive("C12: timeout on a failing sink");
                } else {
                    ctx.violation(&format!("C12:exit-status-hides-a-failed-output:{:?}", sink), json!({"command": what, "sink": format!("{:?}", sink), "exit": o.exit.describe(), "stderr": o.stderr_s()}));
                }
            }
        }
    }
    // stdin whose FIRST piece is only 1..5 bytes (a producer that writes a few bytes, then the rest): the same bytes as
    // the file argument, so the same outcome - a reader that judges the input on its first read sees a 1-3 byte prefix
    {
        let pt = &pts[1].1;
        let f = refspec::encode_key_file(&a.sk, &a.pk, &b.pk, &rng.arr32(), &rng.arr32(), pt, &refspec::natural_chunking(pt.len(), 65536)).unwrap();
        let pf = refspec::encode_pass_file(b"pp", &rng.arr32(), pt, &refspec::natural_chunking(pt.len(), 65536));
        let dir = w.wd.path.join("firstpiece");
        let _ = std::fs::create_dir_all(&dir);
        std::fs::write(dir.join("kr.txt"), &kr_ab).unwrap();
        let jobs: Vec<(usize, usize)> = (0..4usize).flat_map(|c| (1..=5usize).map(move |k| (c, k))).collect();
        crate::util::par_for(jobs.len(), crate::util::ncpu().min(8), |j| {
            let (c, k) = jobs[j];
            let (what, args, pw, input): (&str, Vec<&str>, &str, &Vec<u8>) = match c {
                0 => ("decrypt <stdin", vec!["decrypt", "-t", &b.name, "-k", "kr.txt", "--env-pass"], &b.password, &f),
                1 => ("password decrypt <stdin", vec!["password", "decrypt", "--env-pass"], "pp", &pf),
                2 => ("encrypt <stdin", vec!["encrypt", "-t", &b.name, "-f", &a.name, "-k", "kr.txt", "--env-pass"], &a.password, pt),
                _ => ("password encrypt <stdin", vec!["pass", "enc", "--env-pass"], "pp", pt),
            };
            let sizes = vec![k.min(input.len().max(1)), 0, 0, 1, 0, input.len()];
            let o = Cmd::new(&dir, &args).pass(pw).stdin(Stdin::Dribble(input.clone(), sizes)).stdout(Stdout::Capture).run();
            ctx.eval();
            let case = || json!({"command": what, "first_piece_bytes": k, "input_len": input.len(), "exit": o.exit.describe(), "stderr": o.stderr_s(), "stdout_len": o.stdout.len()});
            if o.exit == Exit::Timeout {
                ctx.inconclusive("C12: timeout with a tiny first stdin piece");
                return;
            }
            let good = match c {
                0 | 1 => o.exit == Exit::Code(0) && &o.stdout == pt,
                2 => o.exit == Exit::Code(0) && refspec::decode_key_file(&o.stdout, &b.sk, &b.pk).map(|d| d.body.complete() && &d.body.plaintext() == pt).unwrap_or(false),
                _ => o.exit == Exit::Code(0) && refspec::decode_pass_file(&o.stdout, b"pp").map(|d| d.body.complete() && &d.body.plaintext() == pt).unwrap_or(false),
            };
            if good {
                ctx.seen("stdin with a first piece of 1-5 bytes -> same outcome as the file argument");
                ctx.distinct(&format!("firstpiece|{}|{}", what, k));
            } else {
                ctx.violation(&format!("C12:{}:outcome-depends-on-how-stdin-is-cut:tiny-first-piece", what.split(' ').next().unwrap_or("cmd")), case());
            }
        });
        ctx.require("stdin with a first piece of 1-5 bytes -> same outcome as the file argument", 10);
    }
    // failing sinks and usage errors must not exit 0
    let wd = &w.wd;
    wd.write("kr.txt", kr_ab.as_bytes());
    wd.write("p.txt", b"x");
    let usage: Vec<Vec<&str>> = vec![
        vec!["encrypt", "p.txt", "-t", &b.name],
        vec!["encrypt", "p.txt", "-f", &a.name],
        vec!["decrypt", "p.txt"],
        vec!["decrypt", "p.txt", "extra", "-t", &b.name],
        vec!["frobnicate"],
        vec!["key"],
        vec!["key", "frob"],
        vec!["password"],
        vec!["password", "frob"],
        vec!["encrypt", "p.txt", "-t", &b.name, "-f", &a.name, "--bogus"],
        vec!["key", "change-pass"],
        vec!["key", "extract-pub"],
        vec!["password", "encrypt", "a", "b"],
    ];
    for u in usage {
        let o = Cmd::new(&wd.path, &u).pass("x").env("KESTREL_KEYRING", "kr.txt").run();
        ctx.eval();
        if o.exit == Exit::Code(1) && o.has_error_line() {
            ctx.seen("usage error -> exit 1 + Error:");
            ctx.distinct(&format!("usage|{:?}", u));
        } else {
            ctx.violation("C12:usage-error-not-reported-as-exit-1", json!({"argv": u, "exit": o.exit.describe(), "stderr": o.stderr_s()}));
        }
    }
    for (name, args) in [("--help", vec!["--help"]), ("-h", vec!["-h"]), ("--version", vec!["--version"]), ("-v", vec!["-v"]), ("no arguments", vec![])] {
        let o = Cmd::new(&wd.path, &args).run();
        ctx.eval();
        if o.exit == Exit::Code(0) && !o.stdout.is_empty() {
            ctx.seen("help/version -> exit 0");
        } else {
            ctx.violation("C12:help-or-version-fails", json!({"argv": name, "exit": o.exit.describe()}));
        }
    }
    ctx.require("input file named like a word of the command language", 60);
    ctx.require("decrypt -> exit 0", 20);
    ctx.require("decrypt -> exit 1", 20);
    ctx.require("encrypt -> exit 0", 10);
    ctx.require("password decrypt -> exit", 10);
    ctx.require("decrypt: sender named by its keyring entry", 15);
    ctx.require("decrypt: unknown sender reported with its encoding", 3);
    ctx.require("size-limited sink (-o)", 4);
    ctx.require("failing stdout sink (ClosedPipe)", 5);
    ctx.require("failing stdout sink (DevFull)", 5);
    ctx.require("successful run onto an existing output path", 12);
    ctx.require("size-limited sink (stdout)", 4);
}
