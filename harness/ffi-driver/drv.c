/* C driver for the kestrel C ABI (C18). Every buffer is an exact-size heap block so that
 * valgrind memcheck / AddressSanitizer see any access one byte outside it; the expected
 * values come from OpenSSL's EVP_PBE_scrypt. Output: one line per case, "OK ..." or
 * "MISMATCH ...", and a final "DONE <cases> <mismatches>". */
#include <stdio.h>
#include <stdlib.h>
#include <string.h>
#include <stdint.h>
#include <openssl/evp.h>
#include "kestrel-crypto.h"

static uint64_t s[2];
static uint64_t rnd(void) { /* xorshift128+ */
    uint64_t x = s[0], y = s[1];
    s[0] = y; x ^= x << 23; s[1] = x ^ y ^ (x >> 17) ^ (y >> 26);
    return s[1] + y;
}
static unsigned char *exact(size_t n, int fill) {
    /* malloc(0) may return NULL: use a 1-byte block and hand out its END so any access is out of bounds */
    if (n == 0) { unsigned char *p = malloc(1); return p + 1; }
    unsigned char *p = malloc(n);
    for (size_t i = 0; i < n; i++) p[i] = fill ? (unsigned char)rnd() : 0xA5;
    return p;
}
static void release(unsigned char *p, size_t n) { free(n == 0 ? p - 1 : p); }

int main(int argc, char **argv) {
    unsigned long seed = argc > 1 ? strtoul(argv[1], 0, 10) : 1;
    int cases = argc > 2 ? atoi(argv[2]) : 60;
    int use_null = argc > 3 ? atoi(argv[3]) : 0; /* 1: pass NULL for zero-length inputs, as C callers do */
    s[0] = 0x9E3779B97F4A7C15ULL ^ seed; s[1] = 0xD1B54A32D192ED03ULL + seed;
    int bad = 0;
    for (int c = 0; c < cases; c++) {
        static const size_t lens[] = {0, 1, 2, 31, 32, 33, 63, 64, 65, 200};
        size_t pl = lens[rnd() % 10], sl = lens[rnd() % 10];
        unsigned n = 1u << (1 + rnd() % 6), r = 1 + rnd() % 4, p = 1 + rnd() % 3;
        size_t dk = 1 + rnd() % 200;
        if (c % 7 == 0) dk = lens[1 + rnd() % 9];
        unsigned char *pw = exact(pl, 1), *salt = exact(sl, 1), *out = exact(dk, 0), *want = malloc(dk);
        unsigned char *pw_copy = malloc(pl + 1), *salt_copy = malloc(sl + 1);
        memcpy(pw_copy, pw, pl); memcpy(salt_copy, salt, sl);
        const unsigned char *pw_arg = (use_null && pl == 0) ? NULL : pw;
        const unsigned char *salt_arg = (use_null && sl == 0) ? NULL : salt;
        scrypt(pw_arg, pl, salt_arg, sl, n, r, p, out, dk);
        if (EVP_PBE_scrypt((const char *)pw_copy, pl, salt_copy, sl, n, r, p, 1ULL << 30, want, dk) != 1) {
            printf("ORACLE-REFUSED n=%u r=%u p=%u\n", n, r, p);
        } else if (memcmp(out, want, dk) != 0 || memcmp(pw, pw_copy, pl) != 0 || memcmp(salt, salt_copy, sl) != 0) {
            printf("MISMATCH pl=%zu sl=%zu n=%u r=%u p=%u dk=%zu\n", pl, sl, n, r, p, dk);
            bad++;
        } else {
            printf("OK pl=%zu sl=%zu n=%u r=%u p=%u dk=%zu\n", pl, sl, n, r, p, dk);
        }
        release(pw, pl); release(salt, sl); release(out, dk);
        free(want); free(pw_copy); free(salt_copy);
    }
    printf("DONE %d %d\n", cases, bad);
    return bad ? 1 : 0;
}
