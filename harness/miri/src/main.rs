//! kmiri <mode> [seed]   modes: c18 | c18-null | c20 | smoke
//! Prints "KMIRI-OK <mode> cases=<n> ..." on success, "KMIRI-FAIL <what>" (exit 1) on a
//! wrong value; undefined behaviour is reported by Miri itself (non-zero exit, "Undefined Behavior").

#[path = "../../common/allocmon.rs"]
mod allocmon;

#[allow(dead_code, clippy::missing_safety_doc)]
#[path = "/repo/src/ffi/src/lib.rs"]
mod ffi;

#[global_allocator]
static GLOBAL: allocmon::Mon = allocmon::Mon;

use kestrel_crypto::{PayloadKey, PrivateKey};
use std::io::{Read, Write};

struct Rng(u64);
impl Rng {
    fn next(&mut self) -> u64 {
        self.0 = self.0.wrapping_add(0x9E3779B97F4A7C15);
        let mut z = self.0;
        z = (z ^ (z >> 30)).wrapping_mul(0xBF58476D1CE4E5B9);
        z = (z ^ (z >> 27)).wrapping_mul(0x94D049BB133111EB);
        z ^ (z >> 31)
    }
    fn bytes(&mut self, n: usize) -> Vec<u8> {
        (0..n).map(|_| self.next() as u8).collect()
    }
}

fn fail(what: &str) -> ! {
    println!("KMIRI-FAIL {}", what);
    std::process::exit(1);
}

fn unhex(s: &str) -> Vec<u8> {
    (0..s.len() / 2).map(|i| u8::from_str_radix(&s[2 * i..2 * i + 2], 16).unwrap()).collect()
}

/// The extern "C" function called from Rust with exact-size allocations: Miri checks the
/// bounds and validity of every pointer the wrapper forms, byte-precisely.
fn c18(seed: u64, null_for_empty: bool, full: bool) {
    let mut rng = Rng(seed);
    // RFC 7914 vector 1 through the C ABI
    let want = unhex("77d6576238657b203b19ca42c18a0497f16b4844e3074ae8dfdffa3fede21442fcd0069ded0948f8326a753a0fc81f17e8d3e0fb2e0d3628cf35e20c38d18906");
    let mut out = vec![0u8; 64].into_boxed_slice();
    let dangling = std::ptr::NonNull::<u8>::dangling().as_ptr() as *const u8;
    let empty_ptr = if null_for_empty { std::ptr::null() } else { dangling };
    unsafe { ffi::scrypt(empty_ptr, 0, empty_ptr, 0, 16, 1, 1, out.as_mut_ptr(), 64) };
    if out[..] != want[..] {
        fail("rfc7914 vector 1 through the C ABI");
    }
    let mut cases = 1;
    let lens = [0usize, 1, 5, 64, 65];
    let grid: &[(u32, u32, u32)] = if full { &[(2, 1, 1), (4, 2, 1), (2, 1, 2), (8, 1, 1)] } else { &[(2, 1, 1), (2, 1, 2)] };
    let dks: &[usize] = if full { &[1, 31, 32, 33, 65] } else { &[1, 33] };
    for (i, &(n, r, p)) in grid.iter().enumerate() {
        for &dk in dks {
            let pl = lens[(rng.next() % 5) as usize];
            let sl = lens[(rng.next() % 5) as usize];
            if full && (i + dk) % 2 == 1 && !(pl == 0 || sl == 0) {
                continue;
            }
            let pw = rng.bytes(pl).into_boxed_slice();
            let salt = rng.bytes(sl).into_boxed_slice();
            let pw_before = pw.clone();
            let salt_before = salt.clone();
            // output buffer in the middle of a canaried allocation AND, separately, an exact-size one
            let mut framed = vec![0xC3u8; dk + 32].into_boxed_slice();
            let mut exact = vec![0u8; dk].into_boxed_slice();
            let pw_ptr = if pl == 0 { empty_ptr } else { pw.as_ptr() };
            let salt_ptr = if sl == 0 { empty_ptr } else { salt.as_ptr() };
            unsafe {
                ffi::scrypt(pw_ptr, pl, salt_ptr, sl, n, r, p, exact.as_mut_ptr(), dk);
                if full || cases % 2 == 0 {
                    ffi::scrypt(pw_ptr, pl, salt_ptr, sl, n, r, p, framed.as_mut_ptr().add(16), dk);
                } else {
                    framed[16..16 + dk].copy_from_slice(&exact);
                }
            }
            let direct = kestrel_crypto::scrypt(&pw, &salt, n, r, p, dk);
            if exact[..] != direct[..] || framed[16..16 + dk] != direct[..] {
                fail("C ABI value differs from the library value");
            }
            if framed[..16].iter().any(|b| *b != 0xC3) || framed[16 + dk..].iter().any(|b| *b != 0xC3) {
                fail("canary around the output buffer changed");
            }
            if pw != pw_before || salt != salt_before {
                fail("input buffer changed");
            }
            cases += 1;
        }
    }
    println!("KMIRI-OK {} cases={}", if null_for_empty { "c18-null" } else { "c18" }, cases);
}

/// Drop-time erasure. Heap-backed PrivateKey: the allocator inspects the watched block at
/// dealloc time. Inline PayloadKey: drop_in_place on a slot that stays allocated, then read back.
fn c20(seed: u64) {
    let mut rng = Rng(seed);
    let mut cases = 0;
    // positive control: a plain Vec with the same bytes is NOT zero at release
    {
        let v = rng.bytes(32);
        let slot = allocmon::watch(v.as_ptr(), 32);
        drop(v);
        let (st, _) = allocmon::verdict(slot);
        allocmon::unwatch(slot);
        if st != 2 {
            fail("control: plain Vec read as zero/not released at dealloc (monitor broken)");
        }
    }
    // a block still allocated when its handle goes away (bytes shared between handles) is judged at the
    // end of the round, when every handle has been dropped
    let pending: std::cell::RefCell<Vec<(usize, String)>> = std::cell::RefCell::new(Vec::new());
    let check = |slot: usize, what: &str| {
        let (st, nz) = allocmon::verdict(slot);
        if st == 0 {
            pending.borrow_mut().push((slot, what.to_string()));
            return;
        }
        allocmon::unwatch(slot);
        if st == 2 {
            fail(&format!("{}: {} non-zero secret bytes at release", what, nz));
        }
    };
    let quiescent = || {
        for (slot, what) in pending.borrow_mut().drain(..) {
            let (st, nz) = allocmon::verdict(slot);
            allocmon::unwatch(slot);
            if st == 0 {
                println!("KMIRI-INCONCLUSIVE {}: block never released although every handle was dropped (leak)", what);
                std::process::exit(3);
            }
            if st == 2 {
                fail(&format!("{}: {} non-zero secret bytes at release", what, nz));
            }
        }
    };
    for round in 0..3 {
        let raw = rng.bytes(32);
        // constructors
        let k1 = PrivateKey::try_from(&raw[..]).unwrap();
        let k2 = PrivateKey::generate();
        let k3 = k1.clone();
        let k4 = k3.clone();
        let s1 = allocmon::watch(k1.as_bytes().as_ptr(), 32);
        let s2 = allocmon::watch(k2.as_bytes().as_ptr(), 32);
        let s3 = allocmon::watch(k3.as_bytes().as_ptr(), 32);
        let s4 = allocmon::watch(k4.as_bytes().as_ptr(), 32);
        match round {
            0 => {
                drop(k1);
                drop(k3);
                drop(k4);
                drop(k2);
            }
            1 => {
                drop(k4);
                drop(k2);
                let v = vec![k3, k1];
                drop(v);
            }
            _ => {
                let mut holder = Some(k1);
                let old = std::mem::replace(&mut holder, None);
                drop(old);
                struct S {
                    _a: PrivateKey,
                    _b: PrivateKey,
                }
                let s = S { _a: k2, _b: k3 };
                drop(s);
                {
                    let _scoped = k4; // dropped by scope exit
                }
            }
        }
        check(s1, "PrivateKey::try_from");
        check(s2, "PrivateKey::generate");
        check(s3, "PrivateKey clone");
        check(s4, "PrivateKey clone of clone");
        cases += 4;
        // overwrite paths
        {
            let mut a = PrivateKey::try_from(&raw[..]).unwrap();
            let b = PrivateKey::generate();
            let wa = allocmon::watch(a.as_bytes().as_ptr(), 32);
            a.clone_from(&b);
            check(wa, "PrivateKey overwritten by clone_from");
            let wa2 = allocmon::watch(a.as_bytes().as_ptr(), 32);
            a = b.clone();
            check(wa2, "PrivateKey overwritten by assignment");
            drop(a);
            cases += 2;
        }
        // PayloadKey in a Box (watched) and in a slot dropped in place
        let pk = Box::new(PayloadKey::new(&raw));
        let sb = allocmon::watch(pk.as_bytes().as_ptr(), 32);
        let pk2 = pk.clone();
        let sc = allocmon::watch(pk2.as_bytes().as_ptr(), 32);
        drop(pk);
        drop(pk2);
        check(sb, "Box<PayloadKey>");
        check(sc, "Box<PayloadKey> clone");
        let mut slot = std::mem::MaybeUninit::<PayloadKey>::uninit();
        slot.write(PayloadKey::new(&raw));
        unsafe {
            std::ptr::drop_in_place(slot.as_mut_ptr());
            let bytes = std::slice::from_raw_parts(slot.as_ptr() as *const u8, std::mem::size_of::<PayloadKey>());
            if bytes.iter().any(|b| *b != 0) {
                fail("PayloadKey slot holds non-zero bytes after drop_in_place");
            }
        }
        cases += 3;
        if std::mem::align_of::<PayloadKey>() == 1 {
            for off in 0..16usize {
                let mut area = [0xAAu8; 96];
                unsafe {
                    let p = area.as_mut_ptr().add(16 + off) as *mut PayloadKey;
                    std::ptr::write(p, PayloadKey::new(&raw));
                    std::ptr::drop_in_place(p);
                    let bytes = std::slice::from_raw_parts(p as *const u8, std::mem::size_of::<PayloadKey>());
                    if bytes.iter().any(|b| *b != 0) {
                        fail("PayloadKey at an unaligned address holds non-zero bytes after drop_in_place");
                    }
                }
                cases += 1;
            }
        }
        quiescent();
    }
    println!("KMIRI-OK c20 cases={}", cases);
}

/// Clones released by several threads at once. Run with -Zmiri-many-seeds and a raised preemption
/// rate so that Miri's scheduler tries different interleavings of the release paths.
fn c20_conc(seed: u64) {
    let mut rng = Rng(seed);
    let mut cases = 0;
    for round in 0..6usize {
        let n = 2 + round % 2;
        let raw = rng.bytes(32);
        let k0 = if round % 2 == 0 { PrivateKey::try_from(&raw[..]).unwrap() } else { PrivateKey::generate() };
        let mut keys = vec![k0];
        for i in 1..n {
            let c = keys[i - 1].clone();
            keys.push(c);
        }
        let slots: Vec<usize> = keys.iter().map(|k| allocmon::watch(k.as_bytes().as_ptr(), 32)).collect();
        let handles: Vec<_> = keys.drain(..).map(|k| std::thread::spawn(move || drop(k))).collect();
        for h in handles {
            h.join().unwrap();
        }
        for slot in slots {
            let (st, nz) = allocmon::verdict(slot);
            allocmon::unwatch(slot);
            if st == 0 {
                println!("KMIRI-INCONCLUSIVE concurrent release: block never released (leak)");
                std::process::exit(3);
            }
            if st == 2 {
                fail(&format!("PrivateKey released by {} threads at once: {} non-zero secret bytes at release", n, nz));
            }
            cases += 1;
        }
    }
    println!("KMIRI-OK c20-conc cases={}", cases);
}

struct Chop<'a>(&'a [u8], usize, usize);
impl<'a> Read for Chop<'a> {
    fn read(&mut self, buf: &mut [u8]) -> std::io::Result<usize> {
        let n = buf.len().min(self.0.len() - self.1).min(self.2);
        buf[..n].copy_from_slice(&self.0[self.1..self.1 + n]);
        self.1 += n;
        Ok(n)
    }
}
struct Sip(Vec<u8>, usize);
impl Write for Sip {
    fn write(&mut self, buf: &[u8]) -> std::io::Result<usize> {
        let n = buf.len().min(self.1);
        self.0.extend_from_slice(&buf[..n]);
        Ok(n)
    }
    fn flush(&mut self) -> std::io::Result<()> {
        Ok(())
    }
}

/// Chunk loops under Miri with partial reads/writes (round trip as oracle).
fn smoke(seed: u64, full: bool) {
    let mut rng = Rng(seed);
    let mut cases = 0;
    for c in 1..=3u32 {
        for len in [0usize, 1, 3, 7] {
            let key = rng.bytes(32);
            let pt = rng.bytes(len);
            let mut ct = Sip(Vec::new(), 5);
            kestrel_crypto::encrypt::verif_encrypt_chunks(&mut Chop(&pt, 0, 2), &mut ct, &key, b"ad", c).unwrap();
            let mut out = Sip(Vec::new(), 1);
            kestrel_crypto::decrypt::verif_decrypt_chunks(&mut Chop(&ct.0, 0, 7), &mut out, &key, b"ad", c).unwrap();
            if out.0 != pt {
                fail("chunk loop round trip under Miri");
            }
            // a tampered copy must fail cleanly
            if let Some(l) = ct.0.last_mut() {
                *l ^= 1;
            }
            let mut out = Sip(Vec::new(), 64);
            if kestrel_crypto::decrypt::verif_decrypt_chunks(&mut Chop(&ct.0, 0, 64), &mut out, &key, b"ad", c).is_ok() {
                fail("tampered body accepted under Miri");
            }
            cases += 1;
        }
    }
    if full {
        let s = PrivateKey::generate();
        let r = PrivateKey::generate();
        let pt = rng.bytes(100);
        let mut ct = Sip(Vec::new(), 50);
        kestrel_crypto::encrypt::key_encrypt(&mut Chop(&pt, 0, 33), &mut ct, &s, &s.to_public().unwrap(), &r.to_public().unwrap(), None, None, None, kestrel_crypto::AsymFileFormat::V1).unwrap();
        let mut out = Sip(Vec::new(), 9);
        let who = kestrel_crypto::decrypt::key_decrypt(&mut Chop(&ct.0, 0, 20), &mut out, &r, &r.to_public().unwrap(), kestrel_crypto::AsymFileFormat::V1).unwrap();
        if out.0 != pt || who.as_bytes() != s.to_public().unwrap().as_bytes() {
            fail("key-mode round trip under Miri");
        }
        cases += 1;
    }
    println!("KMIRI-OK smoke cases={}", cases);
}

fn main() {
    let args: Vec<String> = std::env::args().collect();
    let mode = args.get(1).map(|s| s.as_str()).unwrap_or("c18");
    let seed: u64 = args.get(2).and_then(|s| s.parse().ok()).unwrap_or(1);
    match mode {
        "c18" => c18(seed, false, false),
        "c18-null" => c18(seed, true, false),
        "c18-full" => c18(seed, false, true),
        "c18-null-full" => c18(seed, true, true),
        "c20" => c20(seed),
        "c20-conc" => c20_conc(seed),
        "smoke" => smoke(seed, false),
        "smoke-full" => smoke(seed, true),
        _ => fail("unknown mode"),
    }
}
