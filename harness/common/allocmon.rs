//! Counting / inspecting global allocator shared by kmon (native) and kmiri (under Miri).
//!
//! * per-thread live / peak / largest-block / count readings around a call (C09, C11);
//! * a table of *watched* blocks (address, length): `dealloc` inspects a watched block
//!   before forwarding to the system allocator and records whether all bytes are zero (C20);
//! * optional by-value scan of every freed block for registered 32-byte secrets
//!   (informational only).
//! Tracking is by address only; nothing here keeps a secret alive or hides a leak.

use std::alloc::{GlobalAlloc, Layout, System};
use std::cell::Cell;
use std::sync::atomic::{AtomicU8, AtomicUsize, Ordering};

pub struct Mon;

thread_local! {
    static T_LIVE: Cell<isize> = const { Cell::new(0) };
    static T_PEAK: Cell<isize> = const { Cell::new(0) };
    static T_LARGEST: Cell<usize> = const { Cell::new(0) };
    static T_COUNT: Cell<usize> = const { Cell::new(0) };
    static T_ON: Cell<bool> = const { Cell::new(false) };
}

const SLOTS: usize = 64;
static W_ADDR: [AtomicUsize; SLOTS] = [const { AtomicUsize::new(0) }; SLOTS];
static W_LEN: [AtomicUsize; SLOTS] = [const { AtomicUsize::new(0) }; SLOTS];
/// 0 = free slot / not yet released, 1 = released all-zero, 2 = released with non-zero bytes
static W_STATE: [AtomicU8; SLOTS] = [const { AtomicU8::new(0) }; SLOTS];
static W_NONZERO: [AtomicUsize; SLOTS] = [const { AtomicUsize::new(0) }; SLOTS];
/// copy of the watched bytes taken at watch() time: at release the WHOLE block (spare capacity included)
/// is searched for it, so a stale second copy behind the live length is seen as well
static mut W_VALUE: [[u8; 32]; SLOTS] = [[0u8; 32]; SLOTS];
/// offset+1 at which a copy of the watched value was found elsewhere in the released block (0 = none)
static W_COPY_AT: [AtomicUsize; SLOTS] = [const { AtomicUsize::new(0) }; SLOTS];
static W_ACTIVE: AtomicUsize = AtomicUsize::new(0);

const SECRETS: usize = 8;
static S_ON: AtomicUsize = AtomicUsize::new(0);
static mut S_VAL: [[u8; 32]; SECRETS] = [[0u8; 32]; SECRETS];
static S_HITS: AtomicUsize = AtomicUsize::new(0);
static S_HIT_SIZES: [AtomicUsize; 4] = [const { AtomicUsize::new(0) }; 4];

#[derive(Clone, Copy, Debug, Default)]
pub struct Reading {
    pub peak_live: isize,
    pub largest_block: usize,
    pub allocations: usize,
    pub live_at_end: isize,
}

/// Start measuring on this thread (counters reset).
pub fn begin() {
    let _ = T_LIVE.try_with(|c| c.set(0));
    let _ = T_PEAK.try_with(|c| c.set(0));
    let _ = T_LARGEST.try_with(|c| c.set(0));
    let _ = T_COUNT.try_with(|c| c.set(0));
    let _ = T_ON.try_with(|c| c.set(true));
}

pub fn end() -> Reading {
    let _ = T_ON.try_with(|c| c.set(false));
    Reading {
        peak_live: T_PEAK.try_with(|c| c.get()).unwrap_or(0),
        largest_block: T_LARGEST.try_with(|c| c.get()).unwrap_or(0),
        allocations: T_COUNT.try_with(|c| c.get()).unwrap_or(0),
        live_at_end: T_LIVE.try_with(|c| c.get()).unwrap_or(0),
    }
}

/// Watch the block starting at `ptr` (must be the base address of a heap allocation).
pub fn watch(ptr: *const u8, len: usize) -> usize {
    for i in 0..SLOTS {
        if W_ADDR[i].compare_exchange(0, ptr as usize, Ordering::SeqCst, Ordering::SeqCst).is_ok() {
            W_LEN[i].store(len, Ordering::SeqCst);
            unsafe {
                let v = std::ptr::addr_of_mut!(W_VALUE) as *mut [u8; 32];
                let mut copy = [0u8; 32];
                for k in 0..len.min(32) {
                    copy[k] = std::ptr::read_volatile(ptr.add(k));
                }
                *v.add(i) = copy;
            }
            W_COPY_AT[i].store(0, Ordering::SeqCst);
            W_STATE[i].store(0, Ordering::SeqCst);
            W_NONZERO[i].store(0, Ordering::SeqCst);
            W_ACTIVE.fetch_add(1, Ordering::SeqCst);
            return i;
        }
    }
    usize::MAX
}

/// (state, number of non-zero bytes at release). state: 0 not released yet, 1 zero, 2 non-zero.
pub fn verdict(slot: usize) -> (u8, usize) {
    (W_STATE[slot].load(Ordering::SeqCst), W_NONZERO[slot].load(Ordering::SeqCst))
}

/// Some(offset) if the released block held another copy of the watched value outside the first `len` bytes.
pub fn stale_copy(slot: usize) -> Option<usize> {
    match W_COPY_AT[slot].load(Ordering::SeqCst) {
        0 => None,
        n => Some(n - 1),
    }
}

pub fn unwatch(slot: usize) {
    if slot < SLOTS {
        unsafe {
            let v = std::ptr::addr_of_mut!(W_VALUE) as *mut [u8; 32];
            *v.add(slot) = [0u8; 32];
        }
        if W_STATE[slot].load(Ordering::SeqCst) == 0 {
            // never released while watched
            W_ACTIVE.fetch_sub(1, Ordering::SeqCst);
        }
        W_STATE[slot].store(0, Ordering::SeqCst);
        W_ADDR[slot].store(0, Ordering::SeqCst);
    }
}

/// Register secrets for the informational by-value scan of freed blocks.
pub fn scan_for(secrets: &[[u8; 32]]) {
    S_ON.store(0, Ordering::SeqCst);
    for (i, s) in secrets.iter().take(SECRETS).enumerate() {
        unsafe {
            let p = std::ptr::addr_of_mut!(S_VAL) as *mut [u8; 32];
            *p.add(i) = *s;
        }
    }
    S_HITS.store(0, Ordering::SeqCst);
    for h in S_HIT_SIZES.iter() {
        h.store(0, Ordering::SeqCst);
    }
    S_ON.store(secrets.len().min(SECRETS), Ordering::SeqCst);
}

/// (freed blocks that still held a registered secret, up to four of their sizes)
pub fn scan_result() -> (usize, Vec<usize>) {
    let n = S_ON.swap(0, Ordering::SeqCst);
    let _ = n;
    unsafe {
        let p = std::ptr::addr_of_mut!(S_VAL) as *mut [u8; 32];
        for i in 0..SECRETS {
            *p.add(i) = [0u8; 32];
        }
    }
    (S_HITS.load(Ordering::SeqCst), S_HIT_SIZES.iter().map(|h| h.load(Ordering::SeqCst)).filter(|x| *x != 0).collect())
}

unsafe impl GlobalAlloc for Mon {
    unsafe fn alloc(&self, layout: Layout) -> *mut u8 {
        let p = System.alloc(layout);
        if !p.is_null() {
            note_alloc(layout.size());
        }
        p
    }
    unsafe fn alloc_zeroed(&self, layout: Layout) -> *mut u8 {
        let p = System.alloc_zeroed(layout);
        if !p.is_null() {
            note_alloc(layout.size());
        }
        p
    }
    unsafe fn dealloc(&self, ptr: *mut u8, layout: Layout) {
        inspect(ptr, layout.size());
        note_free(layout.size());
        System.dealloc(ptr, layout)
    }
    unsafe fn realloc(&self, ptr: *mut u8, layout: Layout, new_size: usize) -> *mut u8 {
        // a moving realloc releases the old block: inspect it first
        inspect(ptr, layout.size());
        let p = System.realloc(ptr, layout, new_size);
        if !p.is_null() {
            note_free(layout.size());
            note_alloc(new_size);
        }
        p
    }
}

fn note_alloc(size: usize) {
    let _ = T_ON.try_with(|on| {
        if on.get() {
            let _ = T_COUNT.try_with(|c| c.set(c.get() + 1));
            let _ = T_LARGEST.try_with(|c| c.set(c.get().max(size)));
            let live = T_LIVE.try_with(|c| {
                c.set(c.get() + size as isize);
                c.get()
            });
            if let Ok(l) = live {
                let _ = T_PEAK.try_with(|c| c.set(c.get().max(l)));
            }
        }
    });
}

fn note_free(size: usize) {
    let _ = T_ON.try_with(|on| {
        if on.get() {
            let _ = T_LIVE.try_with(|c| c.set(c.get() - size as isize));
        }
    });
}

unsafe fn inspect(ptr: *mut u8, size: usize) {
    if W_ACTIVE.load(Ordering::Relaxed) > 0 {
        for i in 0..SLOTS {
            if W_ADDR[i].load(Ordering::SeqCst) == ptr as usize && W_STATE[i].load(Ordering::SeqCst) == 0 {
                let len = W_LEN[i].load(Ordering::SeqCst).min(size);
                let mut nz = 0usize;
                for k in 0..len {
                    if std::ptr::read_volatile(ptr.add(k)) != 0 {
                        nz += 1;
                    }
                }
                W_NONZERO[i].store(nz, Ordering::SeqCst);
                // the rest of the block (e.g. spare Vec capacity): look for the value itself. Not under Miri,
                // where reading uninitialised spare capacity would itself be an error.
                if !cfg!(miri) && size >= len + 16 && len >= 16 {
                    let v = &*(std::ptr::addr_of!(W_VALUE) as *const [u8; 32]).add(i);
                    if v.iter().any(|b| *b != 0) {
                        let block = std::slice::from_raw_parts(ptr as *const u8, size);
                        if let Some(pos) = block[len..].windows(16).position(|w| w == &v[..16] || w == &v[16..32]) {
                            W_COPY_AT[i].store(len + pos + 1, Ordering::SeqCst);
                            nz = nz.max(1);
                        }
                    }
                }
                W_STATE[i].store(if nz == 0 { 1 } else { 2 }, Ordering::SeqCst);
                W_ACTIVE.fetch_sub(1, Ordering::SeqCst);
            }
        }
    }
    let ns = S_ON.load(Ordering::Relaxed);
    if ns > 0 && size >= 32 && size <= (1 << 20) {
        let block = std::slice::from_raw_parts(ptr as *const u8, size);
        let secrets = std::ptr::addr_of!(S_VAL) as *const [u8; 32];
        for s in 0..ns {
            let sec = &*secrets.add(s);
            if block.windows(32).any(|w| w == sec) {
                let n = S_HITS.fetch_add(1, Ordering::SeqCst);
                if n < 4 {
                    S_HIT_SIZES[n].store(size, Ordering::SeqCst);
                }
                break;
            }
        }
    }
}
